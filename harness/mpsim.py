"""Simulated worker processes for the multiprocess properties (C08, C09) + the wire codec of driver module "c08".

One interpreter plays several processes, the way tests/test_multiprocess.py does:

* C08 style — one value class per simulated process, `values.MultiProcessValue(lambda: pid)`; the module global
  `prometheus_client.values.ValueClass` must be RE-POINTED to the acting process's class before every operation
  (`Sim.use(cls)`): metric constructors and `labels()` read that global when they create value objects.
* C09 style — one class whose `process_identifier` reads a mutable cell (`Sim.cell_class`), wrapped in a logging
  subclass that records every value-object call in order (`ValueLog`), so that the same history can be replayed on
  the Lean model of the closure (`c08 hist`).

`Sim` is a context manager: temp dir in PROMETHEUS_MULTIPROC_DIR, scripted clock patched into
`prometheus_client.metrics.time`, warnings silenced; on exit every mmap file of every class made through it is closed,
the patched globals are restored and the directory is removed.
"""
import glob
import json
import os
import shutil
import tempfile
import time as _real_time
import warnings

import lib


# ------------------------------------------------------------------------------------------------ numeric equality
def feq(a, b):
    """numeric equality with NaN == NaN (and therefore -0.0 == 0.0)"""
    return a == b or (a != a and b != b)


# ------------------------------------------------------------------------------------------------ scripted clock
class FakeClock:
    """stands in for the `time` module inside prometheus_client.metrics; `.time()` returns what the script last set"""

    def __init__(self):
        self.now = 1.0
        self.calls = 0

    def time(self):
        self.calls += 1
        return self.now

    def __getattr__(self, name):
        return getattr(_real_time, name)


# ------------------------------------------------------------------------------------------------ closure access
def closure_var(cls, name):
    """the object bound to free variable `name` in the closure of MultiProcessValue that made `cls` (or a base of it)"""
    for klass in cls.__mro__:
        for f in vars(klass).values():
            code = getattr(f, '__code__', None)
            if code is not None and name in code.co_freevars and f.__closure__:
                return f.__closure__[code.co_freevars.index(name)].cell_contents
    raise lib.Infra('closure variable %r not found in %r' % (name, cls))


def close_class_files(cls):
    """close every MmapedDict the class has open (what process exit does)"""
    try:
        files = closure_var(cls, 'files')
    except lib.Infra:
        return
    for f in list(files.values()):
        try:
            f.close()
        except Exception:
            pass


# ------------------------------------------------------------------------------------------------ value-level log
class ValueLog:
    """ordered record of every value-object call: ('C', typ, metric, name, labelnames, labelvalues, help, mode),
    ('I', idx, amount), ('S', idx, value, ts|None), ('G', idx), ('P', pidtext), and in world histories ('W', pidtext)
    new worker / ('D', pidtext) mark_process_dead; `gets[i]` = result of op i if a get"""

    def __init__(self):
        self.ops = []
        self.objs = []
        self.gets = {}
        self.after = None       # optional hook called with the op's index after the real call returned normally

    def event(self, tok):
        """a step that is not a value-object call: ('P', pid) identity change, ('W', pid) new worker, ('D', pid) death"""
        self.ops.append(tok)
        if self.after:
            self.after(len(self.ops) - 1)

    def set_pid_logged(self, pid):
        self.event(('P', str(pid)))

    def spawn(self):
        """the log of a NEW worker in the same world history: the op list, get results and hook are shared (global
        step indices), the value-object indices restart at 0"""
        g = ValueLog()
        g.ops, g.gets, g.after = self.ops, self.gets, self.after
        return g


def logging_subclass(base, log):
    class LoggedValue(base):
        def __init__(self, typ, metric_name, name, labelnames, labelvalues, help_text, multiprocess_mode='', **kwargs):
            self._log_idx = len(log.objs)
            log.objs.append(self)
            log.ops.append(('C', typ, metric_name, name, tuple(labelnames), tuple(labelvalues), help_text,
                            multiprocess_mode))
            at = len(log.ops) - 1
            super().__init__(typ, metric_name, name, labelnames, labelvalues, help_text,
                             multiprocess_mode=multiprocess_mode, **kwargs)
            if log.after:
                log.after(at)

        def inc(self, amount):
            log.ops.append(('I', self._log_idx, amount))
            at = len(log.ops) - 1
            super().inc(amount)
            if log.after:
                log.after(at)

        def set(self, value, timestamp=None):
            log.ops.append(('S', self._log_idx, value, timestamp))
            at = len(log.ops) - 1
            super().set(value, timestamp=timestamp)
            if log.after:
                log.after(at)

        def get(self):
            log.ops.append(('G', self._log_idx))
            at = len(log.ops) - 1
            r = super().get()
            log.gets[at] = r
            if log.after:
                log.after(at)
            return r

    return LoggedValue


# ------------------------------------------------------------------------------------------------ the simulation
class Sim:
    def __init__(self):
        self.dir = None
        self.clock = FakeClock()
        self.classes = []

    def __enter__(self):
        from prometheus_client import metrics, values
        self._values = values
        self._metrics = metrics
        self._old_env = os.environ.get('PROMETHEUS_MULTIPROC_DIR')
        self._old_env_lc = os.environ.pop('prometheus_multiproc_dir', None)
        self._old_vc = values.ValueClass
        self._old_time = metrics.time
        self.dir = tempfile.mkdtemp(prefix='pv-mp-')
        os.environ['PROMETHEUS_MULTIPROC_DIR'] = self.dir
        metrics.time = self.clock
        self._warn = warnings.catch_warnings()
        self._warn.__enter__()
        warnings.simplefilter('ignore')
        return self

    def __exit__(self, *exc):
        for cls in self.classes:
            close_class_files(cls)
        self.classes = []
        self._warn.__exit__(None, None, None)
        self._metrics.time = self._old_time
        self._values.ValueClass = self._old_vc
        if self._old_env is None:
            os.environ.pop('PROMETHEUS_MULTIPROC_DIR', None)
        else:
            os.environ['PROMETHEUS_MULTIPROC_DIR'] = self._old_env
        if self._old_env_lc is not None:
            os.environ['prometheus_multiproc_dir'] = self._old_env_lc
        shutil.rmtree(self.dir, ignore_errors=True)
        return False

    # -- C08 style
    def new_class(self, pid):
        cls = self._values.MultiProcessValue(lambda: pid)
        self.classes.append(cls)
        return cls

    def use(self, cls):
        self._values.ValueClass = cls

    def end_process(self, cls):
        """process exit: its files are closed"""
        close_class_files(cls)

    # -- C09 style
    def cell_class(self, pid, log=None):
        """(class, cell): `cell[0]` is what process_identifier() returns; with `log` the class records its calls"""
        cell = [pid]
        base = self._values.MultiProcessValue(lambda: cell[0])
        self.classes.append(base)
        cls = logging_subclass(base, log) if log is not None else base
        return cls, cell

    # -- observations
    def listing(self):
        return listing(self.dir)

    def collect(self):
        return collect(self.dir)


def listing(d):
    """the same call the collector makes, so the order is the collector's order"""
    return glob.glob(os.path.join(d, '*.db'))


class Unreadable(list):
    """what `read_file` returns when the LIBRARY's own reader raises on a store file: an empty entry list that remembers
    the exception.  Such an exception is an observation about the real code (the property's collector would hit it
    too), never infrastructure: callers turn it into an oracle failure with `unreadable_files`."""

    def __init__(self, exc):
        super().__init__()
        mod = type(exc).__module__
        self.cls = type(exc).__name__ if mod in ('builtins', None) else '%s.%s' % (mod, type(exc).__name__)
        self.msg = str(exc)


def read_file(path):
    from prometheus_client.mmap_dict import MmapedDict
    try:
        return [(k, v, t) for k, v, t, _ in MmapedDict.read_all_values_from_file(path)]
    except FileNotFoundError:
        raise
    except Exception as e:  # noqa  -- the library's reader failed on a file of the multiprocess directory
        return Unreadable(e)


def unreadable_files(snap):
    """[(basename, exception class, message)] for the files of a snapshot the library's reader could not read"""
    return [(bn, v.cls, v.msg) for bn, v in sorted(snap.items()) if isinstance(v, Unreadable)]


def raw_snapshot(d):
    """basename -> raw bytes of every *.db file (size and content, including the unused tail)"""
    out = {}
    for p in listing(d):
        try:
            with open(p, 'rb') as f:
                out[os.path.basename(p)] = f.read()
        except FileNotFoundError:
            pass
    return out


def collect(d):
    from prometheus_client.multiprocess import MultiProcessCollector
    from prometheus_client.registry import CollectorRegistry
    out = []
    for m in MultiProcessCollector(CollectorRegistry(), d).collect():
        out.append((m.name, m.documentation, m.type, [(s.name, dict(s.labels), s.value) for s in m.samples]))
    return out


# ------------------------------------------------------------------------------------------------ racing collection
def fams_of(metrics):
    return [(m.name, m.documentation, m.type, [(s.name, dict(s.labels), s.value) for s in m.samples]) for m in metrics]


RACE_PLACES = ('first', 'last', 'middle', 'spread', 'rev', 'keep')      # + 'shuffle:<seed>'


def race_order(paths, doomed, place):
    """The order in which a racing collection meets the listed files (a directory listing has no pinned order).
    `doomed`: basenames that will vanish right after the listing.  'keep' = as the OS listed them; every other place
    is a function of the sorted basenames: doomed files first / last / together in the middle / spread from the first to
    the last position with other files between and after them / reverse sorted / seeded shuffle."""
    if place == 'keep':
        return list(paths)
    base = sorted(paths, key=os.path.basename)
    dm = [p for p in base if os.path.basename(p) in doomed]
    rest = [p for p in base if os.path.basename(p) not in doomed]
    if place == 'first':
        return dm + rest
    if place == 'last':
        return rest + dm
    if place == 'middle':
        h = len(rest) // 2
        return rest[:h] + dm + rest[h:]
    if place == 'spread':
        out = list(rest)
        n = len(dm)
        for j, p in enumerate(dm):
            at = 0 if n == 1 else (j * len(rest)) // (n - 1)
            out.insert(at + j, p)
        return out
    if place == 'rev':
        return base[::-1]
    if place.startswith('shuffle:'):
        import random
        random.Random(int(place[8:])).shuffle(base)
        return base
    raise lib.Infra('bad race place %r' % (place,))


class _RacingGlob:
    """stands in for the `glob` module inside prometheus_client.multiprocess: the FIRST listing made through it (the
    collector's) is handed to `race` (which reorders it and lets the rest of the world act before the reads start);
    every later call — mark_process_dead's own globs — goes to the real module"""

    def __init__(self, real, race):
        self._real, self._race, self.fired = real, race, False

    def glob(self, pathname, *a, **kw):
        listing = self._real.glob(pathname, *a, **kw)
        if self.fired:
            return listing
        self.fired = True
        return self._race(listing)

    def iglob(self, pathname, *a, **kw):
        if self.fired:
            return self._real.iglob(pathname, *a, **kw)
        return iter(self.glob(pathname, *a, **kw))

    def __getattr__(self, name):
        return getattr(self._real, name)


class KeptCollector:
    """ONE MultiProcessCollector object for a whole scenario — a server registers its collector once and every scrape
    goes through that object; whatever it keeps between two collections is part of what is observed"""

    def __init__(self, d):
        from prometheus_client.multiprocess import MultiProcessCollector
        from prometheus_client.registry import CollectorRegistry
        self.obj = MultiProcessCollector(CollectorRegistry(), d)

    def collect(self):
        return fams_of(self.obj.collect())


def collect_racing(d, reorder, between, via='glob', collector=None):
    """A collection that RACES with the rest of the world: the collector lists the directory, `reorder(listing)` fixes
    the order it meets the files in, `between(listing)` runs (processes are reaped, mark_process_dead removes files),
    and only then are the listed files read.  -> (families, the listing the collector worked from, how)

    via='glob': the real `MultiProcessCollector(...).collect()`, with the `glob` name of prometheus_client.multiprocess
    replaced for one listing; if the collector does not list through that name (hook never fired) or via='merge': the
    public `MultiProcessCollector.merge(files)` on an explicit file list taken before `between` ran.
    `collector`: a KeptCollector to collect through (via='glob') instead of a fresh object."""
    import types
    from prometheus_client import multiprocess
    from prometheus_client.registry import CollectorRegistry
    state = {'listing': None}

    def race(ls):
        ls = list(reorder(list(ls)))
        state['listing'] = ls
        between(list(ls))
        return list(ls)

    if via == 'glob':
        old = multiprocess.__dict__.get('glob')
        hook = None
        if isinstance(old, types.ModuleType):
            hook = _RacingGlob(old, race)
        elif callable(old):         # `from glob import glob`
            box = {'fired': False}

            def hook(pathname, *a, **kw):
                ls = old(pathname, *a, **kw)
                if box['fired']:
                    return ls
                box['fired'] = True
                return race(ls)
        if hook is not None:
            multiprocess.glob = hook
            try:
                obj = collector.obj if collector is not None else multiprocess.MultiProcessCollector(CollectorRegistry(), d)
                fams = fams_of(obj.collect())
            finally:
                multiprocess.glob = old
            if state['listing'] is not None:
                return fams, state['listing'], 'glob'
    ls = race(listing(d))
    return fams_of(multiprocess.MultiProcessCollector.merge(ls, accumulate=True)), ls, 'merge'


def snapshot(d):
    """basename -> ordered [(key_json, value, ts)] for every *.db file (an `Unreadable` list where the reader raised)"""
    out = {}
    for p in listing(d):
        try:
            out[os.path.basename(p)] = read_file(p)
        except FileNotFoundError:
            pass
    return out


# ------------------------------------------------------------------------------------------------ canonical families
def canon_fams(fams):
    """[(name, doc, typ, [(sname, labels, value)])] -> ({name: (doc, typ, {(sname, labelstuple): value})}, [duplicates])
    labels may be a dict or a list of pairs"""
    out = {}
    dups = []
    for name, doc, typ, samples in fams:
        if name in out:
            dups.append('family %r listed twice' % name)
            continue
        ss = {}
        for sname, labels, value in samples:
            items = labels.items() if isinstance(labels, dict) else labels
            k = (sname, tuple(sorted((a, b) for a, b in items)))
            if k in ss:
                dups.append('series %s%r listed twice (values %r, %r)' % (sname, dict(k[1]), ss[k], value))
            else:
                ss[k] = value
        out[name] = (doc, typ, ss)
    return out, dups


def diff_canon(a, b, na='real', nb='model'):
    """None when the canonical family dicts agree, else a short description of the first difference"""
    if set(a) != set(b):
        return 'families differ: only %s %s, only %s %s' % (na, sorted(set(a) - set(b)), nb, sorted(set(b) - set(a)))
    for name in sorted(a):
        da, ta, sa = a[name]
        db, tb, sb = b[name]
        if da != db:
            return 'family %s: help %s=%r %s=%r' % (name, na, da, nb, db)
        if ta != tb:
            return 'family %s: type %s=%r %s=%r' % (name, na, ta, nb, tb)
        if set(sa) != set(sb):
            return 'family %s: series only %s %s, only %s %s' % (name, na, sorted(set(sa) - set(sb)), nb,
                                                               sorted(set(sb) - set(sa)))
        for k in sa:
            if not feq(sa[k], sb[k]):
                return 'family %s series %s%r: %s=%r %s=%r' % (name, k[0], dict(k[1]), na, sa[k], nb, sb[k])
    return None


def fams_fingerprint(canon):
    return repr(sorted((n, d, t, sorted((k, repr(v + 0.0)) for k, v in ss.items())) for n, (d, t, ss) in canon.items()))


# ------------------------------------------------------------------------------------------------ wire: requests
_KEY_CACHE = {}


class CorruptKey:
    """a key read from a store file THE LIBRARY WROTE that is not the canonical JSON text of [str, str, {str: str}, str]:
    an observation about the real code (reported by the oracles as `…:store-file-corrupt`), never an Infra error"""

    def __init__(self, raw):
        self.raw = raw

    def __repr__(self):
        return 'CorruptKey(%r)' % (self.raw,)


def parse_key(key):
    """json round trip (trusted for well-formed keys), validated on every distinct key:
    -> (metric, name, sorted label pairs, help) | CorruptKey"""
    hit = _KEY_CACHE.get(key)
    if hit is not None:
        return hit
    r = _parse_key(key)
    if len(_KEY_CACHE) < 200000:
        _KEY_CACHE[key] = r
    return r


def _parse_key(key):
    try:
        metric, name, labels, help_text = json.loads(key)
        ok = (isinstance(metric, str) and isinstance(name, str) and isinstance(help_text, str) and isinstance(labels, dict)
              and all(isinstance(k, str) and isinstance(v, str) for k, v in labels.items())
              and json.dumps([metric, name, labels, help_text], sort_keys=True) == key)
    except Exception:
        ok = False
    if not ok:
        return CorruptKey(key)
    return metric, name, sorted(labels.items()), help_text


def corrupt_keys(snap):
    """[(basename, entry index, raw key text)] for the entries of a snapshot whose key does not decode"""
    out = []
    for bn, entries in sorted(snap.items()):
        if isinstance(entries, Unreadable):
            continue
        for j, e in enumerate(entries):
            if isinstance(parse_key(e[0]), CorruptKey):
                out.append((bn, j, e[0]))
    return out


def key_tokens(metric, name, pairs, help_text):
    toks = [lib.hx(metric), lib.hx(name), str(len(pairs))]
    for k, v in pairs:
        toks += [lib.hx(k), lib.hx(v)]
    toks.append(lib.hx(help_text))
    return toks


def merge_request(files):
    """files: [(basename, typ, mode, pidtext, [(key_json, value, ts)])] in listing order"""
    bounds = {}
    ftoks = [str(len(files))]
    for bn, typ, mode, pid, entries in files:
        ftoks += [lib.hx(bn), lib.hx(typ), lib.hx(mode), lib.hx(str(pid)), str(len(entries))]
        for key, value, ts in entries:
            parsed = parse_key(key)
            if isinstance(parsed, CorruptKey):
                return None     # not encodable for the driver: the caller reports the corrupt file and skips the comparison
            metric, name, pairs, help_text = parsed
            for k, v in pairs:
                if k == 'le':
                    try:
                        x = float(v)
                        bounds[lib.bits_of(x)] = repr(x)
                    except ValueError:
                        pass
            ftoks += key_tokens(metric, name, pairs, help_text) + [lib.fbits(value), lib.fbits(ts)]
    rtoks = [str(len(bounds))]
    for b in sorted(bounds):
        rtoks += [str(b), lib.hx(bounds[b])]
    return ' '.join(['c08', 'merge'] + rtoks + ftoks)


def dead_request(pid, basenames):
    return ' '.join(['c08', 'dead', lib.hx(str(pid)), str(len(basenames))] + [lib.hx(b) for b in basenames])


def hist_request(initial_pid, ops):
    toks = ['c08', 'hist', lib.hx(str(initial_pid)), str(len(ops))]
    for op in ops:
        if op[0] == 'C':
            _, typ, metric, name, lns, lvs, help_text, mode = op
            toks += ['C', lib.hx(typ), lib.hx(metric), lib.hx(name), str(len(lns))] + [lib.hx(x) for x in lns]
            toks += [str(len(lvs))] + [lib.hx(x) for x in lvs] + [lib.hx(help_text), lib.hx(mode)]
        elif op[0] == 'I':
            toks += ['I', str(op[1]), lib.fbits(op[2])]
        elif op[0] == 'S':
            toks += ['S', str(op[1]), lib.fbits(op[2]), 'N' if op[3] is None else lib.fbits(op[3])]
        elif op[0] == 'G':
            toks += ['G', str(op[1])]
        elif op[0] in ('P', 'W', 'D'):
            toks += [op[0], lib.hx(op[1])]
        else:
            raise lib.Infra('bad value-level op %r' % (op,))
    return ' '.join(toks)


# ------------------------------------------------------------------------------------------------ wire: replies
class Toks:
    def __init__(self, toks):
        self.t = toks
        self.i = 0

    def peek(self):
        return self.t[self.i] if self.i < len(self.t) else None

    def next(self):
        x = self.t[self.i]
        self.i += 1
        return x

    def nat(self):
        return int(self.next())

    def text(self):
        return lib.unhx(self.next())

    def flt(self):
        return lib.unfbits(self.next())

    def done(self):
        return self.i == len(self.t)


def _p_labels(tk):
    return [(tk.text(), tk.text()) for _ in range(tk.nat())]


def _p_fams(tk):
    fams = []
    for _ in range(tk.nat()):
        name, doc, typ = tk.text(), tk.text(), tk.text()
        samples = []
        for _ in range(tk.nat()):
            sname = tk.text()
            labels = _p_labels(tk)
            samples.append((sname, labels, tk.flt()))
        fams.append((name, doc, typ, samples))
    return fams


def parse_merge_reply(line):
    """-> ('ok', model_fams, spec_fams) | ('err', class)"""
    toks = line.split(' ')
    if toks[0] == 'err':
        return ('err', toks[1] if len(toks) > 1 else '?')
    if toks[0] != 'ok':
        raise lib.Infra('bad merge reply %r' % line[:200])
    tk = Toks(toks[1:])
    m = _p_fams(tk)
    if tk.next() != '|':
        raise lib.Infra('bad merge reply (no separator) %r' % line[:200])
    s = _p_fams(tk)
    if not tk.done():
        raise lib.Infra('bad merge reply (trailing tokens) %r' % line[:200])
    return ('ok', m, s)


def parse_dead_reply(line):
    toks = line.split(' ')
    if toks[0] != 'ok':
        return None
    tk = Toks(toks[1:])
    return [tk.text() for _ in range(tk.nat())]


def parse_hist_reply(line):
    """-> list of (get result | None, {file name: [((metric, name, labelpairs, help), value, ts)]}) or None on err"""
    toks = line.split(' ')
    if toks[0] != 'ok':
        return None
    tk = Toks(toks[1:])
    steps = []
    for _ in range(tk.nat()):
        g = None
        if tk.peek() == '-':
            tk.next()
        else:
            g = tk.flt()
        disk = {}
        for _ in range(tk.nat()):
            fn = tk.text()
            entries = []
            for _ in range(tk.nat()):
                metric, name = tk.text(), tk.text()
                pairs = _p_labels(tk)
                help_text = tk.text()
                entries.append(((metric, name, tuple(pairs), help_text), tk.flt(), tk.flt()))
            disk[fn] = entries
        steps.append((g, disk))
    if not tk.done():
        raise lib.Infra('bad hist reply (trailing tokens)')
    return steps


def canon_snapshot(snap):
    """{basename: [(key_json, v, ts)]} -> {basename: [((metric, name, labelpairs, help), v, ts)]} (order kept)"""
    out = {}
    for bn, entries in snap.items():
        es = []
        for key, v, ts in entries:
            parsed = parse_key(key)
            if isinstance(parsed, CorruptKey):
                es.append((('?corrupt-key', key, (), ''), v, ts))
                continue
            metric, name, pairs, help_text = parsed
            es.append(((metric, name, tuple(pairs), help_text), v, ts))
        out[bn] = es
    return out


def diff_disk(real, model):
    """None when the per-file ordered contents agree (numeric equality on value and set-time)"""
    if set(real) != set(model):
        return 'files differ: only real %s, only model %s' % (sorted(set(real) - set(model)), sorted(set(model) - set(real)))
    for fn in sorted(real):
        a, b = real[fn], model[fn]
        if len(a) != len(b):
            return 'file %s: real has %d entries, model %d' % (fn, len(a), len(b))
        for i, (x, y) in enumerate(zip(a, b)):
            if x[0] != y[0]:
                return 'file %s entry %d: key real %r model %r' % (fn, i, x[0], y[0])
            if not feq(x[1], y[1]) or not feq(x[2], y[2]):
                return 'file %s entry %d %r: real (%r, %r) model (%r, %r)' % (fn, i, x[0][:3], x[1], x[2], y[1], y[2])
    return None


# ------------------------------------------------------------------------------------------------ driver access
def driver_run(ctx, lines, tries=60, pause=2.0):
    """ctx.driver.run, tolerant of the binary being re-linked by a concurrent build in the shared tree (the build lock
    is held while building, not while a check runs): wait for it to come back instead of crashing"""
    err = None
    for _ in range(tries):
        try:
            return ctx.driver.run(lines)
        except (FileNotFoundError, PermissionError, OSError) as e:
            err = e
            _real_time.sleep(pause)
    raise lib.Infra('model driver not runnable: %s' % err)


# ------------------------------------------------------------------------------------------------ real fork helper
# Runs in a SUBPROCESS (the harness process itself never raw-forks).  argv: repo path, JSON parameters
# {"order": ["os" | "raw", ...], "a0", "v0", "incs": [...], "sets": [...], "a_end", "v_end"} (floats as u64 bit patterns).
# Uses the library's DEFAULT value class (MultiProcessValue() on os.getpid, chosen because PROMETHEUS_MULTIPROC_DIR is
# set), forks once per entry of "order" — os.fork() or the raw libc fork() through ctypes, which does not run CPython's
# at-fork hooks — and prints one JSON document: a snapshot (sha256 + size of the raw bytes, parsed entries through the
# library's reader) before the forks, after each child and at the end, the pids, and the collector's output.
RAWFORK_HELPER = r'''
import sys, os, json, glob, struct, hashlib, signal
repo, params = sys.argv[1], json.loads(sys.argv[2])
sys.path.insert(0, repo)
signal.alarm(8)
def fb(n): return struct.unpack('<d', struct.pack('<Q', n))[0]
def bits(x):
    x = float(x)
    return 0x7ff8000000000000 if x != x else struct.unpack('<Q', struct.pack('<d', x))[0]
from prometheus_client import Counter, Gauge, values
from prometheus_client.mmap_dict import MmapedDict
from prometheus_client.multiprocess import MultiProcessCollector
from prometheus_client.registry import CollectorRegistry
d = os.environ['PROMETHEUS_MULTIPROC_DIR']
def snap():
    out = {}
    for p in sorted(glob.glob(os.path.join(d, '*.db'))):
        raw = open(p, 'rb').read()
        out[os.path.basename(p)] = {'sha': hashlib.sha256(raw).hexdigest(), 'size': len(raw),
                                    'entries': [[k, bits(v), bits(t)] for k, v, t, _ in MmapedDict.read_all_values_from_file(p)]}
    return out
doc = {'parent': os.getpid(), 'multiprocess': bool(getattr(values.ValueClass, '_multiprocess', False)), 'children': []}
c = Counter('c', 'h', registry=None)
g = Gauge('g', 'h', registry=None, multiprocess_mode='all')
c.inc(fb(params['a0'])); g.set(fb(params['v0']))
doc['before'] = snap()
for j, kind in enumerate(params['order']):
    if kind == 'raw':
        import ctypes
        libc = ctypes.CDLL(None)
        if not hasattr(libc, 'fork'):
            doc['children'].append({'kind': kind, 'unavailable': True})
            continue
    r, w = os.pipe()
    sys.stdout.flush(); sys.stderr.flush()
    pid = os.fork() if kind == 'os' else libc.fork()
    if pid == 0:
        code = 3
        try:
            signal.alarm(5)
            os.write(w, str(os.getpid()).encode())
            c.inc(fb(params['incs'][j])); g.set(fb(params['sets'][j]))
            code = 0
        finally:
            os._exit(code)
    os.close(w)
    reported = os.read(r, 64).decode()
    os.close(r)
    _, status = os.waitpid(pid, 0)
    doc['children'].append({'kind': kind, 'fork_returned': pid, 'reported': int(reported) if reported else None,
                            'status': os.waitstatus_to_exitcode(status), 'after': snap()})
c.inc(fb(params['a_end'])); g.set(fb(params['v_end']))
doc['end'] = snap()
doc['collected'] = [[m.name, [[s.name, sorted(s.labels.items()), bits(s.value)] for s in m.samples]]
                    for m in MultiProcessCollector(CollectorRegistry(), d).collect()]
print(json.dumps(doc))
'''


def run_rawfork_helper(params, timeout=10.0):
    """-> (status, doc | None, stderr tail); status: 'ok' | 'exit <rc>' | 'timeout' | 'bad-output'.
    Raises lib.Infra only when python itself cannot be started."""
    import signal
    import subprocess
    import sys
    d = tempfile.mkdtemp(prefix='pv-rawfork-')
    env = dict(os.environ, PROMETHEUS_MULTIPROC_DIR=d)
    env.pop('prometheus_multiproc_dir', None)
    try:
        try:
            p = subprocess.Popen([sys.executable, '-c', RAWFORK_HELPER, lib.REPO, json.dumps(params)], env=env,
                                 stdout=subprocess.PIPE, stderr=subprocess.PIPE, start_new_session=True)
        except OSError as e:
            raise lib.Infra('cannot start the fork helper: %s' % e)
        try:
            out, err = p.communicate(timeout=timeout)
        except subprocess.TimeoutExpired:
            try:
                os.killpg(p.pid, signal.SIGKILL)
            except OSError:
                pass
            out, err = p.communicate()
            return 'timeout', None, err.decode('utf-8', 'replace')[-600:]
        err = err.decode('utf-8', 'replace')[-600:]
        if p.returncode != 0:
            return 'exit %d' % p.returncode, None, err
        try:
            return 'ok', json.loads(out.decode('utf-8')), err
        except ValueError:
            return 'bad-output', None, (out.decode('utf-8', 'replace')[-300:] + ' | ' + err)
    finally:
        shutil.rmtree(d, ignore_errors=True)


# ------------------------------------------------------------------------------------------------ real fork TREE
class ForkTreeError(Exception):
    """a process of the tree did not answer (crashed, hung): an observation about the run, reported by the caller"""


class ForkTree:
    """A tree of REAL os.fork() processes rooted in the calling process ('P'), driven step by step over pipes.

    Every process of the tree is a fork of the caller (or of a fork of it, ...), so it inherits the caller's Python
    objects as they were at the moment of ITS fork — metric objects, the MultiProcessValue closure with its open
    MmapedDict handles — exactly what a pre-forking server's workers inherit.  The root coordinates: `call(name, x)`
    makes process `name` evaluate `handler(x)` (in that process, on its inherited state) and waits for the answer;
    `fork(parent, name)` makes `parent` fork; `exit(name)` makes `name` leave through os._exit (no library call) and
    its parent reap it.  ONE process runs at any time, all others block reading their command pipe: an interleaving
    of the processes' operations is fixed by the order of the calls — by pipes, never by sleeps (the timeouts below
    are a guard against a crashed/hung process, they sequence nothing).  While a process other than the root runs,
    the root is idle inside `call`, so "snapshot the directory, call, snapshot again" observes exactly what that one
    process did.

    `names`: every non-root name that may be forked (the pipes must exist before the first fork so that every
    descendant inherits them).  A child never returns into the caller's code: it serves commands and os._exit()s."""

    ROOT = 'P'

    def __init__(self, names, handler, timeout=20.0):
        self.handler = handler
        self.timeout = timeout
        self.root_pid = os.getpid()
        self.pipes = {n: (os.pipe(), os.pipe()) for n in names}     # name -> ((cmd r, cmd w), (ack r, ack w))
        self.pids = {self.ROOT: self.root_pid}
        self.parent = {}
        self.alive = [self.ROOT]        # in creation order
        self._kids = {}                 # the root's own children: name -> pid

    # -- framing: one JSON document per line, strictly request / answer
    @staticmethod
    def _send(fd, obj):
        data = (json.dumps(obj) + '\n').encode('utf-8')
        while data:
            n = os.write(fd, data)
            data = data[n:]

    @staticmethod
    def _recv(fd, timeout):
        import select
        buf = b''
        while True:
            r, _, _ = select.select([fd], [], [], timeout)
            if not r:
                return None
            chunk = os.read(fd, 65536)
            if not chunk:
                return None
            buf += chunk
            if buf.endswith(b'\n'):
                return json.loads(buf.decode('utf-8'))

    def _serve(self, name):
        """body of every non-root process; never returns"""
        try:
            kids = {}
            while True:
                cmd = self._recv(self.pipes[name][0][0], 90.0)
                if cmd is None:
                    os._exit(5)         # orphaned
                op = cmd[0]
                if op == 'call':
                    try:
                        rep = {'ok': self.handler(cmd[1])}
                    except Exception as e:  # noqa
                        rep = {'exc': type(e).__name__, 'msg': str(e)[:300]}
                elif op == 'fork':
                    pid = os.fork()
                    if pid == 0:
                        name = cmd[1]
                        kids = {}
                        continue
                    kids[cmd[1]] = pid
                    rep = {'ok': pid}
                elif op == 'reap':
                    _, st = os.waitpid(kids.pop(cmd[1]), 0)
                    rep = {'ok': os.waitstatus_to_exitcode(st)}
                elif op == 'exit':
                    self._send(self.pipes[name][1][1], {'ok': 0})
                    os._exit(0)
                else:
                    rep = {'exc': 'Protocol', 'msg': repr(cmd)[:100]}
                self._send(self.pipes[name][1][1], rep)
        except BaseException:  # noqa
            pass
        finally:
            os._exit(3)

    def _rpc(self, name, msg):
        self._send(self.pipes[name][0][1], msg)
        rep = self._recv(self.pipes[name][1][0], self.timeout)
        if rep is None:
            raise ForkTreeError('process %s (real pid %s) did not answer %r within %.0f s (crashed or hung)' % (
                name, self.pids.get(name), msg[0], self.timeout))
        return rep

    # -- the root's API
    def call(self, name, payload):
        """-> {'ok': handler(payload)} | {'exc': class name, 'msg': text}, evaluated IN process `name`"""
        if name == self.ROOT:
            try:
                return {'ok': self.handler(payload)}
            except Exception as e:  # noqa
                return {'exc': type(e).__name__, 'msg': str(e)[:300]}
        return self._rpc(name, ['call', payload])

    def fork(self, parent, name):
        """`parent` forks a process called `name`; -> its real pid"""
        import sys
        if parent == self.ROOT:
            sys.stdout.flush()
            sys.stderr.flush()
            pid = os.fork()
            if pid == 0:
                self._serve(name)
            self._kids[name] = pid
        else:
            pid = self._rpc(parent, ['fork', name])['ok']
        self.pids[name] = pid
        self.parent[name] = parent
        self.alive.append(name)
        return pid

    def ancestors(self, name):
        out = []
        while name in self.parent:
            name = self.parent[name]
            out.append(name)
        return out

    def exit(self, name):
        """process `name` leaves through os._exit(0) and is reaped by its parent; -> exit code | None (parent gone)"""
        self._rpc(name, ['exit'])
        self.alive.remove(name)
        par = self.parent[name]
        if par == self.ROOT:
            _, st = os.waitpid(self._kids.pop(name), 0)
            return os.waitstatus_to_exitcode(st)
        if par in self.alive:
            return self._rpc(par, ['reap', name])['ok']
        return None

    def close(self):
        """end every process still alive (descendants first), kill what does not answer, close the pipes"""
        import signal
        if os.getpid() != self.root_pid:
            os._exit(3)
        for name in reversed(list(self.alive)):
            if name != self.ROOT:
                try:
                    self.exit(name)
                except Exception:  # noqa
                    pass
        for name in list(self.alive):
            if name != self.ROOT:
                try:
                    os.kill(self.pids[name], signal.SIGKILL)
                except OSError:
                    pass
        for pid in self._kids.values():
            try:
                os.kill(pid, signal.SIGKILL)
            except OSError:
                pass
            try:
                os.waitpid(pid, 0)
            except OSError:
                pass
        self._kids = {}
        self.alive = [self.ROOT]
        for (a, b), (c, d) in self.pipes.values():
            for fd in (a, b, c, d):
                try:
                    os.close(fd)
                except OSError:
                    pass
        self.pipes = {}
