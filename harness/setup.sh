#!/bin/sh
# MANIFEST.setup_cmd: regenerate Generated/ from /repo and build the driver and every property module from files on disk.
# Every check rebuilds what it needs itself, so a module that fails here is reported by its own check, not by the setup.
cd "$(dirname "$0")/.." || exit 2
/venv/bin/python extract/extract.py || exit 2
cd lean || exit 2
lake build pvdriver || echo "setup: pvdriver failed to build (each check reports this itself)"
for p in C01 C02 C03 C04 C05 C06 C07 C08 C09 C10 C11 C12 C13 C14 C15 C16 C17 C18 C19; do
  if [ -f "PromVerif/Props/$p.lean" ]; then
    lake build "PromVerif.Props.$p" > /tmp/pv-setup-$p.log 2>&1 && echo "setup: Props.$p ok" || { echo "setup: Props.$p FAILED"; tail -5 /tmp/pv-setup-$p.log; }
    rm -f /tmp/pv-setup-$p.log
  fi
done
exit 0
