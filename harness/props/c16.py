"""C16 — timing, in-progress and exception-counting wrappers are transparent and balanced.

Two families of cases, both run on the REAL code (prometheus_client from lib.REPO) and on the Lean model (driver
module `c16`):

exec   a call tree: callables generated with `exec` from random ArgSpecs, each with a stack of wrappers
       (time() on Summary / Histogram / Gauge, count_exceptions() default / one class / tuple, track_inprogress(); on a
       plain metric or a labelled child; as decorator or as context manager) and a scripted body (return a fresh object,
       raise an instance of any class of the hierarchy incl. KeyboardInterrupt / SystemExit / GeneratorExit, call other
       wrapped callables, recurse n deep); `context_managers.default_timer` is an iterator over a scripted list of
       readings that may stand still or step backwards.
       Oracle (independent of the model): returned object / raised exception `is` the body's; every nested call hands
       its caller the object its own body produced; per timed metric `_count` +1 per call entered and `_sum` up by
       the sum of max(exit reading - entry reading, 0) of each call's own readings; a timing gauge holds the duration of
       the last timed call; in-progress gauges: prior + number of active trackers while a body runs, prior value after
       the call; exception counters +1 per guarded call out of which an isinstance of the configured classes escapes.
sig    one generated callable (all parameter kinds, defaults that are opaque objects, annotations, docstring, plain /
       method / classmethod / staticmethod), wrapped by each kind of wrapper, called with every call shape derived from
       the ArgSpec that binds on the original and with shapes that do not.
       Oracle: inspect.signature(wrapped) == inspect.signature(orig), __name__, __doc__, __qualname__, __module__,
       __wrapped__, defaults / kw-defaults / annotations, parameter kinds of the generated `def` (modulo the known loss of
       `/`); original and wrapper bind every name to the identical object or both raise TypeError.
ambient every call of an `exec` tree (root and nested, each recursion level) and every block / decorated call / whole program
       of `tl` may carry `amb`: frames [kind, class] describing the CALLER's exception state at the moment of the call —
       inside `except` handling an instance of the class, inside `finally` while it propagates, inside the `__exit__` of a
       caller's context manager unwinding it, or after a handler that has completed ('past'); frames nest (a handler inside a
       handler, a completed handler inside a live one).  The classes are drawn from the pool, half of the time from the
       classes configured on the call's own count_exceptions wrappers (matching) and otherwise freely (matching or not).
       The oracle is the same one: what the caller is handling is not something that escapes the wrapped code.
Correspondence: outcome tag + exception id + metric deltas of `exec`; bind results of original, wrapper and the call
through the wrapper, the NameError of decorate(), and the text of the generated source, of `sig`.
"""
import inspect
import json
import sys

import lib

CLASSES = ['BaseException', 'Exception', 'ValueError', 'LookupError', 'KeyError', 'KeyboardInterrupt', 'SystemExit',
           'GeneratorExit']
CLS_NO = {n: i for i, n in enumerate(CLASSES)}
PYCLS = {n: getattr(__import__('builtins'), n) for n in CLASSES}
# Python 3.11+ exception groups.  isinstance() looks at the group object only; what the group CONTAINS must not matter.
HAVE_GROUPS = hasattr(__import__('builtins'), 'BaseExceptionGroup')
GROUP_CLASSES = []
if HAVE_GROUPS:
    class ValueGroup(ExceptionGroup, ValueError):   # noqa: F821 - a group that IS an instance of a leaf-like class
        pass
    GROUP_CLASSES = ['BaseExceptionGroup', 'ExceptionGroup', 'ValueGroup']
    PYCLS.update({'BaseExceptionGroup': BaseExceptionGroup, 'ExceptionGroup': ExceptionGroup, 'ValueGroup': ValueGroup})  # noqa: F821
    for _n in GROUP_CLASSES:
        CLS_NO[_n] = len(CLS_NO)


def make_leaves(spec):
    """leaves of a group: class name -> instance, {'g': group class, 'l': [leaves]} -> nested group"""
    out = []
    for x in spec:
        if isinstance(x, dict):
            out.append(PYCLS[x['g']]('nested', make_leaves(x['l'])))
        else:
            out.append(PYCLS[x]('leaf'))
    return out


def gen_group(rng, depth=0):
    """(class name, leaves) of an exception group; a BaseExceptionGroup needs a leaf outside Exception to stay one"""
    exc_leaves = ['Exception', 'ValueError', 'LookupError', 'KeyError']
    base_leaves = ['KeyboardInterrupt', 'SystemExit', 'GeneratorExit', 'BaseException']
    cls = rng.choice(GROUP_CLASSES)
    leaves = [rng.choice(exc_leaves) for _ in range(rng.randint(1, 3))]
    if depth < 2 and rng.random() < 0.35:
        leaves.append({'g': 'ExceptionGroup', 'l': [rng.choice(exc_leaves) for _ in range(rng.randint(1, 2))]})
    if cls == 'BaseExceptionGroup':
        leaves.insert(rng.randint(0, len(leaves)), rng.choice(base_leaves))
        if depth < 2 and rng.random() < 0.3:
            leaves.append({'g': 'BaseExceptionGroup', 'l': ['KeyboardInterrupt', rng.choice(exc_leaves)]})
    rng.shuffle(leaves)
    return cls, leaves


# ------------------------------------------------------------------------------------------------ ambient exception state
AMB_KINDS = ['except', 'finally', 'exit', 'past']


def amb_instance(cls):
    if cls in GROUP_CLASSES:
        return PYCLS[cls]('ambient', [KeyboardInterrupt('leaf') if cls == 'BaseExceptionGroup' else ValueError('leaf')])
    return PYCLS[cls]('ambient')


class _AmbientExit:
    """a context manager of the CALLER whose __exit__ runs the rest while the exception unwinds through it"""

    def __init__(self, frames, thunk):
        self.frames, self.thunk, self.box = frames, thunk, []

    def __enter__(self):
        return self

    def __exit__(self, typ, value, tb):
        self.box.append(in_ambient(self.frames, self.thunk))
        return True


def in_ambient(frames, thunk):
    """run thunk() while the interpreter's exception state is the one the frames describe (outermost first); the result is
    ('r', value) | ('x', exception) of thunk itself — the ambient exceptions never reach the caller of in_ambient"""
    if not frames:
        try:
            return ('r', thunk())
        except BaseException as e:
            return ('x', e)
    kind, cls = frames[0]
    amb = amb_instance(cls)
    if kind == 'except':                  # the caller is handling amb
        try:
            raise amb
        except BaseException:
            return in_ambient(frames[1:], thunk)
    if kind == 'finally':                 # amb is propagating through a finally clause of the caller
        box = []
        try:
            try:
                raise amb
            finally:
                box.append(in_ambient(frames[1:], thunk))
        except BaseException as e:
            if e is not amb:
                raise
        return box[0]
    if kind == 'exit':                    # amb is unwinding through a with-block of the caller
        cm = _AmbientExit(frames[1:], thunk)
        with cm:
            raise amb
        return cm.box[0]
    try:                                  # 'past': a handler that has completed; the state is the enclosing one again
        raise amb
    except BaseException:
        pass
    return in_ambient(frames[1:], thunk)


def gen_ambient(rng, configured=()):
    frames = []
    for _ in range(rng.choice([1, 1, 1, 2, 2, 3])):
        pool = list(configured) if configured and rng.random() < 0.5 else CLASSES + GROUP_CLASSES
        frames.append([rng.choice(['except', 'except'] + AMB_KINDS), rng.choice(pool)])
    return frames


def amb_text(frames):
    return ' > '.join('%s %s' % (k, c) for k, c in frames)


def amb_live(frames):
    """classes of the exceptions that are current (being handled / propagating) at the moment of the call, innermost first"""
    return [c for k, c in reversed(frames) if k != 'past']


OBS_KEYS = ['S0', 'S1', 'H0', 'H1']      # observe-timed metrics: summary plain / child, histogram plain / child
GAUGE_KEYS = ['G0', 'G1', 'P0', 'P1']    # gauges: timing (set) plain / child, in-progress plain / child
CNT_KEYS = ['K0', 'K1']                  # exception counters plain / child

SIG_CLASH = 'C16:posonly-kw-name-clash'
SIG_POSKW = 'C16:posonly-passed-by-keyword-accepted'
SIG_SHADOW = 'C16:kwonly-shadows-_call_/_func_'
SIG_LAMBDA = 'C16:lambda-renamed'
SIG_FUNC = 'C16:keyword-named-func'
SIG_MARKER = 'C16:posonly-marker-lost'
SIG_NONFUNC = 'C16:non-function-callable-refused'


# signatures of recorded findings (their witnesses must not stop the exploration early); SIG_FUNC was repaired in
# /repo 85bde09 and is an ordinary failure class
KNOWN_SHAPES = (SIG_CLASH, SIG_POSKW, SIG_SHADOW, SIG_LAMBDA, SIG_MARKER, SIG_NONFUNC)


def report(ctx, sig, what, case):
    """record an oracle failure; at most 4 witnesses per signature are kept, the rest only counted"""
    ctx.count('oracle-failure:' + sig)
    seen = ctx.extra.setdefault('oracle_failures_by_signature', {})
    seen[sig] = seen.get(sig, 0) + 1
    if seen[sig] <= 4:
        ctx.fail(sig, what, case)


class Obj:
    """an opaque object with an identity; its repr is not Python source"""
    __slots__ = ('i',)

    def __init__(self, i):
        self.i = i

    def __repr__(self):
        return '<<obj %d>>' % self.i


# ================================================================================================ real metrics
class World:
    """fresh real metrics for one case"""

    def __init__(self, prior):
        from prometheus_client import Counter, Gauge, Histogram, Summary
        s0 = Summary('s0', 'd', registry=None)
        s1p = Summary('s1', 'd', ['l'], registry=None)
        h0 = Histogram('h0', 'd', registry=None)
        h1p = Histogram('h1', 'd', ['l'], registry=None)
        g0 = Gauge('g0', 'd', registry=None)
        g1p = Gauge('g1', 'd', ['l'], registry=None)
        p0 = Gauge('p0', 'd', registry=None)
        p1p = Gauge('p1', 'd', ['l', 'm'], registry=None)
        k0 = Counter('k0', 'd', registry=None)
        k1p = Counter('k1', 'd', ['l'], registry=None)
        self.m = {'S0': s0, 'S1': s1p.labels('x'), 'H0': h0, 'H1': h1p.labels(l='y'), 'G0': g0, 'G1': g1p.labels('z'),
                  'P0': p0, 'P1': p1p.labels('a', 'b'), 'K0': k0, 'K1': k1p.labels('c')}
        self.parents = {'S': s1p, 'G': g1p, 'K': k1p}
        for k in GAUGE_KEYS:
            self.m[k].set(prior.get(k, 0))
        for k in CNT_KEYS:
            self.m[k].inc(prior.get(k, 0))
        for k in OBS_KEYS:
            for _ in range(prior.get(k, 0)):
                self.m[k].observe(1.5)

    def read(self):
        out = {}
        for k in OBS_KEYS:
            ss = {s.name: s.value for s in self.m[k]._child_samples()}
            out[k] = (ss['_count'], ss['_sum'])
        for k in GAUGE_KEYS:
            out[k] = self.m[k]._child_samples()[0].value
        for k in CNT_KEYS:
            out[k] = [s.value for s in self.m[k]._child_samples() if s.name == '_total'][0]
        return out


class FakeTimer:
    def __init__(self, script, events):
        self.rest = list(script)
        self.last = 0
        self.events = events

    def __call__(self):
        if self.rest:
            self.last = self.rest.pop(0)
        self.events.append(('clock', self.last))
        return self.last


# ================================================================================================ generated callables
def spec_source(spec):
    """source of the generated function; defaults are `_d[i]`, kw-defaults `_kd['k']` evaluated at def time"""
    P = spec['posonly'] + spec['pos']
    nd = spec['ndefaults']
    ann = spec.get('ann', {})
    parts = []

    def a(n):
        return n + (': %r' % ann[n] if n in ann else '')
    for i, n in enumerate(P):
        s = a(n)
        if i >= len(P) - nd:
            s += (' = ' if n in ann else '=') + '_d[%d]' % (i - (len(P) - nd))
        parts.append(s)
        if spec['posonly'] and i == len(spec['posonly']) - 1:
            parts.append('/')
    if spec['varargs']:
        parts.append('*' + a(spec['varargs']))
    elif spec['kwonly']:
        parts.append('*')
    for k in spec['kwonly']:
        s = a(k)
        if k in spec['kwdefaults']:
            s += (' = ' if k in ann else '=') + '_kd[%r]' % k
        parts.append(s)
    if spec['varkw']:
        parts.append('**' + a(spec['varkw']))
    ret = ' -> %r' % ann['return'] if 'return' in ann else ''
    names = P + spec['kwonly']
    body = '_body([%s], %s, %s)' % (', '.join('(%r, %s)' % (n, n) for n in names), spec['varargs'] or '()', spec['varkw'] or '{}')
    if spec['name'] == '<lambda>':
        return 'lambda %s: %s' % (', '.join(parts), body), True
    doc = '    %r\n' % spec['doc'] if spec.get('doc') is not None else ''
    return 'def %s(%s)%s:\n%s    return %s\n' % (spec['name'], ', '.join(parts), ret, doc, body), False


def make_function(spec, body):
    P = spec['posonly'] + spec['pos']
    d = [Obj(1000 + i) for i in range(spec['ndefaults'])]
    kd = {k: Obj(2000 + j) for j, k in enumerate(spec['kwonly']) if k in spec['kwdefaults']}
    ns = {'_d': d, '_kd': kd, '_body': body, '__name__': 'c16_generated'}
    src, is_lambda = spec_source(spec)
    if is_lambda:
        f = eval(src, ns)
    else:
        exec(src, ns)
        f = ns[spec['name']]
    if spec.get('attrs'):
        f.marker = 'attr'
    return f, d, kd


def spec_field(spec):
    P = spec['posonly'] + spec['pos']
    return '|'.join([spec['name'], ','.join(spec['posonly']), ','.join(spec['pos']),
                     ','.join(str(1000 + i) for i in range(spec['ndefaults'])), spec['varargs'] or '-',
                     ','.join(spec['kwonly']),
                     ','.join('%s=%d' % (k, 2000 + j) for j, k in enumerate(spec['kwonly']) if k in spec['kwdefaults']),
                     spec['varkw'] or '-'])


# docstrings: None, one line, and texts that are NOT in inspect.cleandoc form (indented continuation lines, leading /
# trailing blank lines, tabs, whitespace only, empty) - __doc__ must come through character for character
DOCS = [None, None, 'doc string', 'multi\nline "doc"',
        'Summary line.\n\n        Indented with the code,\n            deeper here.\n        ',
        '\n    Leading blank line.\n    Body.\n    ', 'Trailing blank lines.\n\n\n', '\tTab first.\n\tTab again.\n\t\tTwo tabs.',
        '   leading spaces on the first line', '    \n   ', ' ', '', 'line\r\n    crlf indented\r\n']

NAMES = ['a', 'b', 'c', 'd', 'e', 'f', 'g', 'h', 'x', 'y', 'self_', 'max', 'print', 'func', 'args_', 'kwargs_', 'wrapped', 'f_']


def gen_spec(rng, rich=True):
    pool = [n for n in NAMES if rich or n != 'func']
    rng.shuffle(pool)
    npo = rng.choice([0, 0, 1, 2]) if rich else rng.choice([0, 0, 0, 1])
    npos = rng.choice([0, 1, 2, 3]) if rich else rng.choice([0, 1, 2])
    nkw = rng.choice([0, 0, 1, 2]) if rich else rng.choice([0, 0, 1])
    posonly = [pool.pop() for _ in range(npo)]
    pos = [pool.pop() for _ in range(npos)]
    kwonly = [pool.pop() for _ in range(nkw)]
    mkind = rng.choice(['function'] * 5 + ['method', 'classmethod', 'staticmethod']) if rich else 'function'
    if mkind in ('method', 'classmethod'):
        recv = 'self' if mkind == 'method' else 'cls'
        if posonly:
            posonly.insert(0, recv)
        else:
            pos.insert(0, recv)
    total = len(posonly) + len(pos)
    maxd = total - (1 if mkind in ('method', 'classmethod') else 0)
    nd = rng.randint(0, maxd) if rng.random() < 0.7 else 0
    varargs = rng.choice([None, None, 'args', 'rest'])
    varkw = rng.choice([None, None, 'kw', 'kwargs'])
    kwdefaults = [k for k in kwonly if rng.random() < 0.5]
    ann = {}
    if rich and rng.random() < 0.4:
        for n in posonly + pos + kwonly + [x for x in (varargs, varkw) if x]:
            if rng.random() < 0.5:
                ann[n] = rng.choice(['int', 'List[str]', "Dict['a', b]", 'not python ('])
        if rng.random() < 0.5:
            ann['return'] = rng.choice(['R', 'Optional[int]'])
    return {'name': rng.choice(['fn', 'handler', 'f', 'process_request', 'x', 'a']), 'posonly': posonly, 'pos': pos,
            'ndefaults': nd, 'varargs': varargs, 'kwonly': kwonly, 'kwdefaults': kwdefaults, 'varkw': varkw,
            'ann': ann, 'doc': rng.choice(DOCS), 'mkind': mkind,
            'attrs': rng.random() < 0.3}


def own_params(spec):
    """positional parameters the caller supplies (the receiver of a method is supplied by the descriptor)"""
    skip = 1 if spec['mkind'] in ('method', 'classmethod') else 0
    P = spec['posonly'] + spec['pos']
    return P[skip:], max(len(spec['posonly']) - skip, 0)


def gen_calls(rng, spec, n_valid=8, n_invalid=4, clash=True):
    """call shapes (positional ids, [(name, id)]) derived from the ArgSpec: binding ones and near misses"""
    P, npo = own_params(spec)
    nreq = len(spec['posonly'] + spec['pos']) - spec['ndefaults'] - (len(spec['posonly'] + spec['pos']) - len(P))
    nreq = max(nreq, 0)
    calls = []
    counter = [0]

    def fresh():
        counter[0] += 1
        return counter[0]

    def binding():
        hi = len(P) + (2 if spec['varargs'] else 0)
        npos = rng.randint(0, hi) if rng.random() < 0.7 else min(len(P), hi)
        npos = max(npos, min(npo, nreq))     # required positional-only must come positionally
        pos = [fresh() for _ in range(npos)]
        kw = []
        for i in range(npos, len(P)):
            if i < npo:
                continue    # defaulted positional-only: left to its default
            if i < nreq or rng.random() < 0.5:
                kw.append((P[i], fresh()))
        for k in spec['kwonly']:
            if k not in spec['kwdefaults'] or rng.random() < 0.5:
                kw.append((k, fresh()))
        if spec['varkw']:
            for _ in range(rng.choice([0, 0, 1, 2])):
                cand = rng.choice(['zz', 'extra', 'q'] + (spec['posonly'][-1:] + spec['posonly'][:1] + ['func'] if clash else []))
                if cand not in [k for k, _ in kw] and cand not in spec['pos'] + spec['kwonly']:
                    kw.append((cand, fresh()))
        rng.shuffle(kw)
        return pos, kw
    for _ in range(n_valid):
        calls.append(binding())
    for _ in range(n_invalid):
        pos, kw = binding()
        m = rng.randrange(6)
        if m == 0 and (pos or kw):      # drop something (maybe required)
            if kw and rng.random() < 0.5:
                kw.pop(rng.randrange(len(kw)))
            elif pos:
                pos.pop()
        elif m == 1:                    # unexpected keyword
            kw.append(('nope', fresh()))
        elif m == 2 and pos and P:      # a parameter both positionally and by keyword
            i = rng.randrange(min(len(pos), len(P)))
            if P[i] not in [k for k, _ in kw]:
                kw.append((P[i], fresh()))
        elif m == 3:                    # too many positionals
            pos = pos + [fresh() for _ in range(len(P) + 1)]
        elif m == 4 and spec['posonly'] and npo:   # positional-only by keyword instead of positionally
            n = P[npo - 1]
            pos = pos[:npo - 1]
            if n not in [k for k, _ in kw]:
                kw.append((n, fresh()))
        else:
            pos, kw = [], []
        calls.append((pos, kw))
    return calls


# ================================================================================================ sig cases
WRAPPER_KINDS = ['time-summary', 'time-histogram', 'time-gauge', 'count-default', 'count-class', 'count-tuple', 'inprogress',
                 'time-summary-child', 'count-child', 'inprogress-child']


def make_wrapper(world, kind):
    m = world.m
    return {'time-summary': lambda: m['S0'].time(), 'time-histogram': lambda: m['H0'].time(),
            'time-gauge': lambda: m['G0'].time(), 'count-default': lambda: m['K0'].count_exceptions(),
            'count-class': lambda: m['K0'].count_exceptions(ValueError),
            'count-tuple': lambda: m['K0'].count_exceptions((ValueError, LookupError)),
            'inprogress': lambda: m['P0'].track_inprogress(), 'time-summary-child': lambda: m['S1'].time(),
            'count-child': lambda: m['K1'].count_exceptions(KeyError),
            'inprogress-child': lambda: m['P1'].track_inprogress()}[kind]()


def metadata_diffs(orig, w, spec_posonly):
    """property oracle for one decoration step; returns list of (signature, description)"""
    out = []
    try:
        so, sw = inspect.signature(orig), inspect.signature(w)
    except (TypeError, ValueError) as e:
        return [('C16:metadata', 'inspect.signature failed: %s' % e)]
    if so != sw:
        out.append(('C16:metadata', 'inspect.signature differs: %s vs %s' % (so, sw)))
    if w.__name__ != orig.__name__:
        out.append((SIG_LAMBDA if orig.__name__ == '<lambda>' else 'C16:metadata',
                    '__name__ %r became %r' % (orig.__name__, w.__name__)))
    for attr in ('__doc__', '__qualname__', '__module__'):
        if getattr(w, attr, None) != getattr(orig, attr, None):
            out.append(('C16:metadata', '%s %r became %r' % (attr, getattr(orig, attr, None), getattr(w, attr, None))))
    if getattr(w, '__wrapped__', None) is not orig:
        out.append(('C16:metadata', '__wrapped__ is not the original'))
    do, dw = orig.__defaults__ or (), w.__defaults__ or ()
    if len(do) != len(dw) or any(x is not y for x, y in zip(do, dw)):
        out.append(('C16:metadata', '__defaults__ differ'))
    ko, kw = orig.__kwdefaults__ or {}, w.__kwdefaults__ or {}
    if set(ko) != set(kw) or any(ko[k] is not kw[k] for k in ko):
        out.append(('C16:metadata', '__kwdefaults__ differ'))
    if orig.__annotations__ != w.__annotations__:
        out.append(('C16:metadata', '__annotations__ differ'))
    for k, v in orig.__dict__.items():
        if k not in ('__wrapped__', '__source__') and w.__dict__.get(k, None) is not v:
            out.append(('C16:metadata', 'function attribute %r lost' % k))
    # the wrapper's OWN signature (not following __wrapped__, which would make the comparison trivially true) against the
    # original's own signature, nothing normalised
    try:
        raw = inspect.signature(w, follow_wrapped=False)
        own = inspect.signature(orig, follow_wrapped=False)
        if raw != own:
            po = list(own.parameters.values())
            pw = list(raw.parameters.values())
            only_marker = (len(po) == len(pw) and raw.return_annotation == own.return_annotation and all(
                a.name == b.name and a.default is b.default and a.annotation == b.annotation and
                (a.kind == b.kind or (a.kind == inspect.Parameter.POSITIONAL_ONLY and b.kind == inspect.Parameter.POSITIONAL_OR_KEYWORD))
                for a, b in zip(po, pw)))
            out.append((SIG_MARKER if only_marker else 'C16:metadata',
                        'signature of the wrapper itself is %s, the original\'s is %s' % (raw, own)))
    except (TypeError, ValueError) as e:
        out.append(('C16:metadata', 'inspect.signature(follow_wrapped=False) failed: %s' % e))
    return out


def classify_bind_failure(spec, kw):
    names = [k for k, _ in kw]
    if any(k in spec['posonly'] for k in names):
        return SIG_CLASH if spec['varkw'] else SIG_POSKW
    if any(k in ('_call_', '_func_') for k in spec['kwonly']):
        return SIG_SHADOW
    if 'func' in spec['kwonly'] or ('func' in names and 'func' not in spec['pos']):
        return SIG_FUNC
    return 'C16:binding-differs'


def run_sig_case(ctx, case, reqs, pend):
    """case = {'kind': 'sig', 'spec': …, 'wrapper': kind, 'calls': [[pos ids], [[name, id]…]]}"""
    spec, wkind = case['spec'], case['wrapper']
    world = World({})
    objs = {}

    def obj(i):
        if i not in objs:
            objs[i] = Obj(i)
        return objs[i]
    ident = {}

    def body(named, varargs, varkw):
        return ('bound', [(n, ident.get(id(v), -1)) for n, v in named], [ident.get(id(v), -1) for v in varargs],
                [(k, ident.get(id(v), -1)) for k, v in varkw.items()])
    try:
        f, d, kd = make_function(spec, body)
    except SyntaxError as e:
        raise lib.Infra('generated source does not compile: %s (%s)' % (e, spec_source(spec)[0]))
    for i, x in enumerate(d):
        ident[id(x)] = 1000 + i
    for j, k in enumerate(spec['kwonly']):
        if k in kd:
            ident[id(kd[k])] = 2000 + j
    deco = 'ok'
    w = None
    try:
        w = make_wrapper(world, wkind)(f)
    except NameError:
        deco = 'NameError'
    except Exception as e:
        ctx.fail('C16:decoration-raises', 'decorating %s raised %s: %s' % (spec_source(spec)[0].split('\n')[0], type(e).__name__, e), case)
        return
    ctx.count('sig:' + spec['mkind'])
    ctx.count('sig:wrapper:' + wkind)
    if deco == 'NameError':
        ctx.count('sig:decoration-NameError')
    if w is not None:
        for sig, what in metadata_diffs(f, w, spec['posonly']):
            report(ctx, sig, '%s [%s] %s' % (spec_source(spec)[0].split('\n')[0], wkind, what), case)
    # receivers
    mk = spec['mkind']
    K = type('K', (), {})
    inst = K()
    ident[id(inst)] = 3000
    ident[id(K)] = 3001
    if w is not None:
        wrapdesc = {'function': None, 'method': w, 'classmethod': classmethod(w), 'staticmethod': staticmethod(w)}[mk]
        origdesc = {'function': None, 'method': f, 'classmethod': classmethod(f), 'staticmethod': staticmethod(f)}[mk]
        if mk != 'function':
            K.orig = origdesc
            K.wrapped = wrapdesc
    recv = {'method': [3000], 'classmethod': [3001]}.get(mk, [])

    def call(which, pos, kw):
        args = [obj(i) for i in pos]
        kwargs = {k: obj(i) for k, i in kw}
        for i in list(pos) + [i for _, i in kw]:
            ident[id(objs[i])] = i
        target = (f if which == 'orig' else w) if mk == 'function' else getattr(inst, which)
        try:
            return target(*args, **kwargs)
        except TypeError:
            return 'TypeError'
        except BaseException as e:
            return 'raised ' + type(e).__name__
    for pos, kw in case['calls']:
        kw = [tuple(x) for x in kw]
        names = [k for k, _ in kw]
        if len(set(names)) != len(names):
            continue
        if w is None:
            r0 = call('orig', pos, kw) if mk == 'function' else 'skip'
            r1 = 'skip'
        else:
            r0 = call('orig', pos, kw)
            r1 = call('wrapped', pos, kw)
            ctx.count('sig:call:' + ('binds' if r0 != 'TypeError' else 'TypeError'))
            if r0 != r1:
                sig = classify_bind_failure(spec, kw)
                report(ctx, sig, '%s [%s] call(%s, %s): original -> %s, wrapped -> %s' % (
                    spec_source(spec)[0].split('\n')[0], wkind, pos, dict(kw), show(r0), show(r1)),
                    dict(case, calls=[[pos, [list(x) for x in kw]]]))
        ctx.case(nontrivial_key=('sig', spec_field(spec), tuple(pos), tuple(kw), wkind),
                 sample={'def': spec_source(spec)[0].split('\n')[0], 'wrapper': wkind, 'call': [pos, dict(kw)],
                         'original': show(r0), 'wrapped': show(r1)})
        reqs.append('c16 sig %s %s|%s' % (spec_field(spec), ','.join(str(i) for i in recv + list(pos)),
                                           ','.join('%s=%d' % (k, i) for k, i in kw)))
        pend.append(('sig', case, (pos, kw), deco, r0, r1, getattr(w, '__source__', None)))


def show(r):
    if isinstance(r, tuple):
        return '%s *%s **%s' % (dict(r[1]), r[2], dict(r[3]))
    return r


def enc_bound(r):
    if r == 'TypeError':
        return 'E'
    if not isinstance(r, tuple):
        return str(r)
    return '%s|%s|%s' % (','.join('%s=%d' % (n, i) for n, i in r[1]), ','.join(str(i) for i in r[2]),
                         ','.join('%s=%d' % (n, i) for n, i in r[3]))


def compare_sig(ctx, item, reply):
    _, case, (pos, kw), deco, r0, r1, source = item
    rep = reply.split(' ')
    small = dict(case, calls=[[pos, [list(x) for x in kw]]])
    if rep[0] != 'ok':
        ctx.diverge('driver: %s' % reply, small)
        return
    ctx.traces += 1
    if rep[1] != deco:
        ctx.diverge('decorate(): model %s, implementation %s' % (rep[1], deco), small)
        return
    if deco != 'ok':
        if r0 != 'skip' and rep[3] != enc_bound(r0):
            ctx.diverge('bind(original): model %s, CPython %s' % (rep[3], enc_bound(r0)), small)
        return
    if source is not None and lib.unhx(rep[2]) != source:
        ctx.diverge('generated source: model %r, implementation %r' % (lib.unhx(rep[2]), source), small)
    if rep[3] != enc_bound(r0):
        ctx.diverge('bind(original): model %s, CPython %s' % (rep[3], enc_bound(r0)), small)
    if rep[5] != enc_bound(r1):
        ctx.diverge('call through wrapper: model %s, implementation %s' % (rep[5], enc_bound(r1)), small)


# ================================================================================================ exec cases
def gen_out(rng, ids):
    ids[0] += 1
    if rng.random() < 0.55:
        return ['r', ids[0]]
    if HAVE_GROUPS and rng.random() < 0.3:
        cls, leaves = gen_group(rng)
        return ['x', ids[0], cls, leaves]
    return ['x', ids[0], rng.choice(CLASSES)]


def gen_wrapper(rng, shared_ok):
    t = rng.random()
    if t < 0.45:
        mode = rng.choice(['dec', 'dec', 'dec', 'new', 'new'] + (['shared'] if shared_ok else []))
        return {'t': 'T', 'm': rng.choice(OBS_KEYS + ['G0', 'G1']), 'mode': mode}
    if t < 0.7:
        return {'t': 'I', 'g': rng.choice(['P0', 'P1']), 'use': rng.choice(['dec', 'cm', 'cmnew'])}
    return {'t': 'E', 'c': rng.choice(CNT_KEYS), 'use': rng.choice(['dec', 'cm']),
            'cls': rng.choice(['default', ['Exception'], ['ValueError'], ['LookupError'], ['KeyError'], ['BaseException'],
                               ['ValueError', 'LookupError'], ['KeyboardInterrupt', 'KeyError'], ['SystemExit']] + ([
                               ['ExceptionGroup'], ['BaseExceptionGroup'], ['ExceptionGroup', 'KeyError'], ['ValueError', 'SystemExit'],
                               ['ValueError'], ['KeyError'], ['LookupError', 'BaseExceptionGroup']] if HAVE_GROUPS else []) + [
                               ['GeneratorExit', 'Exception']])}


def gen_call(rng, depth, ids, shared_ok=False, maxrec=4):
    ws = [gen_wrapper(rng, shared_ok) for _ in range(rng.choice([0, 1, 1, 2, 2, 3, 4]))]
    t = rng.random()
    if depth >= 3 or t < 0.45:
        body = {'k': 'out', 'o': gen_out(rng, ids)}
    elif t < 0.8:
        body = {'k': 'nest', 'sw': rng.random() < 0.4, 'cs': [gen_call(rng, depth + 1, ids, shared_ok, maxrec) for _ in range(rng.choice([1, 2, 3]))],
                'o': gen_out(rng, ids)}
    else:
        body = {'k': 'rec', 'n': rng.randint(1, maxrec), 'o': gen_out(rng, ids)}
    spec = gen_spec(rng, rich=False)
    spec['mkind'] = 'function'
    calls = gen_calls(rng, spec, n_valid=1, n_invalid=0, clash=False)
    call = {'ws': ws, 'body': body, 'spec': spec, 'args': [calls[0][0], [list(x) for x in calls[0][1]]]}
    if rng.random() < (0.4 if depth == 0 else 0.25):
        configured = [c for w in ws if w['t'] == 'E' for c in (['Exception'] if w['cls'] == 'default' else w['cls'])]
        call['amb'] = gen_ambient(rng, configured)
    return call


def gen_clock(rng, n):
    style = rng.choice(['up', 'still', 'back', 'walk', 'short'])
    t = rng.randint(-5, 50)
    out = []
    for _ in range(0 if style == 'short' and rng.random() < 0.3 else (n if style != 'short' else rng.randint(0, n))):
        if style == 'up':
            t += rng.randint(1, 9)
        elif style == 'still':
            t += rng.choice([0, 0, 0, 1])
        elif style == 'back':
            t -= rng.randint(0, 7)
        else:
            t += rng.randint(-6, 8)
        out.append(t)
    return out


def n_timers(call):
    n = sum(1 for w in call['ws'] if w['t'] == 'T')
    b = call['body']
    if b['k'] == 'nest':
        return n + sum(n_timers(c) for c in b['cs'])
    if b['k'] == 'rec':
        return n * (b['n'] + 1)
    return n


def py_outcome(call):
    """what the undecorated program does — written from the property, independent of the model"""
    b = call['body']
    if b['k'] == 'nest':
        for c in b['cs']:
            o = py_outcome(c)
            if o[0] == 'x' and not b['sw']:
                return o
    return b['o']


def enc_out(o):
    return ['r', str(o[1])] if o[0] == 'r' else ['x', str(o[1]), str(CLS_NO[o[2]])]


def enc_tree(call, tids):
    toks = ['C', str(len(call['ws']))]
    for w in call['ws']:
        if w['t'] == 'T':
            if w['m'] in OBS_KEYS:
                m, k = OBS_KEYS.index(w['m']), 1
            else:
                m, k = GAUGE_KEYS.index(w['m']), 0
            tids[0] += 1
            toks += ['T', str(m), str(k), {'dec': '0', 'new': '1', 'shared': '2'}[w['mode']], str(tids[0])]
        elif w['t'] == 'I':
            toks += ['I', str(GAUGE_KEYS.index(w['g']))]
        else:
            cl = ['Exception'] if w['cls'] == 'default' else w['cls']
            toks += ['E', str(CNT_KEYS.index(w['c'])), str(len(cl))] + [str(CLS_NO[c]) for c in cl]
    b = call['body']
    if b['k'] == 'out':
        toks += ['O'] + enc_out(b['o'])
    elif b['k'] == 'nest':
        toks += ['N', '1' if b['sw'] else '0', str(len(b['cs']))]
        for c in b['cs']:
            toks += enc_tree(c, tids)
        toks += enc_out(b['o'])
    else:
        toks += ['R', str(b['n'])] + enc_out(b['o'])
    return toks


class Node:
    pass


class Runner:
    """builds the real program for a tree and runs it, recording what the oracle needs"""

    def __init__(self, ctx, case):
        self.ctx = ctx
        self.case = case
        self.world = World(case.get('prior', {}))
        self.events = []
        self.stack = []
        self.objs = {}
        self.problems = []    # (signature, what)
        self.nodes = []
        self.uses_shared = set()
        self.ambient_calls = []   # (node id, frames) per call made under an ambient exception state

    def outcome_obj(self, o):
        if o[1] not in self.objs:
            if o[0] == 'r':
                self.objs[o[1]] = Obj(o[1])
            elif o[2] in GROUP_CLASSES:
                self.objs[o[1]] = PYCLS[o[2]]('exc %d' % o[1], make_leaves(o[3]))
                assert type(self.objs[o[1]]) is PYCLS[o[2]], 'group %s collapsed to %s' % (o[2], type(self.objs[o[1]]).__name__)
            else:
                self.objs[o[1]] = PYCLS[o[2]]('exc %d' % o[1])
        return self.objs[o[1]]

    def build(self, call):
        node = Node()
        node.call = call
        node.nid = len(self.nodes)
        self.nodes.append(node)
        b = call['body']
        node.children = [self.build(c) for c in b['cs']] if b['k'] == 'nest' else []
        node.remaining = b['n'] if b['k'] == 'rec' else 0
        runner = self

        def body(named, varargs, varkw):
            return runner.run_body(node)
        f, _, _ = make_function(call['spec'], body)
        fn = f
        m = self.world.m
        for w in reversed(call['ws']):
            if w['t'] == 'T':
                metric = m[w['m']]
                if w['mode'] == 'dec':
                    fn = self.decorate(metric.time(), fn, call)
                elif w['mode'] == 'new':
                    fn = cm_wrap(fn, metric.time)
                else:
                    t = metric.time()
                    fn = cm_wrap(fn, lambda t=t: t)
                    self.uses_shared.add(w['m'])
            elif w['t'] == 'I':
                g = m[w['g']]
                if w['use'] == 'dec':
                    fn = self.decorate(g.track_inprogress(), fn, call)
                elif w['use'] == 'cm':
                    tr = g.track_inprogress()
                    fn = cm_wrap(fn, lambda tr=tr: tr)
                else:
                    fn = cm_wrap(fn, g.track_inprogress)
            else:
                c = m[w['c']]
                if w['cls'] == 'default':
                    ec = c.count_exceptions()
                elif len(w['cls']) == 1:
                    ec = c.count_exceptions(PYCLS[w['cls'][0]])
                else:
                    ec = c.count_exceptions(tuple(PYCLS[x] for x in w['cls']))
                fn = self.decorate(ec, fn, call) if w['use'] == 'dec' else cm_wrap(fn, lambda ec=ec: ec)
        node.fn = fn
        return node

    def decorate(self, wrapper, fn, call):
        w = wrapper(fn)
        for sig, what in metadata_diffs(fn, w, call['spec']['posonly']):
            self.problems.append((sig, what))
        return w

    def invoke(self, node):
        pos, kw = node.call['args']
        args, kwargs = [Obj(-i) for i in pos], {k: Obj(-i) for k, i in kw}
        amb = node.call.get('amb')
        if not amb:
            return node.fn(*args, **kwargs)
        # the call is made while the CALLER is handling / unwinding other exceptions; the call's own outcome is handed on
        self.ambient_calls.append((node.nid, amb))
        got = in_ambient(amb, lambda: node.fn(*args, **kwargs))
        if got[0] == 'x':
            raise got[1]
        return got[1]

    def run_body(self, node):
        self.stack.append(node)
        active = {}
        for n in self.stack:
            for w in n.call['ws']:
                if w['t'] == 'I':
                    active[w['g']] = active.get(w['g'], 0) + 1
        gv = {g: self.world.m[g]._child_samples()[0].value for g in ('P0', 'P1')}
        self.events.append(('enter', node.nid, active, gv))
        try:
            b = node.call['body']
            if b['k'] == 'nest':
                for ch in node.children:
                    exp = py_outcome(ch.call)
                    try:
                        r = self.invoke(ch)
                    except BaseException as e:
                        if exp[0] != 'x' or e is not self.outcome_obj(exp):
                            self.problems.append(('C16:outcome', 'nested call %d raised %r, its body raises %s' % (ch.nid, e, exp)))
                        if not b['sw']:
                            raise
                    else:
                        if exp[0] != 'r' or r is not self.outcome_obj(exp):
                            self.problems.append(('C16:outcome', 'nested call %d returned %r, its body produces %s' % (ch.nid, r, exp)))
            elif b['k'] == 'rec' and node.remaining > 0:
                node.remaining -= 1
                r = self.invoke(node)
                self.events.append(('exit', node.nid, None))
                self.stack.pop()
                return r
            o = b['o']
            if o[0] == 'x':
                raise self.outcome_obj(o)
            r = self.outcome_obj(o)
        except BaseException as e:
            self.events.append(('exit', node.nid, e))
            self.stack.pop()
            raise
        self.events.append(('exit', node.nid, None))
        self.stack.pop()
        return r

    def run(self):
        import prometheus_client.context_managers as cmod
        root = self.build(self.case['tree'])
        before = self.world.read()
        saved = cmod.default_timer
        cmod.default_timer = FakeTimer(self.case['clock'], self.events)
        try:
            try:
                r = self.invoke(root)
                got = ('r', r)
            except BaseException as e:
                got = ('x', e)
        finally:
            cmod.default_timer = saved
        after = self.world.read()
        return got, before, after


def cm_wrap(fn, factory):
    """harness-made plain wrapper: `with <context manager>: return fn(...)`"""
    def outer(*a, **k):
        with factory():
            return fn(*a, **k)
    return outer


def expected_bookkeeping(runner):
    """from the event log alone: per metric the durations each timed call must observe (its own entry / exit readings),
    in-progress values seen by bodies, exception-counter increments"""
    ev = runner.events
    prior = runner.case.get('prior', {})
    # in-progress gauges in IEEE doubles: every tracker entered adds 1.0, every tracker left subtracts 1.0, in nesting order
    sim = {g: float(prior.get(g, 0)) for g in ('P0', 'P1')}
    durations = {k: [] for k in OBS_KEYS + ['G0', 'G1']}   # in callback order
    counts = {k: 0 for k in CNT_KEYS}
    problems = []
    for i, e in enumerate(ev):
        if e[0] == 'enter':
            for w in runner.nodes[e[1]].call['ws']:
                if w['t'] == 'I':
                    sim[w['g']] = sim[w['g']] + 1.0
            for g in ('P0', 'P1'):
                if e[3][g] != sim[g]:
                    problems.append(('C16:inprogress', 'in-progress gauge %s is %r inside body %d, %d trackers active over prior %r give %r' % (
                        g, e[3][g], e[1], e[2].get(g, 0), prior.get(g, 0), sim[g])))
        if e[0] == 'exit':
            for w in runner.nodes[e[1]].call['ws']:
                if w['t'] == 'I':
                    sim[w['g']] = sim[w['g']] - 1.0
            node = runner.nodes[e[1]]
            timers = [w for w in node.call['ws'] if w['t'] == 'T']
            k = len(timers)
            # matching enter event: scan back with nesting
            depth = 0
            j = i - 1
            while j >= 0:
                if ev[j][0] == 'exit':
                    depth += 1
                elif ev[j][0] == 'enter':
                    if depth == 0:
                        break
                    depth -= 1
                j -= 1
            before = [x[1] for x in ev[max(j - k, 0):j] if x[0] == 'clock']
            after = [x[1] for x in ev[i + 1:i + 1 + k] if x[0] == 'clock']
            if len(before) != k or len(after) != k:
                problems.append(('C16:duration', 'call %d with %d timers: %d clock readings on entry, %d on exit' % (e[1], k, len(before), len(after))))
            else:
                for idx in range(k - 1, -1, -1):     # innermost exits first
                    durations[timers[idx]['m']].append(max(after[k - 1 - idx] - before[idx], 0))
            if e[2] is not None:
                for w in node.call['ws']:
                    if w['t'] == 'E':
                        cl = (Exception,) if w['cls'] == 'default' else tuple(PYCLS[x] for x in w['cls'])
                        if isinstance(e[2], cl):
                            counts[w['c']] += 1
    return durations, counts, problems, sim


def exact_unit(x):
    """is (x + 1) - 1 == x in doubles"""
    return (x + 1.0) - 1.0 == x


FLOAT_PRIORS = [0.1, -0.3, 2.5, 1e-9, 0.30000000000000004, float(2 ** 53), float(2 ** 53 - 1), float(2 ** 53 + 2), -float(2 ** 53),
                1e16, 4503599627370496.5, 1e300, -1e17]


def model_prior(x):
    """the model computes in Int: gauges whose prior is not a small integer are sent as 0 and not compared"""
    return int(x) if float(x).is_integer() and abs(x) < 2 ** 52 else None


def run_exec_case(ctx, case, reqs, pend):
    runner = Runner(ctx, case)
    got, before, after = runner.run()
    tree = case['tree']
    exp = py_outcome(tree)
    fails = list(runner.problems)
    want = runner.outcome_obj(exp)
    if (got[0] == 'r') != (exp[0] == 'r') or got[1] is not want:
        fails.append(('C16:outcome', 'call %s %r, the body %s %r' % ('returned' if got[0] == 'r' else 'raised', got[1],
                                                                  'returns' if exp[0] == 'r' else 'raises', want)))
    durations, counts, probs, sim = expected_bookkeeping(runner)
    fails += probs
    obs = {}
    for k in OBS_KEYS:
        dc = after[k][0] - before[k][0]
        ds = after[k][1] - before[k][1]
        obs[k] = (dc, ds)
        if dc != len(durations[k]):
            fails.append(('C16:duration', '%s count went up by %s, %d timed calls were entered' % (k, dc, len(durations[k]))))
        if ds < 0:
            fails.append(('C16:duration', '%s sum went DOWN by %s (negative duration observed)' % (k, -ds)))
        elif k not in runner.uses_shared and ds != sum(durations[k]):
            fails.append(('C16:duration', '%s sum went up by %s, the calls\' own readings give %s' % (k, ds, durations[k])))
    for k in ('G0', 'G1'):
        if durations[k]:
            if after[k] < 0:
                fails.append(('C16:duration', 'timing gauge %s holds the negative duration %s' % (k, after[k])))
            elif k not in runner.uses_shared and after[k] != durations[k][-1]:
                fails.append(('C16:duration', 'timing gauge %s holds %s, last timed call lasted %s' % (k, after[k], durations[k][-1])))
        elif after[k] != before[k]:
            fails.append(('C16:duration', 'timing gauge %s changed without a timed call' % k))
    for k in ('P0', 'P1'):
        # balanced: back at the prior value — exactly, unless adding and removing 1.0 is itself inexact in doubles at this
        # magnitude (0.1 + 1 - 1, 2**53 + 1 - 1): then the value must be the IEEE result of the +1.0 / -1.0 sequence
        if after[k] != sim[k]:
            fails.append(('C16:inprogress', 'in-progress gauge %s was %r before the call and is %r after it (IEEE +1/-1 sequence gives %r)' % (
                k, before[k], after[k], sim[k])))
        if sim[k] != before[k]:
            ctx.count('exec:inprogress-ieee-rounding-deviation')
        elif not exact_unit(before[k]):
            ctx.count('exec:inprogress-inexact-prior-balanced')
    for k in CNT_KEYS:
        if after[k] - before[k] != counts[k]:
            esc = sorted({repr(e[2]) for e in runner.events if e[0] == 'exit' and e[2] is not None})
            cfg = [w['cls'] for n in runner.nodes for w in n.call['ws'] if w['t'] == 'E' and w['c'] == k]
            ambs = ['call %d made inside [%s]' % (nid, amb_text(fr)) for nid, fr in runner.ambient_calls
                    if any(w['t'] == 'E' and w['c'] == k for w in runner.nodes[nid].call['ws'])]
            fails.append(('C16:exception-count', 'counter %s went up by %s, but %d guarded calls let an isinstance of their configured classes %s escape (escaping: %s)%s' % (
                k, after[k] - before[k], counts[k], cfg, ', '.join(esc)[:300] or 'nothing',
                '; exceptions the CALLER was handling at the time of a guarded call do not escape the wrapped code: ' + '; '.join(ambs[:4]) if ambs else '')))
    for sig, what in fails[:3]:
        report(ctx, sig, what, case)
    toks = enc_tree(tree, [0])
    tree_s = ','.join(toks)
    amb_s = ';'.join('%d:%s' % (nid, amb_text(fr)) for nid, fr in sorted({(nid, tuple(map(tuple, fr))) for nid, fr in runner.ambient_calls}))
    ctx.case(nontrivial_key=('exec', tree_s, tuple(case['clock']), amb_s) if len(toks) > 5 else None,
             sample=dict({'tree': tree_s, 'clock': case['clock'], 'outcome': exp, 'observed': {k: list(v) for k, v in obs.items() if v[0]}},
                         **({'ambient': amb_s} if amb_s else {})))
    for nid, fr in runner.ambient_calls:
        ctx.count('exec:ambient-calls')
        for kind, _ in fr:
            ctx.count('exec:ambient:' + kind)
        live = tuple(PYCLS[c] for c in amb_live(fr))
        for w in runner.nodes[nid].call['ws']:
            if w['t'] == 'E' and live:
                cl = (Exception,) if w['cls'] == 'default' else tuple(PYCLS[x] for x in w['cls'])
                ctx.count('exec:ambient-guarded-call:handled-%s-configured' % ('matches' if any(issubclass(c, cl) for c in live) else 'outside'))
    ctx.count('exec:outcome:' + (exp[2] if exp[0] == 'x' else 'return'))
    ctx.count('exec:timed-calls', sum(len(v) for v in durations.values()))
    ctx.count('exec:depth-recursion', 1 if 'R' in toks else 0)
    prior = case.get('prior', {})
    reqs.append('c16 exec %s %s %s %d %d' % (tree_s, lib.enc_list([str(x) for x in case['clock']]),
                                             lib.enc_list([str(model_prior(prior.get(g, 0)) or 0) for g in GAUGE_KEYS]), len(CNT_KEYS), len(OBS_KEYS)))
    pend.append(('exec', case, got, obs, after, before, exp, durations, counts, runner.uses_shared))


def compare_exec(ctx, item, reply):
    _, case, got, obs, after, before, exp, durations, counts, shared = item
    rep = reply.split(' ')
    if rep[0] != 'ok':
        ctx.diverge('driver: %s' % reply, case)
        return
    ctx.traces += 1
    o = rep[1].split(':')
    real = ['r', None] if got[0] == 'r' else ['x', None]
    ident = (0 if got[1] is None else getattr(got[1], 'i', None)) if got[0] == 'r' else None
    if got[0] == 'x':
        s = str(got[1].args[0]) if getattr(got[1], 'args', None) else ''
        ident = int(s.split(' ')[1]) if s.startswith('exc ') else None
    real_s = '%s:%s' % (got[0], ident) + (':%d' % CLS_NO.get(type(got[1]).__name__, -1) if got[0] == 'x' else '')
    if rep[1] != real_s:
        ctx.diverge('outcome: model %s, implementation %s' % (rep[1], real_s), case)
    mobs = {k: [0, 0] for k in OBS_KEYS}
    last_set = {}
    for ent in lib_declist(rep[2]):
        m, k, d = ent.split(':')
        if k == '1':
            mobs[OBS_KEYS[int(m)]][0] += 1
            mobs[OBS_KEYS[int(m)]][1] += int(d)
        else:
            last_set[GAUGE_KEYS[int(m)]] = int(d)
    for k in OBS_KEYS:
        if (mobs[k][0], mobs[k][1]) != (obs[k][0], obs[k][1]):
            ctx.diverge('%s: model count/sum +%s, implementation +%s' % (k, mobs[k], list(obs[k])), case)
    mg = [int(x) for x in lib_declist(rep[3])]
    for i, k in enumerate(GAUGE_KEYS):
        if model_prior(case.get('prior', {}).get(k, 0)) is None:
            continue    # non-integer / huge prior: outside the model's exact arithmetic, judged by the oracle only
        if mg[i] != after[k]:
            ctx.diverge('gauge %s: model %s, implementation %s' % (k, mg[i], after[k]), case)
    mc = [int(x) for x in lib_declist(rep[4])]
    for i, k in enumerate(CNT_KEYS):
        if mc[i] != after[k] - before[k]:
            ctx.diverge('counter %s: model +%s, implementation +%s' % (k, mc[i], after[k] - before[k]), case)
    # the spec columns (equal to the model's by theorem; printing both makes a broken proof visible in the run)
    so = rep[5]
    if so != rep[1]:
        ctx.diverge('model outcome %s differs from spec outcome %s (theorem transparent_spec)' % (rep[1], so), case)
    st = [int(x) for x in lib_declist(rep[6])]
    for i, k in enumerate(OBS_KEYS):
        if st[i] != mobs[k][0]:
            ctx.diverge('model observes %s %d times, spec timedCall says %d (theorem one_observation_per_call)' % (k, mobs[k][0], st[i]), case)
    se = [int(x) for x in lib_declist(rep[7])]
    for i, k in enumerate(CNT_KEYS):
        if se[i] != mc[i]:
            ctx.diverge('model counts %s +%d, spec escCall says %d (theorem exception_counted_iff)' % (k, mc[i], se[i]), case)


def lib_declist(f):
    return [] if f == '.' else f.split(';')



# ================================================================================================ Timer.labels cases
# `with PARENT.time() as t: …; t.labels('a')` / `t.labels(method='GET')` and `T = PARENT.time(); f = T(f); T.labels(…)`.
# case = {'kind': 'tl', 'decos': [ref…], 'prog': [stmt…], 'out': out, 'clock': […]}
#   ref  = ['p', m] plain metric | ['P', m] labelled parent | ['c', m, [values]] labelled child
#   stmt = ['L', up, pos, kw] t.labels on the up-th enclosing with-block's timer | ['D', d, pos, kw] labels on decorator-level timer d
#        | ['W', ref, swallow, prog, out] with ref.time() as t | ['F', d, swallow, prog, out] call of the function decorated by timer d
TL_METRICS = [('Summary', ['l']), ('Histogram', ['l', 'm']), ('Gauge', ['l']), ('Summary', []), ('Gauge', [])]
TL_LNAMES = ['l', 'm', 'zz']
SIG_TL_OUTCOME = 'C16:timer-labels-outcome'
SIG_TL_OBS = 'C16:timer-labels-observation'
SIG_TL_CALL = 'C16:timer-labels-call'
SIG_TL_CLOCK = 'C16:timer-labels-clock-readings'


def tl_kind(m):
    return 0 if TL_METRICS[m][0] == 'Gauge' else 1


def tl_names(m):
    return [TL_LNAMES.index(n) for n in TL_METRICS[m][1]]


def tl_value(v, as_kw=False):
    """label values reach the library as int or as str: both address the child keyed by str(v)"""
    return v if v % 2 else str(v)


class TLWorld:
    def __init__(self):
        import prometheus_client as pc
        self.m = [getattr(pc, cls)('tl%d' % i, 'd', names, registry=None) for i, (cls, names) in enumerate(TL_METRICS)]

    def obj(self, ref):
        if ref[0] in ('p', 'P'):
            return self.m[ref[1]]
        return self.m[ref[1]].labels(*[str(v) for v in ref[2]])

    def read(self):
        """{ref key: (count, sum)} for observe-metrics, {ref key: value} for gauges; children and plain metrics"""
        out = {}
        for i, (cls, names) in enumerate(TL_METRICS):
            targets = [(('p', i), self.m[i])] if not names else [(('c', i) + tuple(k), ch) for k, ch in sorted(self.m[i]._metrics.items())]
            for key, ch in targets:
                ss = {x.name: x.value for x in ch._child_samples()}
                out[key] = ss[''] if cls == 'Gauge' else (ss['_count'], ss['_sum'])
        return out


def tl_refkey(ref):
    return ('p', ref[1]) if ref[0] == 'p' else ('P', ref[1]) if ref[0] == 'P' else ('c', ref[1]) + tuple(str(v) for v in ref[2])


def tl_with(metric, body):
    with metric.time() as t:
        return body(t)


class TLRunner:
    def __init__(self, case):
        self.case = case
        self.w = TLWorld()
        self.events = []
        self.objs = {}
        self.nb = 0
        self.pending = []
        self.decos = []
        self.fns = []
        self.n_amb = 0
        for ref in case['decos']:
            T = self.w.obj(ref).time()
            self.decos.append(T)

            def dispatch(runner=self):
                return runner.pending.pop()()
            self.fns.append(T(dispatch))

    def obj(self, o):
        if o[1] not in self.objs:
            self.objs[o[1]] = Obj(o[1]) if o[0] == 'r' else PYCLS[o[2]]('exc %d' % o[1])
        return self.objs[o[1]]

    def run_prog(self, prog, out, env):
        for st in prog:
            self.run_stmt(st, env)
        if out[0] == 'x':
            raise self.obj(out)
        return self.obj(out)

    def run_stmt(self, st, env):
        if st[0] == 'A':      # ['A', frames, stmt]: the statement runs under an ambient exception state of the caller
            self.n_amb += 1
            got = in_ambient(st[1], lambda: self.run_stmt(st[2], env))
            if got[0] == 'x':
                raise got[1]
            return
        if st[0] in ('L', 'D'):
            timer, key = (env[st[1]][0], ('blk', env[st[1]][1])) if st[0] == 'L' else (self.decos[st[1]], ('deco', st[1]))
            args = [tl_value(v) for v in st[2]]
            kwargs = {TL_LNAMES[n]: tl_value(v) for n, v in st[3]}
            try:
                r = timer.labels(*args, **kwargs)
            except BaseException as e:
                self.events.append(('labels', key, st[2], st[3], ('x', e)))
                raise
            self.events.append(('labels', key, st[2], st[3], ('r', r)))
            return
        bid = self.nb
        self.nb += 1
        form, head, sw, prog, out = st
        self.events.append(('begin', bid, form, head))

        def body(t):
            self.events.append(('body', bid))
            try:
                r = self.run_prog(prog, out, ([(t, bid)] + env) if form == 'W' else env)
            except BaseException as e:
                self.events.append(('bodyend', bid, ('x', e)))
                raise
            self.events.append(('bodyend', bid, ('r', r)))
            return r
        try:
            if form == 'W':
                got = ('r', tl_with(self.w.obj(head), body))
            else:
                self.pending.append(lambda: body(None))
                got = ('r', self.fns[head]())
        except BaseException as e:
            got = ('x', e)
        self.events.append(('end', bid, got))
        if got[0] == 'x' and not sw:
            raise got[1]

    def run(self):
        import prometheus_client.context_managers as cmod
        saved = cmod.default_timer
        cmod.default_timer = FakeTimer(self.case['clock'], self.events)
        try:
            if self.case.get('amb'):
                self.n_amb += 1
            got = in_ambient(self.case.get('amb') or [], lambda: self.run_prog(self.case['prog'], self.case['out'], []))
        finally:
            cmod.default_timer = saved
        return got


def tl_py_labels(ref, pos, kw):
    """which child `labels(*pos, **kw)` addresses, from the documentation of labels(); None = ValueError"""
    if ref[0] != 'P':
        return None                 # no label names / already a child: "can not chain calls to .labels()"
    names = tl_names(ref[1])
    if pos and kw:
        return None
    if kw:
        if sorted(n for n, _ in kw) != sorted(names):
            return None
        d = dict((n, v) for n, v in kw)
        return ['c', ref[1], [d[n] for n in names]]
    if len(pos) != len(names):
        return None
    return ['c', ref[1], list(pos)]


def tl_oracle(case, events, got, final):
    """the property on the event log of the REAL run (nothing taken from the Lean model): every timed block / decorated call
    whose timer refers to an observable metric when the body is done hands on the body's own object, reads the clock once
    before and once after the body, and observes max(after - before, 0) exactly once on the child addressed by the last
    labels() call that returned on ITS timer (a decorated call: on the decorator-level timer before the call started); a
    timer still on a labelled parent raises ValueError at exit and records nothing; labels() returns None."""
    problems = []
    deco_ref = [list(r) for r in case['decos']]
    blk_ref, body_out, t0, t1 = {}, {}, {}, {}
    expected = {}
    unl = 0
    for i, e in enumerate(events):
        if e[0] == 'begin':
            blk_ref[e[1]] = list(e[3]) if e[2] == 'W' else list(deco_ref[e[3]])
        elif e[0] == 'clock':
            prev = events[i - 1] if i else None
            if prev and prev[0] == 'begin':
                t0[prev[1]] = e[1]
            elif prev and prev[0] == 'bodyend':
                t1[prev[1]] = e[1]
            else:
                problems.append((SIG_TL_CLOCK, 'clock read outside entry/exit of a timed block (after %s)' % (prev[:2] if prev else None,)))
        elif e[0] == 'labels':
            cur = blk_ref[e[1][1]] if e[1][0] == 'blk' else deco_ref[e[1][1]]
            want = tl_py_labels(cur, e[2], e[3])
            res = e[4]
            if want is None:
                if res[0] != 'x' or type(res[1]) is not ValueError:
                    problems.append((SIG_TL_CALL, 'labels(%s, %s) on a timer referring to %s: ValueError expected, got %r' % (e[2], e[3], cur, res)))
            else:
                if res[0] != 'r':
                    problems.append((SIG_TL_CALL, 'labels(%s, %s) on a timer referring to %s raised %r' % (e[2], e[3], cur, res[1])))
                elif res[1] is not None:
                    problems.append((SIG_TL_CALL, 'Timer.labels returned %r, not None' % (res[1],)))
                if e[1][0] == 'blk':
                    blk_ref[e[1][1]] = want
                else:
                    deco_ref[e[1][1]] = want
        elif e[0] == 'bodyend':
            body_out[e[1]] = e[2]
        elif e[0] == 'end':
            bid, g = e[1], e[2]
            ref = blk_ref[bid]
            b = body_out.get(bid)
            if b is None or bid not in t0 or bid not in t1:
                problems.append((SIG_TL_CLOCK, 'block %d: body ran %s, entry reading %s, exit reading %s' % (bid, b is not None, t0.get(bid), t1.get(bid))))
                continue
            if ref[0] != 'P':
                if g[0] != b[0] or g[1] is not b[1]:
                    problems.append((SIG_TL_OUTCOME, 'block %d on %s: body %s %r, the caller saw %s %r' % (
                        bid, ref, 'returned' if b[0] == 'r' else 'raised', b[1], 'a return of' if g[0] == 'r' else 'a raise of', g[1])))
                expected.setdefault(tl_refkey(ref), []).append(max(t1[bid] - t0[bid], 0))
            else:
                unl += 1
                if g[0] != 'x' or type(g[1]) is not ValueError or g[1] is b[1]:
                    problems.append((SIG_TL_OUTCOME, 'block %d: timer still on labelled parent %s at exit: ValueError expected, caller saw %r' % (bid, ref, g)))
    # the metrics
    for key in set(final) | set(expected):
        durs = expected.get(key, [])
        have = final.get(key)
        if have is None:
            problems.append((SIG_TL_OBS, '%s: %d observations expected, the child does not exist' % (key, len(durs))))
        elif isinstance(have, tuple):
            if have != (len(durs), sum(durs)):
                problems.append((SIG_TL_OBS, '%s: count/sum %s, the blocks that ended on it lasted %s' % (key, have, durs)))
        elif have != (durs[-1] if durs else 0):
            problems.append((SIG_TL_OBS, 'gauge %s holds %s, the blocks that ended on it lasted %s' % (key, have, durs)))
    return problems, unl, expected


def tl_enc_ref(ref):
    if ref[0] == 'p':
        return ['p', str(ref[1])]
    if ref[0] == 'P':
        ns = tl_names(ref[1])
        return ['P', str(ref[1]), str(len(ns))] + [str(n) for n in ns]
    return ['c', str(ref[1]), str(len(ref[2]))] + [str(v) for v in ref[2]]


def tl_enc_out(o):
    return ['r', str(o[1])] if o[0] == 'r' else ['x', str(o[1]), str(CLS_NO[o[2]])]


def tl_enc_prog(prog):
    toks = [str(len(prog))]
    for st in prog:
        if st[0] == 'A':      # the model's program is the one without the caller's exception state
            st = st[2]
        if st[0] in ('L', 'D'):
            toks += [st[0], str(st[1]), str(len(st[2]))] + [str(v) for v in st[2]] + [str(len(st[3]))]
            for n, v in st[3]:
                toks += [str(n), str(v)]
        elif st[0] == 'W':
            toks += ['W'] + tl_enc_ref(st[1]) + [str(tl_kind(st[1][1])), '1' if st[2] else '0'] + tl_enc_prog(st[3]) + tl_enc_out(st[4])
        else:
            toks += ['F', str(st[1]), '1' if st[2] else '0'] + tl_enc_prog(st[3]) + tl_enc_out(st[4])
    return toks


def tl_enc_case(case):
    toks = [str(len(case['decos']))]
    for ref in case['decos']:
        toks += tl_enc_ref(ref) + [str(tl_kind(ref[1]))]
    return ','.join(toks + tl_enc_prog(case['prog']) + tl_enc_out(case['out']))


def tl_enc_got(g):
    if g[0] == 'r':
        return 'r:%s' % (0 if g[1] is None else getattr(g[1], 'i', None))
    s = str(g[1].args[0]) if getattr(g[1], 'args', None) else ''
    ident = int(s.split(' ')[1]) if s.startswith('exc ') else 0
    return 'x:%d:%d' % (ident, CLS_NO.get(type(g[1]).__name__, -1))


def tl_real_ref(metric):
    i = int(metric._name[2:]) if metric._name.startswith('tl') else -1
    if not metric._labelnames:
        return 'p.%d' % i
    if metric._labelvalues:
        return '.'.join(['c', str(i)] + list(metric._labelvalues))
    return '.'.join(['P', str(i)] + [str(TL_LNAMES.index(n)) for n in metric._labelnames])


def run_tl_case(ctx, case, reqs, pend):
    runner = TLRunner(case)
    got = runner.run()
    final = runner.w.read()
    problems, unl, expected = tl_oracle(case, runner.events, got, final)
    for sig, what in problems[:3]:
        report(ctx, sig, what, case)
    enc = tl_enc_case(case)
    nlab = sum(1 for e in runner.events if e[0] == 'labels')
    ctx.case(nontrivial_key=('tl', enc, tuple(case['clock'])) if nlab or unl else None,
             sample={'program': enc, 'clock': case['clock'], 'observed': {'.'.join(map(str, k)): v for k, v in expected.items()}})
    ctx.count('tl:blocks', runner.nb)
    ctx.count('tl:labels-calls', nlab)
    ctx.count('tl:ambient-statements', runner.n_amb)
    ctx.count('tl:labels-calls-raising', sum(1 for e in runner.events if e[0] == 'labels' and e[4][0] == 'x'))
    ctx.count('tl:unlabelled-parent-raises-at-exit', unl)
    ctx.count('tl:unlabelled-parent-replaces-body-exception',
              sum(1 for e in runner.events if e[0] == 'end' and e[2][0] == 'x' and type(e[2][1]) is ValueError
                  and isinstance(e[2][1].__context__, BaseException) and 'missing label values' in str(e[2][1])
                  and str(e[2][1].__context__).startswith('exc ')))
    reqs.append('c16 tl %s %s' % (enc, lib.enc_list([str(x) for x in case['clock']])))
    ends = [tl_enc_got(e[2]) for e in runner.events if e[0] == 'end']
    decos = [tl_real_ref(getattr(T, '_metric', None)) for T in runner.decos]
    pend.append(('tl', case, tl_enc_got(got), final, ends, decos))


def compare_tl(ctx, item, reply):
    _, case, got, final, ends, decos = item
    rep = reply.split(' ')
    if rep[0] != 'ok':
        ctx.diverge('driver: %s' % reply, case)
        return
    ctx.traces += 1
    if rep[1] != got:
        ctx.diverge('timer-labels outcome: model %s, implementation %s' % (rep[1], got), case)
    agg = {}
    for ent in lib_declist(rep[2]):
        ref, k, d = ent.split(':')
        parts = ref.split('.')
        key = (parts[0], int(parts[1])) + tuple(parts[2:])
        agg.setdefault(key, []).append(int(d))
    real = {}
    for key, have in final.items():
        if isinstance(have, tuple):
            if have[0]:
                real[key] = (have[0], have[1])
        elif have != 0 or key in agg:
            real[key] = have
    model = {}
    for key, ds in agg.items():
        model[key] = (len(ds), sum(ds)) if tl_kind(key[1]) == 1 else ds[-1]
    for key in model:
        if tl_kind(key[1]) == 0 and model[key] == 0 and key not in real:
            real[key] = 0
    if model != real:
        ctx.diverge('timer-labels observations per child: model %s, implementation %s' % (sorted(model.items()), sorted(real.items())), case)
    if lib_declist(rep[3]) != ends:
        ctx.diverge('timer-labels block outcomes: model %s, implementation %s' % (rep[3], ';'.join(ends)), case)
    if lib_declist(rep[4]) != decos:
        ctx.diverge('decorator-level timers refer to: model %s, implementation %s' % (rep[4], ';'.join(decos)), case)


def tl_gen_args(rng, ref_hint):
    """labels() arguments: mostly valid for a parent with the hinted arity, by position or by keyword; some near misses"""
    names = tl_names(ref_hint) or [0]
    vals = [rng.randint(1, 4) for _ in names]
    t = rng.random()
    if t < 0.4:
        return vals, []
    if t < 0.8:
        kw = [[n, v] for n, v in zip(names, vals)]
        rng.shuffle(kw)
        return [], kw
    m = rng.randrange(5)
    if m == 0:
        return vals + [1], []
    if m == 1:
        return vals[:-1], []
    if m == 2:
        return [], [[2, 1]] + [[n, v] for n, v in zip(names, vals)][1:]
    if m == 3:
        return vals, [[names[0], 1]]
    return [], [[n, v] for n, v in zip(names, vals)][:-1] if len(names) > 1 else [[1, 3]]


def tl_gen_ref(rng):
    t = rng.random()
    if t < 0.7:
        return ['P', rng.randrange(3)]
    if t < 0.85:
        return ['p', rng.choice([3, 4])]
    m = rng.randrange(3)
    return ['c', m, [rng.randint(1, 4) for _ in tl_names(m)]]


def tl_gen_out(rng, ids):
    ids[0] += 1
    return ['r', ids[0]] if rng.random() < 0.6 else ['x', ids[0], rng.choice(CLASSES)]


def tl_gen_prog(rng, depth, env, decos, ids, top=False):
    """env: metric index of the timers bound by the enclosing with-blocks, innermost first"""
    prog = []
    for _ in range(rng.choice([1, 2, 3, 4] if top else [0, 1, 1, 2, 2, 3])):
        t = rng.random()
        if env and t < 0.45:
            up = 0 if rng.random() < 0.75 else rng.randrange(len(env))
            pos, kw = tl_gen_args(rng, env[up])
            prog.append(['L', up, pos, kw])
        elif decos and t < (0.6 if env else 0.3):
            d = rng.randrange(len(decos))
            pos, kw = tl_gen_args(rng, decos[d][1])
            prog.append(['D', d, pos, kw])
        elif depth < 3:
            sw = rng.random() < (0.8 if top else 0.4)
            if decos and rng.random() < 0.4:
                d = rng.randrange(len(decos))
                prog.append(['F', d, sw, tl_gen_prog(rng, depth + 1, env, decos, ids), tl_gen_out(rng, ids)])
            else:
                ref = tl_gen_ref(rng)
                prog.append(['W', ref, sw, tl_gen_prog(rng, depth + 1, [ref[1]] + env, decos, ids), tl_gen_out(rng, ids)])
            if rng.random() < 0.25:
                prog[-1] = ['A', gen_ambient(rng), prog[-1]]
    return prog


def tl_count_blocks(prog):
    prog = [st[2] if st[0] == 'A' else st for st in prog]
    return sum(1 + tl_count_blocks(st[3]) for st in prog if st[0] in ('W', 'F'))


def gen_tl_case(rng):
    decos = [tl_gen_ref(rng) for _ in range(rng.choice([0, 1, 1, 2]))]
    ids = [0]
    prog = tl_gen_prog(rng, 0, [], decos, ids, top=True)
    case = {'kind': 'tl', 'decos': decos, 'prog': prog, 'out': tl_gen_out(rng, ids), 'clock': gen_clock(rng, 2 * tl_count_blocks(prog) + 1)}
    if rng.random() < 0.2:
        case['amb'] = gen_ambient(rng)
    return case


def corpus_tl():
    P0, P1, P2 = ['P', 0], ['P', 1], ['P', 2]
    cases = [
        # the documented usage: with HISTOGRAM.time() as t: …; t.labels('a') / t.labels(method='GET')
        {'decos': [], 'prog': [['W', P0, False, [['L', 0, [1], []]], ['r', 1]]], 'out': ['r', 9], 'clock': [1, 4]},
        {'decos': [], 'prog': [['W', P1, False, [['L', 0, [], [[1, 2], [0, 1]]]], ['r', 1]]], 'out': ['r', 9], 'clock': [1, 4]},
        {'decos': [], 'prog': [['W', P2, False, [['L', 0, [], [[0, 3]]]], ['x', 1, 'KeyboardInterrupt']]], 'out': ['r', 9], 'clock': [7, 2]},
        # never labelled: ValueError at exit; the body's return value is lost / the body's exception is replaced
        {'decos': [], 'prog': [['W', P0, True, [], ['r', 1]], ['W', P0, True, [], ['x', 2, 'KeyError']]], 'out': ['r', 9], 'clock': [1, 4, 5, 9]},
        # two labels() calls: the second raises inside the body, the observation goes to the first child
        {'decos': [], 'prog': [['W', P0, True, [['L', 0, [1], []], ['L', 0, [2], []]], ['r', 1]]], 'out': ['r', 9], 'clock': [1, 4]},
        # failing labels() (wrong count / wrong name / both kinds), then a good one
        {'decos': [], 'prog': [['W', P1, True, [['W', ['p', 3], True, [['L', 1, [1], []]], ['r', 1]], ['L', 0, [], [[0, 1], [2, 2]]]], ['r', 2]],
                               ['W', P1, True, [['W', ['p', 4], True, [['L', 1, [1], [[1, 2]]]], ['r', 3]], ['L', 0, [1, 2], []]], ['r', 4]]],
         'out': ['r', 9], 'clock': [0, 1, 2, 3, 10, 11, 13, 17]},
        # nesting: the inner block labels the outer timer by keyword and itself by position
        {'decos': [], 'prog': [['W', P0, False, [['W', P1, True, [['L', 1, [], [[0, 3]]], ['L', 0, [4, 2], []]], ['x', 3, 'KeyboardInterrupt']]], ['r', 5]]],
         'out': ['r', 9], 'clock': [0, 10, 9, 30]},
        # labels() on a plain metric / a child: raises in the body, the block still observes
        {'decos': [], 'prog': [['W', ['p', 3], True, [['L', 0, [1], []]], ['r', 1]], ['W', ['c', 0, [2]], True, [['L', 0, [3], []]], ['r', 2]]],
         'out': ['r', 9], 'clock': [1, 2, 3, 5]},
        # decorator: unlabelled call raises; T.labels(l=3) re-binds the later calls; a second T.labels raises
        {'decos': [P0], 'prog': [['F', 0, True, [], ['r', 1]], ['D', 0, [], [[0, 3]]], ['F', 0, True, [], ['x', 2, 'SystemExit']],
                                 ['F', 0, True, [['D', 0, [4], []]], ['r', 3]]], 'out': ['r', 9], 'clock': [0, 1, 10, 12, 20, 25]},
        # the body of the first call labels the decorator-level timer: too late for that call, in time for the next
        {'decos': [P2], 'prog': [['F', 0, True, [['D', 0, [1], []]], ['r', 1]], ['F', 0, False, [], ['r', 2]]], 'out': ['r', 9], 'clock': [0, 1, 10, 12]},
        # recursion-like nesting of decorated calls with a labels() in between
        {'decos': [P1, ['p', 4]], 'prog': [['D', 0, [1, 2], []], ['F', 0, False, [['F', 1, True, [['F', 0, False, [], ['r', 1]]], ['x', 2, 'GeneratorExit']]], ['r', 3]]],
         'out': ['x', 4, 'ValueError'], 'clock': [5, 6, 7, 7, 3, 20]},
    ]
    for c in cases:
        c['kind'] = 'tl'
    return cases

# ================================================================================================ corpus
def F(name='f', posonly=(), pos=(), nd=0, varargs=None, kwonly=(), kwd=(), varkw=None, mkind='function', **kw):
    d = {'name': name, 'posonly': list(posonly), 'pos': list(pos), 'ndefaults': nd, 'varargs': varargs, 'kwonly': list(kwonly),
         'kwdefaults': list(kwd), 'varkw': varkw, 'ann': {}, 'doc': None, 'mkind': mkind, 'attrs': False}
    d.update(kw)
    return d


def corpus_sig():
    return [
        # F13 and relatives
        {'kind': 'sig', 'spec': F(posonly=['a'], varkw='kw'), 'wrapper': 'time-summary', 'calls': [[[1], [['a', 2]]]]},
        {'kind': 'sig', 'spec': F(name='g', posonly=['a'], nd=1, varkw='kw'), 'wrapper': 'inprogress', 'calls': [[[], [['a', 5]]]]},
        {'kind': 'sig', 'spec': F(name='h', posonly=['a']), 'wrapper': 'count-default', 'calls': [[[], [['a', 1]]], [[1], []]]},
        {'kind': 'sig', 'spec': F(name='k', kwonly=['_call_']), 'wrapper': 'time-gauge', 'calls': [[[], [['_call_', 3]]]]},
        {'kind': 'sig', 'spec': F(name='k2', kwonly=['_func_'], kwd=['_func_']), 'wrapper': 'time-histogram', 'calls': [[[], []]]},
        {'kind': 'sig', 'spec': F(name='q', varkw='kw'), 'wrapper': 'inprogress', 'calls': [[[], [['func', 1]]], [[], [['zz', 1]]]]},
        {'kind': 'sig', 'spec': F(name='q2', pos=['func'], kwonly=['x']), 'wrapper': 'count-tuple', 'calls': [[[], [['func', 1], ['x', 2]]]]},
        {'kind': 'sig', 'spec': F(name='q3', kwonly=['func']), 'wrapper': 'time-summary', 'calls': [[[], [['func', 1]]]]},
        {'kind': 'sig', 'spec': F(name='k3', pos=['_call_']), 'wrapper': 'time-summary', 'calls': [[[1], []]]},
        {'kind': 'sig', 'spec': F(name='_func_'), 'wrapper': 'time-summary', 'calls': [[[], []]]},
        {'kind': 'sig', 'spec': F(name='k4', varkw='_call_'), 'wrapper': 'count-tuple', 'calls': [[[], [['z', 1]]]]},
        {'kind': 'sig', 'spec': F(name='<lambda>', pos=['x']), 'wrapper': 'time-summary', 'calls': [[[4], []], [[], [['x', 4]]]]},
        {'kind': 'sig', 'spec': F(name='documented', pos=['x'], doc='Summary line.\n\n        Indented with the code,\n            deeper here.\n        '),
         'wrapper': 'time-summary', 'calls': [[[1], []]]},
        {'kind': 'sig', 'spec': F(name='blank_doc', pos=['x'], doc='    \n   '), 'wrapper': 'count-default', 'calls': [[[1], []]]},
        {'kind': 'sig', 'spec': F(name='tab_doc', doc='\n\tTabbed.\n\t'), 'wrapper': 'inprogress', 'calls': [[[], []]]},
        # everything at once
        {'kind': 'sig', 'spec': F(posonly=['a', 'b'], pos=['c', 'd'], nd=2, varargs='args', kwonly=['k', 'l'], kwd=['l'], varkw='kw',
                                  ann={'a': 'int', 'return': 'R', 'args': 'x', 'kw': 'not python ('}, doc='doc', attrs=True),
         'wrapper': 'time-summary-child',
         'calls': [[[1, 2, 3, 4, 5], [['z', 6], ['k', 7]]], [[1, 2], [['d', 6], ['k', 7]]], [[1, 2], [['d', 6]]], [[1], [['k', 2]]],
                   [[1, 2, 3], [['c', 4], ['k', 5]]], [[1, 2], [['k', 3], ['l', 4], ['c', 5]]]]},
        {'kind': 'sig', 'spec': F(name='m', posonly=['self', 'x'], pos=['y'], nd=1, kwonly=['z'], kwd=['z'], mkind='method'),
         'wrapper': 'count-child', 'calls': [[[1], []], [[1, 2], [['z', 3]]], [[], [['x', 1]]], [[1, 2, 3], []]]},
        {'kind': 'sig', 'spec': F(name='cm', pos=['cls', 'x'], mkind='classmethod'), 'wrapper': 'inprogress-child',
         'calls': [[[1], []], [[], [['x', 1]]], [[], []]]},
        {'kind': 'sig', 'spec': F(name='sm', pos=['x'], varargs='rest', kwonly=['k'], mkind='staticmethod'), 'wrapper': 'count-class',
         'calls': [[[1, 2, 3], [['k', 4]]], [[1], []]]},
    ]


def T(m, mode='dec'):
    return {'t': 'T', 'm': m, 'mode': mode}


def I(g, use='dec'):
    return {'t': 'I', 'g': g, 'use': use}


def E(c, cls='default', use='dec'):
    return {'t': 'E', 'c': c, 'cls': cls, 'use': use}


def CALL(ws, body, spec=None, args=None, amb=None):
    c = {'ws': ws, 'body': body, 'spec': spec or F(), 'args': args or [[], []]}
    if amb:
        c['amb'] = amb
    return c


def corpus_exec():
    out = lambda o: {'k': 'out', 'o': o}
    rec = lambda n, o: {'k': 'rec', 'n': n, 'o': o}
    nest = lambda cs, o, sw=False: {'k': 'nest', 'sw': sw, 'cs': cs, 'o': o}
    cases = [
        # re-entrancy: readings 0, 10, 11, 20 around a function that recurses once -> outer 20, inner 1
        {'tree': CALL([T('S0')], rec(1, ['r', 1])), 'clock': [0, 10, 11, 20]},
        {'tree': CALL([T('H1')], rec(3, ['x', 1, 'KeyError'])), 'clock': [0, 10, 11, 20, 40, 41, 45, 100]},
        {'tree': CALL([T('G0')], rec(2, ['r', 1])), 'clock': [5, 6, 7, 9, 12, 20]},
        # one Timer object entered twice (outside the property; model vs implementation only)
        {'tree': CALL([T('S0', 'shared')], rec(1, ['r', 1])), 'clock': [0, 10, 11, 20]},
        # clock going backwards / standing still, body raising
        {'tree': CALL([T('S1'), T('G1', 'new')], out(['x', 1, 'SystemExit'])), 'clock': [9, 8, 4, 1]},
        {'tree': CALL([T('H0', 'new')], out(['r', 1])), 'clock': [3, 3]},
        {'tree': CALL([T('H0')], out(['r', 1])), 'clock': []},
        # in-progress with every BaseException subclass, nesting and recursion
        {'tree': CALL([I('P0')], out(['x', 1, 'KeyboardInterrupt'])), 'clock': [], 'prior': {'P0': 3}},
        {'tree': CALL([I('P1', 'cm'), I('P1')], rec(4, ['x', 1, 'GeneratorExit'])), 'clock': [], 'prior': {'P1': -2}},
        {'tree': CALL([I('P0', 'cmnew')], nest([CALL([I('P0')], out(['x', 1, 'ValueError'])), CALL([I('P0')], out(['r', 2]))], ['r', 3], True)),
         'clock': [], 'prior': {'P0': 7}},
        # priors where +1/-1 is inexact in doubles: 0.1 -> 0.10000000000000009, 2**53 -> 2**53 - 1
        {'tree': CALL([I('P0', 'cm')], out(['r', 1])), 'clock': [], 'prior': {'P0': 0.1}},
        {'tree': CALL([I('P0'), I('P0', 'cmnew')], rec(2, ['x', 1, 'SystemExit'])), 'clock': [], 'prior': {'P0': float(2 ** 53), 'P1': 2.5}},
        {'tree': CALL([I('P1')], nest([CALL([I('P1')], out(['x', 2, 'KeyError']))], ['r', 1], True)), 'clock': [], 'prior': {'P1': -0.3}},
        # exception counting: default Exception does not count KeyboardInterrupt; tuples; subclass test
        {'tree': CALL([E('K0')], out(['x', 1, 'KeyboardInterrupt'])), 'clock': []},
        {'tree': CALL([E('K0')], out(['x', 1, 'KeyError'])), 'clock': [], 'prior': {'K0': 4}},
        {'tree': CALL([E('K1', ['ValueError', 'LookupError'], 'cm')], out(['x', 1, 'KeyError'])), 'clock': []},
        {'tree': CALL([E('K1', ['KeyError'])], out(['x', 1, 'LookupError'])), 'clock': []},
        {'tree': CALL([E('K0', ['BaseException']), E('K0', ['SystemExit']), E('K1')], rec(2, ['x', 1, 'SystemExit'])), 'clock': []},
        {'tree': CALL([E('K0')], nest([CALL([E('K0')], out(['x', 1, 'ValueError']))], ['r', 2], True)), 'clock': []},
        # exception groups (3.11+): counted iff the GROUP OBJECT is an instance of the configured classes, whatever it contains
    ] + ([
        {'tree': CALL([E('K0', ['ValueError'])], out(['x', 1, 'ExceptionGroup', ['ValueError']])), 'clock': []},
        {'tree': CALL([E('K0', ['ValueError'], 'cm')], out(['x', 1, 'ExceptionGroup', ['ValueError', 'KeyError']])), 'clock': []},
        {'tree': CALL([E('K1')], out(['x', 1, 'BaseExceptionGroup', ['KeyboardInterrupt', 'KeyError']])), 'clock': []},
        {'tree': CALL([E('K1', 'default', 'cm')], out(['x', 1, 'BaseExceptionGroup', ['SystemExit', 'LookupError']])), 'clock': []},
        {'tree': CALL([E('K0')], out(['x', 1, 'ExceptionGroup', ['ValueError']])), 'clock': [], 'prior': {'K0': 2}},
        {'tree': CALL([E('K0', ['KeyError'])], out(['x', 1, 'ExceptionGroup', ['Exception', {'g': 'ExceptionGroup', 'l': ['LookupError', {'g': 'ExceptionGroup', 'l': ['KeyError']}]}]])), 'clock': []},
        {'tree': CALL([E('K0', ['ValueError']), E('K1', ['ExceptionGroup'], 'cm')], out(['x', 1, 'ValueGroup', ['KeyError']])), 'clock': []},
        {'tree': CALL([E('K0', ['ExceptionGroup'])], out(['x', 1, 'ValueError'])), 'clock': []},
        {'tree': CALL([E('K0', ['ExceptionGroup']), E('K1', ['BaseExceptionGroup'])], rec(2, ['x', 1, 'ExceptionGroup', ['ValueError']])), 'clock': []},
        {'tree': CALL([E('K0', ['ExceptionGroup'], 'cm')], out(['x', 1, 'BaseExceptionGroup', ['GeneratorExit', 'ValueError']])), 'clock': []},
        {'tree': CALL([E('K0', ['ValueError', 'LookupError']), E('K1', ['KeyError', 'BaseExceptionGroup'], 'cm')],
                      nest([CALL([E('K0', ['KeyError'])], out(['x', 1, 'BaseExceptionGroup', ['KeyboardInterrupt', 'KeyError']]))], ['r', 2])), 'clock': []},
    ] if HAVE_GROUPS else []) + [
        # ambient exception state: the call is made while the CALLER handles / unwinds an exception; only what escapes the
        # wrapped code counts — a successful call in a handler (cleanup / retry path), matching and not matching classes
        {'tree': CALL([E('K0')], out(['r', 1]), amb=[['except', 'ValueError']]), 'clock': []},
        {'tree': CALL([E('K0', ['KeyError'])], out(['r', 1]), amb=[['except', 'ValueError']]), 'clock': [], 'prior': {'K0': 2}},
        {'tree': CALL([E('K1', ['KeyError'], 'cm')], out(['r', 1]), amb=[['except', 'KeyError']]), 'clock': []},
        {'tree': CALL([E('K1', ['ValueError', 'LookupError'])], out(['r', 1]), amb=[['finally', 'KeyError']]), 'clock': []},
        {'tree': CALL([E('K0', ['BaseException'])], out(['r', 1]), amb=[['exit', 'KeyboardInterrupt']]), 'clock': []},
        {'tree': CALL([E('K0')], out(['r', 1]), amb=[['except', 'SystemExit'], ['except', 'ValueError'], ['past', 'KeyError']]), 'clock': []},
        {'tree': CALL([E('K0')], out(['r', 1]), amb=[['past', 'ValueError']]), 'clock': []},
        # the call raises inside the handler: counted once by its own class, whatever the caller was handling
        {'tree': CALL([E('K0', ['KeyError'])], out(['x', 1, 'ValueError']), amb=[['except', 'KeyError']]), 'clock': []},
        {'tree': CALL([E('K0', ['KeyError']), E('K1')], out(['x', 1, 'KeyError']), amb=[['finally', 'KeyError']]), 'clock': []},
        # retry: the first call raises and is swallowed, the second call of the same guard succeeds inside a handler;
        # nested guarded calls, timers and trackers under an ambient state
        {'tree': CALL([], nest([CALL([E('K0', ['LookupError'])], out(['x', 1, 'KeyError'])),
                                CALL([E('K0', ['LookupError'])], out(['r', 2]), amb=[['except', 'KeyError']])], ['r', 3], True)), 'clock': []},
        {'tree': CALL([E('K0'), I('P0'), T('S0')], nest([CALL([E('K0'), I('P0', 'cm'), T('H0', 'new')], rec(2, ['r', 1]), amb=[['except', 'ValueError'], ['finally', 'KeyError']])],
                                                       ['x', 2, 'GeneratorExit']), amb=[['exit', 'LookupError']]),
         'clock': [1, 2, 3, 5, 8, 13, 21, 34], 'prior': {'P0': 2}},
        # all three stacked, nested calls, an earlier sibling raising skips the later ones
        {'tree': CALL([E('K0'), I('P0'), T('S0')], nest([CALL([T('S0'), I('P0')], out(['r', 1])),
                                                       CALL([E('K0', ['ValueError']), T('S0', 'new')], out(['x', 2, 'ValueError'])),
                                                       CALL([T('S0')], out(['r', 3]))], ['r', 4])), 'clock': [1, 2, 4, 8, 16, 15, 14, 13]},
    ]
    for c in cases:
        c['kind'] = 'exec'
    return cases


# ================================================================================================ run / replay
def run_batch(ctx, cases):
    reqs, pend = [], []
    for case in cases:
        if case['kind'] == 'sig':
            run_sig_case(ctx, case, reqs, pend)
        elif case['kind'] == 'tl':
            run_tl_case(ctx, case, reqs, pend)
        else:
            run_exec_case(ctx, case, reqs, pend)
    replies = ctx.driver.run(reqs)
    if replies is None:
        return
    for item, reply in zip(pend, replies):
        if item[0] == 'sig':
            compare_sig(ctx, item, reply)
        elif item[0] == 'tl':
            compare_tl(ctx, item, reply)
        else:
            compare_exec(ctx, item, reply)


class _CallableInstance:
    def __call__(self, x):
        return x

    def method(self, x):
        return x


def non_function_callables():
    import functools

    def plain(x):
        return x
    inst = _CallableInstance()
    return [('function', plain), ('instance', inst), ('partial', functools.partial(plain)), ('builtin', len),
            ('boundmethod', inst.method), ('class', _CallableInstance), ('staticmethod', staticmethod(plain))]


def run_non_function_cases(ctx):
    """the property says "any synchronous callable": every kind of callable under each of the three wrappers.  Oracle: the
    wrapper is created and a call returns what the callable returns.  Refusals are reported (C16:non-function-callable-refused)."""
    reqs, pend = [], []
    for wkind in ('time-summary', 'count-default', 'inprogress'):
        for kind, _ in non_function_callables():
            world = World({})
            target = dict(non_function_callables())[kind]
            case = {'kind': 'nonfunc', 'callable': kind, 'wrapper': wkind}
            arg = [1, 2, 3]
            try:
                direct = len(arg) if kind == 'builtin' else None
                w = make_wrapper(world, wkind)(target)
                real = 'ok'
            except Exception as e:
                real = type(e).__name__
                report(ctx, SIG_NONFUNC, '%s()(<%s>) raised %s: %s' % (wkind, kind, real, str(e)[:80]), case)
            else:
                if kind == 'function' and w(arg) is not arg:
                    report(ctx, 'C16:outcome', 'wrapped plain function does not return its argument', case)
            ctx.case(nontrivial_key=('nonfunc', kind, wkind), sample={'callable': kind, 'wrapper': wkind, 'decorating': real})
            ctx.count('callable-kind:%s:%s' % (kind, real))
            reqs.append('c16 deco ' + kind)
            pend.append((case, real))
    replies = ctx.driver.run(reqs)
    if replies is None:
        return
    for (case, real), rep in zip(pend, replies):
        ctx.traces += 1
        if rep != 'ok ' + real:
            ctx.diverge('decorating a %s: model %s, implementation %s' % (case['callable'], rep, real), case)


def labelled_parent_note(ctx):
    """`time()` on a labelled parent is not rejected at creation (Timer.labels() exists for late labelling): the decorated
    call then fails inside __exit__.  Outside the statement ("on a metric or a labelled child"); recorded, not judged."""
    from prometheus_client import Summary
    s = Summary('lp', 'd', ['l'], registry=None)
    try:
        s.time()(lambda: 5)()
        ctx.extra['time_on_labelled_parent'] = 'call returned'
    except ValueError as e:
        ctx.extra['time_on_labelled_parent'] = 'decorated call raises ValueError(%s) from Timer.__exit__ instead of returning' % e


def run(ctx):
    ctx.rule = ('exec: random call trees (depth <= 4, 0-4 wrappers per callable out of time/track_inprogress/count_exceptions on plain '
                'metrics and labelled children, decorator and context-manager use, bodies return / raise any of 8 classes / nest '
                '1-3 calls with or without swallowing / recurse 1-4 (thorough: up to 40) deep) x scripted clocks (rising, standing '
                'still, falling, random walk, exhausted); sig: random ArgSpecs (0-2 positional-only, 0-3 positional, defaults, '
                '*args, 0-2 keyword-only, kw-defaults, **kw, annotations, doc, function/method/classmethod/staticmethod) x 10 wrapper '
                'kinds x 12 call shapes derived from the ArgSpec (8 meant to bind, 4 near misses); a case is non-trivial when the '
                'tree has at least one wrapper or nested call / for sig always; distinct by (tree, clock, ambient) / (spec, call, wrapper); '
                'ambient: 40 % of root calls, 25 % of nested calls (every recursion level), 25 % of tl blocks / decorated calls and '
                '20 % of tl programs run under 1-3 nested frames of the caller (inside except / inside finally during propagation / '
                'inside __exit__ of a with-block unwinding / after a completed handler) x any of the 8 (+3 group) classes, half of them '
                'drawn from the classes configured on the call\'s own count_exceptions wrappers; '
                'tl: random Timer.labels programs (0-2 decorator-level timers and with-blocks on labelled Summary/Histogram/Gauge '
                'parents, plain metrics and children; per block 0-3 statements out of t.labels()/T.labels() by position or keyword, '
                'valid or wrong count/name/both kinds, on the own, an outer or the decorator-level timer, nested blocks and decorated '
                'calls to depth 3; bodies return or raise any of 8 classes, swallowed or not) x scripted clocks; non-trivial when a '
                'labels() call ran or a block ended on a labelled parent')
    rng = ctx.rng
    quick = ctx.tier == 'quick'
    n_exec = 700 if quick else 12000
    n_sig = 260 if quick else 5000
    if ctx.broken:
        n_exec *= 2
        n_sig *= 2
    labelled_parent_note(ctx)
    run_non_function_cases(ctx)
    run_batch(ctx, corpus_exec() + corpus_sig() + corpus_tl())
    cases = []
    n_tl = 500 if quick else 8000
    if ctx.broken:
        n_tl *= 2
    for i in range(n_tl):
        cases.append(gen_tl_case(rng))
    for i in range(n_exec):
        ids = [0]
        tree = gen_call(rng, 0, ids, shared_ok=(i % 10 == 0), maxrec=4 if quick or i % 7 else 40)
        prior = {k: rng.randint(-3, 9) for k in GAUGE_KEYS}
        if i % 4 == 1:
            prior.update({k: rng.choice(FLOAT_PRIORS) for k in ('P0', 'P1') if rng.random() < 0.8})
        prior.update({k: rng.randint(0, 5) for k in CNT_KEYS})
        prior.update({k: rng.randint(0, 2) for k in OBS_KEYS})
        cases.append({'kind': 'exec', 'tree': tree, 'clock': gen_clock(rng, 2 * n_timers(tree) + 1), 'prior': prior})
    for i in range(n_sig):
        spec = gen_spec(rng)
        calls = gen_calls(rng, spec)
        cases.append({'kind': 'sig', 'spec': spec, 'wrapper': WRAPPER_KINDS[i % len(WRAPPER_KINDS)],
                      'calls': [[p, [list(x) for x in k]] for p, k in calls]})
    for i in range(0, len(cases), 400):
        run_batch(ctx, cases[i:i + 400])
        if sum(1 for f in ctx.failures if f['sig'] not in KNOWN_SHAPES) >= 40:
            break


def replay(ctx, case):
    c = case.get('case', case)
    print('REPLAY case:', json.dumps(c)[:2000])
    if c['kind'] == 'nonfunc':
        run_non_function_cases(ctx)
        ctx.failures = [f for f in ctx.failures if f['case'] == c]
        for f in ctx.failures:
            print('REPLAY-FAIL', f['sig'], f['what'])
        return 1 if ctx.failures else 0
    if c['kind'] == 'sig':
        print('  generated:', spec_source(c['spec'])[0].split('\n')[0], ' wrapper:', c['wrapper'])
    elif c['kind'] == 'tl':
        print('  program:', tl_enc_case(c), ' clock:', c['clock'])
    else:
        print('  tree:', ','.join(enc_tree(c['tree'], [0])), ' clock:', c['clock'])
    run_batch(ctx, [c])
    for f in ctx.failures:
        print('REPLAY-FAIL', f['sig'], f['what'])
    for f in ctx.divergences:
        print('REPLAY-DIVERGE', f['what'])
    return 1 if ctx.failures or ctx.divergences else 0
