"""C07, families part — the custom-collector API of metrics_core.py (the eight *MetricFamily constructors + add_metric).

Cases: one constructor call (any class; valid and invalid argument combinations: value and labels both given, count
without sum, sum without buckets, empty bucket lists, names ending in _total, units, names invalid under legacy
validation) followed by 0-4 add_metric calls (right / too few / too many label values, repeated label names, `le` or the
family name among the label names, created / sum / gsum / timestamp / exemplar present or absent, empty buckets,
malformed or negative first bound).

Oracles on the real objects, written without the Lean model:
  * every sample name of the family is among CollectorRegistry(auto_describe=True)._get_names(c) for a collector c
    returning the family (and among the names of a registry with auto_describe off when c.describe() returns the same
    constructor call without samples)                                            C07:family-sample-name-unclaimed
  * restricted_registry(names).collect() over such a collector is the filter of collect() by sample name (name, type,
    documentation, unit and kept samples unchanged, empty family dropped)        C07:family-restricted-not-filter
  * a `<name>_count` sample appended by HistogramMetricFamily.add_metric carries buckets[-1][1]
                                                                                 C07:family-histogram-count-not-last-bucket
  * CounterMetricFamily(n + '_total', …) == CounterMetricFamily(n, …)            C07:family-counter-total-not-stripped
  * add_metric leaves the earlier samples (same objects, same order), name, type, documentation, unit alone
                                                                                 C07:family-add-metric-alters-earlier
  * with distinct label names, as many values as names and no clash with the extra label, the labels of every appended
    sample start with zip(labelnames, values) in that order; a bucket sample ends with `le`, a state sample with the
    family name                                                                  C07:family-labels-not-zip
T2: the same call sequence goes to the driver (module "fam"); error classes, family head and the full sample list
(names, label pairs in order, values by bits / identity tokens, timestamps, exemplars) are compared.
"""
import lib

CLASSES = {'U': 'UnknownMetricFamily', 'C': 'CounterMetricFamily', 'G': 'GaugeMetricFamily', 'S': 'SummaryMetricFamily',
           'H': 'HistogramMetricFamily', 'Q': 'GaugeHistogramMetricFamily', 'I': 'InfoMetricFamily',
           'E': 'StateSetMetricFamily'}
NAMES = ['x', 'c_total', 'a_total_total', 'm_sec', 'h', 'req_bytes', 'e', 'job:rate', 'x', 'h', '', '_total',
         'with space', '1abc', 'mü', 'total']
UNITS = ['', '', '', 'sec', 'total', 'bytes']
DOCS = ['', 'help', 'two\nlines', 'döc']
LNAMES = ['a', 'b', 'le', 'quantile', 'x', 'e', 'h', 'l']
LVALUES = ['1', 'x', '', 'on', 'väl', 'a b']
BOUNDS = ['0.5', '1.0', '+Inf', '-1', '0', '-0.0', 'x', '', 'nan', '1e3', ' 2 ', 'inf', '-inf', '5']
STATES = ['on', 'off', 'a', 'B', 'starting', '']
FLOATS = [0.0, -0.0, 1.0, 2.5, -3.0, 1e300, float('inf'), float('-inf'), float('nan'), 7.0, 12.0]


def _pools():
    from prometheus_client.samples import Exemplar, Timestamp
    ts = [1.5, 0.0, Timestamp(3, 500), 1700000000.25, Timestamp(0, 0)]
    ex = [Exemplar({'trace': 'abc'}, 1.0, 2.0), Exemplar({}, 0.5), Exemplar({'a': 'b'}, 3.0, None)]
    return ts, ex


TS, EX = None, None


def obj(tok):
    """token -> Python object"""
    if tok is None:
        return None
    if tok[0] == 'f':
        return lib.from_bits(int(tok[1:]))
    if tok[0] == 't':
        return TS[int(tok[1:])]
    if tok[0] == 'e':
        return EX[int(tok[1:])]
    raise ValueError(tok)


def tok_of(o):
    """Python object found in a sample -> token (objects are stored as given, so pool members are found by identity)"""
    for i, t in enumerate(TS):
        if o is t:
            return 't%d' % i
    for i, e in enumerate(EX):
        if o is e:
            return 'e%d' % i
    if isinstance(o, float):
        return 'f%d' % lib.bits_of(o)
    return 'unknown-object-%s' % type(o).__name__


def ftok(rng):
    return 'f%d' % lib.bits_of(rng.choice(FLOATS))


def opt(rng, p, f):
    return f() if rng.random() < p else None


# ------------------------------------------------------------------------------------------------ generation
def gen_labels_arg(rng, labelnames):
    k = len(labelnames)
    r = rng.random()
    if r < 0.7:
        n = k
    elif r < 0.85:
        n = max(0, k - rng.choice([1, 1, 2]))
    else:
        n = k + rng.choice([1, 2])
    return [rng.choice(LVALUES) for _ in range(n)]


def gen_buckets(rng, triples):
    r = rng.random()
    if r < 0.1:
        return []
    if r < 0.65:
        bounds = rng.choice([['0.5', '1.0', '+Inf'], ['1.0', '+Inf'], ['+Inf'], ['-1', '0', '+Inf'], ['0', '5', 'inf']])
    else:
        bounds = [rng.choice(BOUNDS) for _ in range(rng.choice([1, 2, 3]))]
    out = []
    for b in bounds:
        e = [b, ftok(rng)]
        if triples and rng.random() < 0.25:
            e.append('e%d' % rng.randrange(3))
        out.append(e)
    return out


def gen_add(rng, cls, labelnames):
    a = {'labels': gen_labels_arg(rng, labelnames), 'ts': opt(rng, 0.3, lambda: 't%d' % rng.randrange(5))}
    if cls in 'UG':
        a['value'] = ftok(rng)
    elif cls == 'C':
        a['value'] = ftok(rng)
        a['created'] = opt(rng, 0.5, lambda: ftok(rng))
        a['exemplar'] = opt(rng, 0.3, lambda: 'e%d' % rng.randrange(3))
    elif cls == 'S':
        a['count'] = ftok(rng)
        a['sum'] = ftok(rng)
    elif cls == 'H':
        a['buckets'] = gen_buckets(rng, True)
        a['sum'] = opt(rng, 0.7, lambda: ftok(rng))
    elif cls == 'Q':
        a['buckets'] = gen_buckets(rng, False)
        a['sum'] = opt(rng, 0.7, lambda: ftok(rng))
    elif cls == 'I':
        ks = rng.sample(LNAMES + ['version', 'k'], rng.choice([0, 1, 2, 3]))
        a['value'] = [[k, rng.choice(LVALUES)] for k in ks]
    elif cls == 'E':
        ks = rng.sample(STATES, rng.choice([0, 1, 2, 3, 4]))
        a['value'] = [[k, rng.random() < 0.5] for k in ks]
    return a


def gen_case(rng, cls=None):
    cls = cls or rng.choice('UCGSHQIE')
    name = rng.choice(NAMES)
    if rng.random() < 0.15:
        name = rng.choice(['x', 'req', 'a_b']) + rng.choice(['_total', '_total_total', '_totals', 'total'])
    c = {'fam': True, 'cls': cls, 'name': name, 'doc': rng.choice(DOCS), 'legacy': rng.random() < 0.3}
    if cls not in 'IE':
        c['unit'] = rng.choice(UNITS)
    r = rng.random()
    if r < 0.5:
        k = rng.choice([0, 1, 1, 2, 2, 3])
        ln = [rng.choice(LNAMES) for _ in range(k)]
        if rng.random() < 0.1 and name:
            ln.append(name)
        c['labels'] = ln
    else:
        c['labels'] = None
    # the "value" arguments of the constructor: mostly absent with labels, mostly present without, sometimes both
    give = rng.random() < (0.12 if c['labels'] is not None else 0.75)
    kw = {}
    if cls in 'UG':
        kw['value'] = ftok(rng) if give else None
    elif cls == 'C':
        kw['value'] = ftok(rng) if give else None
        kw['created'] = opt(rng, 0.4, lambda: ftok(rng))
        kw['exemplar'] = opt(rng, 0.2, lambda: 'e%d' % rng.randrange(3))
    elif cls == 'S':
        kw['count'] = ftok(rng) if give else None
        kw['sum'] = ftok(rng) if (give if rng.random() < 0.85 else not give) else None
    elif cls == 'H':
        kw['buckets'] = gen_buckets(rng, True) if give else None
        kw['sum'] = ftok(rng) if (give if rng.random() < 0.8 else not give) else None
    elif cls == 'Q':
        kw['buckets'] = gen_buckets(rng, False) if give else None
        kw['sum'] = opt(rng, 0.6, lambda: ftok(rng))
    elif cls == 'I':
        kw['value'] = [[k, rng.choice(LVALUES)] for k in rng.sample(LNAMES, rng.choice([0, 1, 2]))] if give else None
    elif cls == 'E':
        kw['value'] = [[k, rng.random() < 0.5] for k in rng.sample(STATES, rng.choice([0, 1, 3]))] if give else None
    c['kw'] = kw
    c['adds'] = [gen_add(rng, cls, c['labels'] or []) for _ in range(rng.choice([0, 1, 1, 2, 2, 3, 4]))]
    return c


CORPUS = [
    # counter named with _total and a unit; histogram whose second call raises after the buckets; state set with too few
    # label values; gauge histogram without gsum; info whose value overrides a label
    {'fam': True, 'cls': 'C', 'name': 'c_total', 'doc': 'help', 'legacy': False, 'unit': 'bytes', 'labels': None,
     'kw': {'value': 'f4607182418800017408', 'created': 'f4611686018427387904', 'exemplar': 'e0'}, 'adds': []},
    {'fam': True, 'cls': 'H', 'name': 'h', 'doc': 'help', 'legacy': True, 'unit': 'sec', 'labels': ['l'], 'kw': {'buckets': None, 'sum': None},
     'adds': [{'labels': ['a'], 'ts': None, 'buckets': [['1.0', 'f4613937818241073152'], ['+Inf', 'f4617315517961601024', 'e1']], 'sum': 'f4619567317775286272'},
              {'labels': ['b'], 'ts': 't2', 'buckets': [['x', 'f4607182418800017408']], 'sum': 'f4611686018427387904'},
              {'labels': ['c'], 'ts': None, 'buckets': [], 'sum': None},
              {'labels': ['d'], 'ts': None, 'buckets': [['-1', 'f0'], ['+Inf', 'f4607182418800017408']], 'sum': 'f0'}]},
    {'fam': True, 'cls': 'E', 'name': 'e', 'doc': '', 'legacy': False, 'labels': ['a', 'b'], 'kw': {'value': None},
     'adds': [{'labels': ['x'], 'ts': None, 'value': [['on', True]]},
              {'labels': ['x', 'y'], 'ts': 't0', 'value': [['on', True], ['off', False]]}]},
    {'fam': True, 'cls': 'Q', 'name': 'gh', 'doc': '', 'legacy': False, 'unit': '', 'labels': None,
     'kw': {'buckets': [['1', 'f4611686018427387904']], 'sum': None}, 'adds': [{'labels': [], 'ts': None, 'buckets': [], 'sum': None}]},
    {'fam': True, 'cls': 'I', 'name': 'build', 'doc': '', 'legacy': False, 'labels': ['a', 'a'], 'kw': {'value': None},
     'adds': [{'labels': ['1', '2'], 'ts': None, 'value': [['a', 'z'], ['version', '1']]}]},
    {'fam': True, 'cls': 'S', 'name': 's', 'doc': '', 'legacy': False, 'unit': '', 'labels': None,
     'kw': {'count': 'f4613937818241073152', 'sum': 'f4617315517961601024'}, 'adds': []},
    {'fam': True, 'cls': 'G', 'name': 'g', 'doc': '', 'legacy': False, 'unit': 'sec', 'labels': [], 'kw': {'value': 'f0'}, 'adds': []},
]


# ------------------------------------------------------------------------------------------------ the real code
def py_buckets(bs):
    return [tuple([b[0], obj(b[1])] + ([obj(b[2])] if len(b) == 3 else [])) for b in bs]


def ctor_kwargs(c, with_values=True):
    cls, kw = c['cls'], c['kw']
    k = {}
    if 'unit' in c:
        k['unit'] = c['unit']
    if not with_values:
        return k
    k['labels'] = c['labels']
    if cls in 'UG':
        k['value'] = obj(kw['value'])
    elif cls == 'C':
        k.update(value=obj(kw['value']), created=obj(kw['created']), exemplar=obj(kw['exemplar']))
    elif cls == 'S':
        k.update(count_value=obj(kw['count']), sum_value=obj(kw['sum']))
    elif cls == 'H':
        k.update(buckets=None if kw['buckets'] is None else py_buckets(kw['buckets']), sum_value=obj(kw['sum']))
    elif cls == 'Q':
        k.update(buckets=None if kw['buckets'] is None else py_buckets(kw['buckets']), gsum_value=obj(kw['sum']))
    elif cls in 'IE':
        k['value'] = None if kw['value'] is None else dict((a, b) for a, b in kw['value'])
    return k


def call_add(fam, cls, a):
    ts = obj(a['ts'])
    if cls in 'UG':
        fam.add_metric(a['labels'], obj(a['value']), ts)
    elif cls == 'C':
        fam.add_metric(a['labels'], obj(a['value']), obj(a['created']), ts, obj(a['exemplar']))
    elif cls == 'S':
        fam.add_metric(a['labels'], obj(a['count']), obj(a['sum']), ts)
    elif cls in 'HQ':
        fam.add_metric(a['labels'], py_buckets(a['buckets']), obj(a['sum']), ts)
    else:
        fam.add_metric(a['labels'], dict((k, v) for k, v in a['value']), ts)


def hexs(s):
    return s.encode('utf-8', 'surrogatepass').hex()


def enc_sample(s):
    v = s.value
    if v is None:
        ev = 'N'
    elif isinstance(v, bool):
        ev = 'bool%d' % v
    elif isinstance(v, int):
        ev = 'i%d' % v
    else:
        ev = 'o' + tok_of(v)
    et = 'N' if s.timestamp is None else 'v' + tok_of(s.timestamp)
    ee = 'N' if s.exemplar is None else 'v' + tok_of(s.exemplar)
    if getattr(s, 'native_histogram', None) is not None:
        ee += '-native'
    return '/'.join([hexs(s.name), 'L' + '&'.join('%s=%s' % (hexs(k), hexs(str(x))) for k, x in s.labels.items()), ev, et, ee])


def enc_fam(fam, errs):
    return '!'.join([hexs(fam.name), fam.type, hexs(fam.documentation), hexs(fam.unit),
                     'L' + '+'.join(hexs(x) for x in fam._labelnames),
                     '+'.join(enc_sample(s) for s in fam.samples) or '_', ','.join(errs) or '.'])


class Fails(list):
    def add(self, sig, what):
        self.append((sig, what))


def run_real(c, fails):
    """-> observation string in the driver's reply format; appends oracle failures that need the call-by-call view"""
    import prometheus_client.metrics_core as mc
    from prometheus_client import validation
    cls = c['cls']
    K = getattr(mc, CLASSES[cls])
    was = validation.get_legacy_validation()
    (validation.enable_legacy_validation if c['legacy'] else validation.disable_legacy_validation)()
    try:
        try:
            fam = K(c['name'], c['doc'], **ctor_kwargs(c))
        except Exception as e:  # noqa
            return 'ok ' + type(e).__name__, None
        head = (fam.name, fam.type, fam.documentation, fam.unit)
        errs = []
        for i, a in enumerate(c['adds']):
            before = list(fam.samples)
            try:
                call_add(fam, cls, a)
                errs.append('ok')
            except Exception as e:  # noqa
                errs.append(type(e).__name__)
            after = fam.samples
            where = '%s(%r, …) add_metric call %d %r' % (CLASSES[cls], c['name'], i, a)
            if len(after) < len(before) or any(x is not y for x, y in zip(before, after)) or \
                    (fam.name, fam.type, fam.documentation, fam.unit) != head:
                fails.add('C07:family-add-metric-alters-earlier', '%s: earlier samples or the family head changed' % where)
                continue
            new = after[len(before):]
            if cls == 'H' and errs[-1] == 'ok':
                for s in new:
                    if s.name == fam.name + '_count':
                        want = obj(a['buckets'][-1][1])
                        if not (s.value is want or (isinstance(s.value, float) and lib.bits_of(s.value) == lib.bits_of(want))):
                            fails.add('C07:family-histogram-count-not-last-bucket',
                                      '%s: %s_count carries %r, the last bucket holds %r' % (where, fam.name, s.value, want))
            ln = list(fam._labelnames)
            extra = {'H': 'le', 'Q': 'le', 'E': fam.name}.get(cls)
            ikeys = [k for k, _ in a['value']] if cls == 'I' else []
            if len(set(ln)) == len(ln) and len(a['labels']) == len(ln) and extra not in ln and not (set(ikeys) & set(ln)):
                for s in new:
                    items = list(s.labels.items())
                    ok = items[:len(ln)] == list(zip(ln, a['labels']))
                    rest = [k for k, _ in items[len(ln):]]
                    if cls in 'HQ':
                        ok = ok and rest == (['le'] if s.name == fam.name + '_bucket' else [])
                    elif cls == 'E':
                        ok = ok and rest == [fam.name]
                    elif cls == 'I':
                        ok = ok and rest == ikeys
                    else:
                        ok = ok and rest == []
                    if not ok:
                        fails.add('C07:family-labels-not-zip', '%s: sample %s has labels %r, label names %r values %r'
                                  % (where, s.name, items, ln, a['labels']))
        return 'ok ok ' + enc_fam(fam, errs), fam
    finally:
        (validation.enable_legacy_validation if was else validation.disable_legacy_validation)()


def registry_oracles(c, fam, fails):
    """the independent oracles on the registry: claimed names and the restricted registry"""
    import prometheus_client.metrics_core as mc
    from prometheus_client import validation
    from prometheus_client.registry import CollectorRegistry
    K = getattr(mc, CLASSES[c['cls']])
    who = '%s(%r, unit=%r) with %d add_metric call(s)' % (CLASSES[c['cls']], c['name'], c.get('unit', ''), len(c['adds']))

    class Auto:
        def collect(self):
            return [fam]

    class Described(Auto):
        def describe(self):
            return [K(c['name'], c['doc'], **ctor_kwargs(c, with_values=False))]

    was = validation.get_legacy_validation()
    (validation.enable_legacy_validation if c['legacy'] else validation.disable_legacy_validation)()
    try:
        emitted = []
        for s in fam.samples:
            if s.name not in emitted:
                emitted.append(s.name)
        for mode, coll, ad in (('auto_describe=True', Auto(), True), ('describe() = the same constructor call without samples', Described(), False)):
            reg = CollectorRegistry(auto_describe=ad)
            claimed = reg._get_names(coll)
            bad = [n for n in emitted if n not in claimed]
            if bad:
                fails.add('C07:family-sample-name-unclaimed', '%s [%s]: sample name(s) %r are not among the claimed names %r'
                          % (who, mode, bad, list(claimed)))
            reg.register(coll)
            full = list(reg.collect())
            sets = [[n] for n in emitted] + [emitted, [fam.name], ['nope'], emitted[:1] + ['nope']]
            for names in sets:
                got = [(m.name, m.type, m.documentation, m.unit, list(m.samples)) for m in reg.restricted_registry(names).collect()]
                want = []
                for m in full:
                    kept = [s for s in m.samples if s.name in names]
                    if kept:
                        want.append((m.name, m.type, m.documentation, m.unit, kept))
                if not same_families(got, want):
                    fails.add('C07:family-restricted-not-filter', '%s [%s]: restricted_registry(%r).collect() yields %r, the filter '
                              'of collect() is %r' % (who, mode, names, brief(got), brief(want)))
                    break
    finally:
        (validation.enable_legacy_validation if was else validation.disable_legacy_validation)()
    # CounterMetricFamily: a name given with or without the _total suffix is the same family
    if c['cls'] == 'C' and not c['name'].endswith('_total') and c['name']:
        (validation.enable_legacy_validation if c['legacy'] else validation.disable_legacy_validation)()
        try:
            try:
                a = K(c['name'], c['doc'], **ctor_kwargs(c))
                b = K(c['name'] + '_total', c['doc'], **ctor_kwargs(c))
            except Exception as e:  # noqa
                fails.add('C07:family-counter-total-not-stripped', '%s: constructing with and without _total: %s' % (who, type(e).__name__))
                return
            if not same_families([(a.name, a.type, a.documentation, a.unit, a.samples)], [(b.name, b.type, b.documentation, b.unit, b.samples)]):
                fails.add('C07:family-counter-total-not-stripped', 'CounterMetricFamily(%r, …) is family %r with samples %r, '
                          'CounterMetricFamily(%r, …) is family %r with samples %r'
                          % (c['name'], a.name, [s.name for s in a.samples], c['name'] + '_total', b.name, [s.name for s in b.samples]))
        finally:
            (validation.enable_legacy_validation if was else validation.disable_legacy_validation)()


def sample_key(s):
    return enc_sample(s)


def same_families(a, b):
    if len(a) != len(b):
        return False
    for x, y in zip(a, b):
        if x[:4] != y[:4] or [sample_key(s) for s in x[4]] != [sample_key(s) for s in y[4]]:
            return False
    return True


def brief(fs):
    return [(f[0], f[1], f[3], [s.name for s in f[4]]) for f in fs]


# ------------------------------------------------------------------------------------------------ the driver request
def sfield(s):
    return 's' + hexs(s)


def optf(t):
    return 'N' if t is None else 'v' + t


def names_f(ls):
    return 'L' + '+'.join(sfield(x) for x in ls)


def buckets_f(bs, triples):
    if triples:
        return 'B' + '+'.join('%s=%s=%s' % (sfield(b[0]), b[1], optf(b[2] if len(b) == 3 else None)) for b in bs)
    return 'B' + '+'.join('%s=%s' % (sfield(b[0]), b[1]) for b in bs)


def dict_f(kv, states):
    if states:
        return 'D' + '+'.join('%s=%d' % (sfield(k), 1 if v else 0) for k, v in kv)
    return 'D' + '+'.join('%s=%s' % (sfield(k), sfield(v)) for k, v in kv)


def fge0_of(s):
    try:
        return 'p' if float(s) >= 0 else 'n'
    except ValueError:
        return 'e'


def request(c):
    cls, kw = c['cls'], c['kw']
    ol = 'N' if c['labels'] is None else names_f(c['labels'])
    head = [cls, sfield(c['name']), sfield(c['doc'])]
    firsts = []
    if cls in 'UG':
        f = head + [optf(kw['value']), ol, sfield(c['unit'])]
    elif cls == 'C':
        f = head + [optf(kw['value']), ol, optf(kw['created']), sfield(c['unit']), optf(kw['exemplar'])]
    elif cls == 'S':
        f = head + [optf(kw['count']), optf(kw['sum']), ol, sfield(c['unit'])]
    elif cls in 'HQ':
        b = 'N' if kw['buckets'] is None else buckets_f(kw['buckets'], cls == 'H')
        if kw['buckets']:
            firsts.append(kw['buckets'][0][0])
        f = head + [b, optf(kw['sum']), ol, sfield(c['unit'])]
    else:
        f = head + ['N' if kw['value'] is None else dict_f(kw['value'], cls == 'E'), ol]
    adds = []
    for a in c['adds']:
        l, t = names_f(a['labels']), optf(a['ts'])
        if cls in 'UG':
            adds.append([cls, l, a['value'], t])
        elif cls == 'C':
            adds.append([cls, l, a['value'], optf(a['created']), t, optf(a['exemplar'])])
        elif cls == 'S':
            adds.append([cls, l, a['count'], a['sum'], t])
        elif cls in 'HQ':
            if a['buckets']:
                firsts.append(a['buckets'][0][0])
            adds.append([cls, l, buckets_f(a['buckets'], cls == 'H'), optf(a['sum']), t])
        else:
            adds.append([cls, l, dict_f(a['value'], cls == 'E'), t])
    tbl = []
    for s in firsts:
        if s not in [x for x, _ in tbl]:
            tbl.append((s, fge0_of(s)))
    return 'fam run %d %s %s %s' % (1 if c['legacy'] else 0, '+'.join('%s=%s' % (sfield(s), k) for s, k in tbl) or '.',
                                    ','.join(f), ';'.join(','.join(a) for a in adds) or '.')


# ------------------------------------------------------------------------------------------------ run / replay
class FamRunner:
    def __init__(self, ctx):
        self.ctx = ctx
        self.pending = []
        self.reported = {}

    def one(self, c):
        ctx = self.ctx
        fails = Fails()
        obs, fam = run_real(c, fails)
        if fam is not None:
            registry_oracles(c, fam, fails)
        names = sorted(set(s.name for s in fam.samples)) if fam is not None else []
        ctx.case(nontrivial_key=hash(('fam', obs)) if len(names) >= 2 else None,
                 sample={'family-constructor': CLASSES[c['cls']], 'name': c['name'], 'unit': c.get('unit'), 'labels': c['labels'],
                         'add_metric_calls': len(c['adds']), 'sample_names': names} if names else None)
        ctx.count('fam-%s-%s' % (c['cls'], 'built' if fam is not None else obs.split(' ')[1]))
        if fam is not None:
            for e in obs.split('!')[-1].split(','):
                if e not in ('ok', '.'):
                    ctx.count('fam-add_metric-' + e)
        for sig, what in fails:
            n = self.reported.get(sig, 0)
            self.reported[sig] = n + 1
            ctx.count('oracle-' + sig)
            if n < 3:
                ctx.fail(sig, what, c)
        self.pending.append((c, request(c), obs))

    def flush(self):
        ctx = self.ctx
        if not self.pending:
            return
        replies = ctx.driver.run([p[1] for p in self.pending])
        if replies is not None:
            for (c, _, obs), rep in zip(self.pending, replies):
                ctx.traces += 1
                if rep != obs:
                    ctx.diverge('family constructors: model %s, implementation %s' % (describe(rep), describe(obs)), c)
        self.pending = []


def describe(rep):
    """readable form of an observation"""
    p = rep.split(' ')
    if len(p) != 3:
        return rep[:200]
    f = p[2].split('!')
    if len(f) != 7:
        return rep[:200]
    def smp(e):
        x = e.split('/')
        if len(x) != 5:
            return e
        labels = [tuple(bytes.fromhex(h).decode('utf-8', 'replace') for h in kv.split('=')) for kv in x[1][1:].split('&') if kv]
        return (bytes.fromhex(x[0]).decode('utf-8', 'replace'), labels, x[2], x[3], x[4])
    return repr({'name': bytes.fromhex(f[0]).decode('utf-8', 'replace'), 'type': f[1], 'unit': bytes.fromhex(f[3]).decode('utf-8', 'replace'),
                 'labelnames': f[4], 'samples': [] if f[5] == '_' else [smp(e) for e in f[5].split('+')], 'add_metric': f[6]})


def _init_pools():
    global TS, EX
    if TS is None:
        TS, EX = _pools()


def run(ctx):
    _init_pools()
    ctx.rule += ('; FAMILIES: one *MetricFamily constructor call (8 classes; value/labels both, count without sum, sum without '
                 'buckets, empty buckets, _total names, units, legacy validation on/off) + 0-4 add_metric calls (right/too few/'
                 'too many label values, repeated label names, le / family name as label name, created/sum/gsum/timestamp/'
                 'exemplar present or absent, empty buckets, malformed / negative first bound); a family evaluation is one '
                 'object with its whole call sequence, non-trivial when it carries at least two distinct sample names')
    rn = FamRunner(ctx)
    for c in CORPUS:
        rn.one(c)
    n = 2500 if ctx.tier == 'quick' else 40000
    if ctx.broken:
        n *= 3
    for cls in 'UCGSHQIE':
        for _ in range(n // 16):
            rn.one(gen_case(ctx.rng, cls))
    for _ in range(n // 2):
        rn.one(gen_case(ctx.rng))
    rn.flush()


def replay(ctx, case):
    _init_pools()
    c = case.get('case', case)
    rn = FamRunner(ctx)
    rn.one(c)
    print('family case:', c)
    print('implementation:', describe(rn.pending[0][2]) if rn.pending else None)
    rn.flush()
    for f in ctx.failures:
        print('REPLAY-FAIL', f['sig'], f['what'])
    for d in ctx.divergences:
        print('REPLAY-DIVERGE', d['what'])
    return 1 if ctx.failures or ctx.divergences else 0
