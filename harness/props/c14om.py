"""C14, OpenMetrics half — the OpenMetrics parser is total: any input ends in families or ValueError, deterministically.

    run_om(ctx)            corpus of witnesses, function-level correspondence, documents × mutations, unstructured strings
    replay_om(ctx, case)   re-run one case

Oracle on the REAL parser (independent of the model): `list(text_string_to_metric_families(s))` returns, or raises
ValueError; the same on a second run; within the watchdog.  Any other exception class is
    ctx.fail("C14:om:<ExceptionClass>:<function at the raise site>", …).
Model agreement (T2): `om parse <legacy> h:<doc>` gives the same class and, on success, the same families (labels sorted,
floats by bits with NaN canonical, int vs float kept apart); the per-function requests likewise.

Restrictions, stated: inputs are well-formed Unicode text (no lone surrogates — outside the model's `List Char`);
documents are kept below ~4 kB so that truncation at every offset stays affordable.
Standalone:  /venv/bin/python harness/props/c14om.py [quick|thorough] [seed]
"""
import os
import re
import signal
import sys
import traceback

if __name__ == '__main__':
    sys.path.insert(0, os.path.dirname(os.path.dirname(os.path.abspath(__file__))))
    import lib
    sys.path.insert(0, lib.REPO)

import lib
import corecheck
import omgen

WATCHDOG_S = 10


class Watchdog(Exception):
    pass


def _alarm(signum, frame):
    raise Watchdog()


# ------------------------------------------------------------------------------------------ canonical encodings
def enc_num(v):
    if v is None:
        return '-'
    if isinstance(v, int):
        return 'i:%d' % v
    return lib.fbits(v)


def enc_labels(d):
    if d is None:
        return ['-']
    out = ['L', str(len(d))]
    for k in sorted(d):
        out += [lib.hx(k), lib.hx(d[k])]
    return out


def enc_ts(t):
    from prometheus_client.samples import Timestamp
    if t is None:
        return '-'
    if isinstance(t, Timestamp):
        return 's:%d:%d' % (t.sec, t.nsec)
    return 'f:' + lib.fbits(t)[2:]


def enc_exemplar(e):
    if e is None:
        return ['-']
    return ['E'] + enc_labels(e.labels) + [enc_num(e.value), enc_ts(e.timestamp)]


def enc_spans(s):
    if s is None:
        return '-'
    if not s:
        return '.'
    return ','.join('%d:%d' % (a, b) for a, b in s)


def enc_deltas(s):
    if s is None:
        return '-'
    if not s:
        return '.'
    return ','.join('%d' % a for a in s)


def enc_nh(h):
    if h is None:
        return ['-']
    return ['N', '%d' % h.count_value, '%d' % h.sum_value, '%d' % h.schema, lib.fbits(h.zero_threshold), '%d' % h.zero_count,
            enc_spans(h.pos_spans), enc_spans(h.neg_spans), enc_deltas(h.pos_deltas), enc_deltas(h.neg_deltas)]


def enc_sample(s):
    return [lib.hx(s.name)] + enc_labels(s.labels) + [enc_num(s.value), enc_ts(s.timestamp)] + enc_exemplar(s.exemplar) + enc_nh(s.native_histogram)


def enc_families(ms):
    out = [str(len(ms))]
    for m in ms:
        out += [lib.hx(m.name), lib.hx(m.documentation), lib.hx(m.type), lib.hx(m.unit), str(len(m.samples))]
        for s in m.samples:
            out += enc_sample(s)
    return ' '.join(out)


def site_of(exc):
    tb = traceback.extract_tb(exc.__traceback__)
    return tb[-1].name if tb else '?'


def set_legacy(flag):
    from prometheus_client import validation as V
    (V.enable_legacy_validation if flag else V.disable_legacy_validation)()


def guarded(fn):
    """run fn under the watchdog; returns ('ok', value) | ('err', class name, raise site) | ('timeout',)"""
    old = signal.signal(signal.SIGALRM, _alarm)
    signal.setitimer(signal.ITIMER_REAL, WATCHDOG_S)
    try:
        return ('ok', fn())
    except Watchdog:
        return ('timeout',)
    except Exception as e:          # noqa: every class is an observation
        return ('err', type(e).__name__, site_of(e))
    finally:
        signal.setitimer(signal.ITIMER_REAL, 0)
        signal.signal(signal.SIGALRM, old)


def real_parse(text, legacy):
    from prometheus_client.openmetrics import parser as OP
    set_legacy(legacy)
    return guarded(lambda: enc_families(list(OP.text_string_to_metric_families(text))))


def obs(r):
    if r[0] == 'ok':
        return 'ok ' + r[1]
    if r[0] == 'err':
        return 'err ' + r[1]
    return 'err Timeout'


# ------------------------------------------------------------------------------------------ corpus (DESIGN.md §7 + this work)
NH = '{count:1,sum:1,schema:1,zero_threshold:1,zero_count:1}'
NHFULL = '{count:24,sum:100,schema:0,zero_threshold:0.001,zero_count:4,positive_spans:[0:2,1:2],negative_spans:[0:2,1:2],positive_deltas:[2,1,-3,3],negative_deltas:[2,1,-2,3]}'
CORPUS = [
    '# HELP \xa0 x\n# EOF\n',                                   # F8  IndexError _unquote_unescape (metadata token)
    '# HELP \t x\n# EOF\n',
    '# TYPE \x1c counter\n# EOF\n',
    '{"\xa0"} 1\n# EOF\n',                                      # F8' IndexError via a blank quoted sample name
    '{" "} 1\n# EOF\n',
    '# TYPE a histogram\na {foo:1}\n# EOF\n',                   # F9a KeyError _parse_nh_struct
    '# TYPE a histogram\na {count:1}\n# EOF\n',
    '# TYPE a histogram\na{x="y"} {count:1,sum:1,schema:1,zero_count:1}\n# EOF\n',
    '# TYPE a histogram\na_total ' + NH + '\n# EOF\n',          # F9b TypeError math.isnan(None)
    '# TYPE a histogram\nb_gsum ' + NH + '\n# EOF\n',
    '# TYPE a histogram\na_gcount ' + NH + '\n# EOF\n',         # AttributeError None.is_integer
    '# TYPE a histogram\n{"a_bucket"} ' + NH + '\n# EOF\n',     # AttributeError None.get
    '# TYPE a histogram\n{"a_bucket",le="1"} ' + NH + '\n# EOF\n',
    '# TYPE a histogram\n{"a_count",x="y"} ' + NH + '\n# EOF\n',
    'a 1 1.5\na 1 2e0\n# EOF\n',                                # F9c AttributeError Timestamp.__gt__
    'a 1 2e0\na 1 1.5\n# EOF\n',                                #     AttributeError Timestamp.__lt__ (reflected)
    '# TYPE a counter\na_total 1' + '0' * 400 + '\n# EOF\n',    # OverflowError math.isnan(huge int)
    '# TYPE a histogram\na_bucket{le="+Inf"} -1' + '0' * 310 + '\n# EOF\n',
    '# TYPE a histogram\na_gsum ' + NH + '\n# EOF\n',           # was TypeError `None < 0` in _check_histogram (after 74e3eee; fixed 2c736ec)
    '# TYPE a histogram\na_gsum{x="y"} ' + NH + '\n# EOF\n',
    '# TYPE a histogram\na_bucket{le="+Inf"} 1\nb_gsum ' + NH + '\n# EOF\n',
    'a 1 1' + '0' * 400 + '\na 1 2e0\n# EOF\n',                 # was OverflowError in Timestamp.__float__ (after 007bfee; fixed a186a64)
    'a 1 2e0\na 1 1' + '0' * 400 + '\n# EOF\n',
    'a 1 -1' + '0' * 400 + '.5\na 1 2e0\n# EOF\n',
    'a 1 1.5\na 1 1.25e0\n# EOF\n', 'a 1 1.25e0\na 1 1.5\n# EOF\n', 'a 1 2e0\na 1 2\n# EOF\n', 'a 1 2\na 1 2e0\na 1 2.000000001\n# EOF\n',
    'a 1 9007199254740993\na 1 9007199254740992e0\n# EOF\n', 'a 1 -1.5\na 1 -1.4e0\n# EOF\n', 'a 1 -1.5\na 1 -1.6e0\n# EOF\n',
    '# TYPE a histogram\na_bucket{le="nan"} 1\na_bucket{le="+Inf"} 1\n# EOF\n', '# TYPE a histogram\na_bucket{le="-NAN"} 1\na_bucket{le="+Inf"} 1\n# EOF\n',
    '# TYPE a histogram\na_bucket{le="x"} 1\n# EOF\n',
    'a 1 -0.5\n# EOF\n', 'a 1 -0.0\n# EOF\n', 'a 1 0.-5\n# EOF\n', 'a 1 1.234567891e-05\n# EOF\n', 'a 1 1.5e3\n# EOF\n', 'a 1 -0.5\na 1 -0.25\n# EOF\n',
    'a 1 1.+5\n# EOF\n', 'a 1 1.5_0\n# EOF\n', 'a 1 -1.5\na 1 -1.25\n# EOF\n', 'a 1 1.0000000001x\n# EOF\n', 'a 1 1.٣\n# EOF\n',
    '# TYPE a counter\na_total 1 # {a="q\\"q"} 1\n# EOF\n', '# TYPE a counter\na_total 1 # {a="\\\\"} 1\n# EOF\n',
    '# TYPE a counter\na_total 1 # {a="\\\\\\""} 1\n# EOF\n', '# TYPE a counter\na_total 1 # {a="x\\"} 1\n# EOF\n',
    '# TYPE a counter\na_total 1 # {"q\\"n"="v"} 1 2\n# EOF\n', '# TYPE a counter\na_total 1 \\" # {a="b"} 1\n# EOF\n',
    # accepted native histograms (not findings; they exercise the struct parser)
    '# TYPE a histogram\na ' + NH + '\n# EOF\n',
    '# TYPE a histogram\na ' + NHFULL + '\n# EOF\n',
    '# TYPE a histogram\na{x="y"} ' + NHFULL + '\n# EOF\n',
    '# TYPE a histogram\n{"a"} ' + NHFULL + '\n# EOF\n',
    '# TYPE a histogram\nab ' + NH + '\nb ' + NH + '\n# EOF\n',
    '# TYPE a histogram\nab{x="y"} ' + NH + '\n# EOF\n',
    '# TYPE a histogram\na_count ' + NH + '\n# EOF\n',
    '# TYPE a histogram\na {count:1,sum:1.5,schema:1,zero_threshold:1,zero_count:1}\n# EOF\n',
    '# TYPE a histogram\na {count:1,sum:1,schema:1,zero_threshold:x,zero_count:1}\n# EOF\n',
    '# TYPE a histogram\na {count: 1 ,sum:\xa01,schema:٣,zero_threshold:1,zero_count:1,positive_spans:[٣:1],positive_deltas:[-٣]}\n# EOF\n',
    '# TYPE a histogram\na {count:1,sum:1,schema:1,zero_threshold:1,zero_count:1,positive_spans:[1:2,3]}\n# EOF\n',
    '# TYPE a histogram\na {count:1,sum:1,schema:1,zero_threshold:1,zero_count:1} # {a="b"} 1\n# EOF\n',
    '# TYPE a histogram\na_bucket{le="1"} 1 # {a="b"} 0.5 1\na_bucket{le="+Inf"} 2\na_count 2\na_sum 1\n# EOF',
    # odd but accepted / rejected shapes
    'inf\n# EOF\n', 'nan 1\n# EOF\n', '# EOF', '', '\n', '# EOF\n\n', '# EOF\n# EOF\n', 'a 1\n\n# EOF\n', '#\n# EOF\n',
    '# TYPE a foo\n# EOF\n', '# TYPE a untyped\n# EOF\n', 'a 1 1.+5\n# EOF\n', 'a 1 -0.5\n# EOF\n', 'a 1 1.-5\n# EOF\n',
    'a 1 1_0\n# EOF\n', 'a 1 ٣\n# EOF\n', 'a ٣.٥\n# EOF\n', 'a 1 1.٣\n# EOF\n', 'a 1 nan\n# EOF\n', 'a 1 inf\n# EOF\n',
    'a 0x10\n# EOF\n', 'a 1 1.5 \n# EOF\n', 'a 1  1\n# EOF\n', 'a  1\n# EOF\n', 'a{} 1\n# EOF\n', 'a{,} 1\n# EOF\n',
    'a{a="b",} 1\n# EOF\n', 'a{a="b",a="c"} 1\n# EOF\n', 'a{a="b"}1\n# EOF\n', 'a{a="b"}  1\n# EOF\n', '{a="b"} 1\n# EOF\n',
    '{"a",__name__="b"} 1\n# EOF\n', 'a{"a"} 1\n# EOF\n', '# TYPE "a b" gauge\na b{x="y"} 1\n# EOF\n',
    'a} {x 1\n# EOF\n', 'a{ 1\n# EOF\n', 'a{x="\\"} 1\n# EOF\n', 'a 1 # {a="\\""} 1\n# EOF\n',
    '# TYPE a counter\na_total 1 # {a="b"} 1 \n# EOF\n', '# TYPE a counter\na_total 1 # {a="' + 'x' * 128 + '"} 1\n# EOF\n',
    '# TYPE a counter\na_total 1 # {a="' + 'x' * 127 + '"} 1\n# EOF\n', '# TYPE a counter\na_total 1 #{a="b"} 1\n# EOF\n',
    '# TYPE a counter\na_total 1 \\"" # {\n# EOF\n', '# TYPE a counter\na_total 1 # {a="b"}} 1\n# EOF\n',
    '# TYPE a counter\na_total 1 # {a="b"} 1 2 3\n# EOF\n',
    '# TYPE a summary\na{quantile="+Inf"} 1\n# EOF\n', '# TYPE a summary\na{quantile="inf"} 1\n# EOF\n',
    '# TYPE a histogram\na_bucket{le="inf"} 1\n# EOF\n', '# TYPE a histogram\na_bucket{le="nan"} 1\na_bucket{le="+Inf"} 1\n# EOF\n',
    '# TYPE a histogram\na_bucket{le="+Inf"} 1' + '0' * 400 + '\n# EOF\n',
    '# HELP a x\n# HELP a y\n# EOF\n', '# TYPE a counter\n# TYPE a counter\n# EOF\n', '# UNIT a_s s\n# UNIT a_s s\n# EOF\n',
    '# TYPE a\n# EOF\n', '# TYPE  a counter\n# EOF\n', '# FOO a b\n# EOF\n', '# TYPE "a counter\n# EOF\n', '# TYPE "a" counter\n# EOF\n',
    '# TYPE "" counter\n# EOF\n', '# TYPE a counter\n# TYPE a_total gauge\n# EOF\n', 'a_total 1\n# TYPE a counter\n# EOF\n',
    '# TYPE a stateset\na 1\n# EOF\n', '# TYPE a stateset\na{a="x"} 2\n# EOF\n', '# TYPE a info\na_info 2\n# EOF\n',
    '# TYPE a summary\na 1\n# EOF\n', '# TYPE a summary\na{quantile="x"} 1\n# EOF\n', '# TYPE a histogram\na_bucket 1\n# EOF\n',
    'a 1\r\n# EOF\r\n', 'a 1\x0b# EOF\n', 'a 1 # EOF\n', '﻿a 1\n# EOF\n',
]


# ------------------------------------------------------------------------------------------ generators
SPECIAL = ['#', ' ', '  ', '{', '}', '"', '\\', ',', '=', '\n', '\t', '\r', '\xa0', ' ', '\x1c', '\x85', ' ', ':', '[', ']', '-', '+',
           '.', '_', 'e', 'E']
WORDS = ['# EOF', '# TYPE', '# HELP', '# UNIT', 'EOF', 'TYPE', 'HELP', 'UNIT', 'counter', 'gauge', 'histogram', 'gaugehistogram', 'summary',
         'info', 'stateset', 'unknown', 'untyped', 'a', 'a', 'a', 'b', 'a_total', 'a_bucket', 'a_count', 'a_sum', 'a_created', 'a_gcount',
         'a_gsum', 'a_info', 'le', 'quantile', '__name__', '+Inf', '-Inf', 'NaN', 'nan', 'inf', '0', '1', '1', '2', '-1', '1.5', '1e3', '1e400',
         '٣', '１', '٣.٥', '0.5', '1_0', '9' * 30, '1' + '0' * 400, 'count', 'sum', 'schema', 'zero_threshold', 'zero_count', 'positive_spans',
         'negative_spans', 'positive_deltas', 'negative_deltas', 'count:1', 'sum:2', 'schema:0', 'zero_threshold:0.5', 'zero_count:0',
         'positive_spans:[0:1]', 'positive_deltas:[1]', 'negative_spans:[1:2,3:4]', 'negative_deltas:[-1,2]', 'é', '😀']
NH_KEYS = ['count:1', 'sum:2', 'schema:0', 'zero_threshold:0.5', 'zero_count:0', 'positive_spans:[0:1]', 'positive_deltas:[1]',
           'negative_spans:[0:2,1:2]', 'negative_deltas:[2,-1]', 'foo:1', 'count:x', 'sum:1.5', 'count: 1', 'count:', ':1', 'count:1:2',
           'positive_spans:[0:1,2]', 'positive_spans:[]', 'positive_deltas:[]', 'positive_deltas:[1,,2]', 'positive_deltas:[٣]',
           'positive_spans:[٣:٣]', 'zero_threshold:nan', 'schema:-1', 'count:1_0', 'count:\xa01', 'sum:+2']


def unstructured(rng):
    n = rng.choice([1, 2, 3, 4, 6, 8, 12, 20])
    return ''.join(rng.choice(SPECIAL if rng.random() < 0.55 else WORDS) for _ in range(n))


def nh_line(rng):
    keys = rng.sample(NH_KEYS[:9], rng.randrange(0, 10)) if rng.random() < 0.6 else rng.sample(NH_KEYS, rng.randrange(0, 8))
    if rng.random() < 0.5:
        keys = list(dict.fromkeys(NH_KEYS[:5] + keys))
        rng.shuffle(keys)
    name = rng.choice(['a', 'a', 'a', 'ab', 'b', 'a_total', 'a_count', 'a_gcount', 'a_gsum', 'a_bucket', 'a_sum', 'a_created', '', 'é'])
    labels = rng.choice(['', '', '{}', '{x="y"}', '{"a"}', '{"a_bucket"}', '{"a",x="y"}', '{le="1"}', '{"a_bucket",le="+Inf"}', '{x="}"}', '{x="{"}'])
    tail = rng.choice(['', '', '', ' 1', ' # {a="b"} 1', '}', ' {', ' x'])
    sep = rng.choice([' ', ' ', ' ', '', '  '])
    body = '{' + rng.choice([',', ',', ', ', ' ,']).join(keys) + rng.choice(['}', '}', '}', '', '}}'])
    return name + labels + sep + body + tail


def nh_doc(rng):
    lines = ['# TYPE a ' + rng.choice(['histogram', 'histogram', 'histogram', 'gaugehistogram', 'counter'])]
    if rng.random() < 0.3:
        lines.append('# HELP a h')
    for _ in range(rng.choice([1, 1, 2, 3])):
        r = rng.random()
        if r < 0.7:
            lines.append(nh_line(rng))
        elif r < 0.85:
            lines.append(rng.choice(['a_bucket{le="+Inf"} 1', 'a_count 1', 'a_sum 1', 'a_bucket{le="1"} 0']))
        else:
            lines.append(unstructured(rng))
    lines.append('# EOF')
    return '\n'.join(lines) + '\n'


TOKEN_RE = re.compile(r'[A-Za-z_:][A-Za-z0-9_:]*|[0-9]+|\s|.', re.S)


def line_mutations(rng, lines, pool, every=True):
    """all single line-level mutations: delete / duplicate / swap-with-next each line, insert a pool line at each gap"""
    n = len(lines)
    out = []
    for i in range(n):
        out.append(('del', lines[:i] + lines[i + 1:]))
        out.append(('dup', lines[:i + 1] + lines[i:]))
        if i + 1 < n:
            out.append(('swap', lines[:i] + [lines[i + 1], lines[i]] + lines[i + 2:]))
    for i in range(n + 1):
        out.append(('ins', lines[:i] + [rng.choice(pool)] + lines[i:]))
    return out


def token_mutation(rng, text):
    toks = TOKEN_RE.findall(text)
    if not toks:
        return text
    i = rng.randrange(len(toks))
    r = rng.random()
    if r < 0.3:
        toks = toks[:i] + toks[i + 1:]
    elif r < 0.5:
        toks = toks[:i + 1] + toks[i:]
    elif r < 0.8:
        toks[i] = rng.choice(SPECIAL + WORDS)
    else:
        j = rng.randrange(len(toks))
        toks[i], toks[j] = toks[j], toks[i]
    return ''.join(toks)


INSERT_POOL = ['', '# EOF', '# TYPE a counter', '# HELP a x', '# UNIT a x', 'a 1', 'a_total 1', 'a_total 1 1.5', 'a_total 1 2e0', '#', ' ',
               'a{x="y"} 1 # {a="b"} 1', 'a ' + NH, 'a {foo:1}', '# HELP \xa0 x', '{" "} 1', 'a 1' + '0' * 400]


# ------------------------------------------------------------------------------------------ the check
class Batch:
    """collects cases, runs the real code at once per case, the driver once per batch"""

    def __init__(self, ctx):
        self.ctx = ctx
        self.reqs = []
        self.items = []
        self.sig_seen = {}
        self.tmp = None
        self.snapshot = None

    def _driver(self):
        """a private copy of the driver binary (another check may be relinking the shared one while we run)"""
        import shutil
        import tempfile
        import time
        if self.snapshot is None and self.ctx.driver.ok:
            self.tmp = tempfile.mkdtemp(prefix='pv-om-')
            for _ in range(60):
                try:
                    shutil.copy2(lib.DRIVER, os.path.join(self.tmp, 'pvdriver'))
                    self.snapshot = os.path.join(self.tmp, 'pvdriver')
                    break
                except (FileNotFoundError, OSError):
                    time.sleep(0.5)
        return self.snapshot

    def close(self):
        import shutil
        if self.tmp:
            shutil.rmtree(self.tmp, ignore_errors=True)
            self.tmp = None
            self.snapshot = None

    def _run_driver(self, lines):
        import subprocess
        drv = self._driver()
        if drv is None:
            return None
        data = ('\n'.join(lines) + '\n').encode('utf-8')
        try:
            p = subprocess.run([drv], input=data, stdout=subprocess.PIPE, stderr=subprocess.PIPE, timeout=900)
        except subprocess.TimeoutExpired:
            raise lib.Infra('driver timeout')
        out = p.stdout.decode('utf-8').split('\n')
        if out and out[-1] == '':
            out.pop()
        if len(out) != len(lines):
            raise lib.Infra('driver returned %d replies for %d requests (rc=%s, stderr=%s)' % (
                len(out), len(lines), p.returncode, p.stderr.decode('utf-8', 'replace')[-500:]))
        return out

    def doc(self, text, legacy, origin):
        ctx = self.ctx
        r1 = real_parse(text, legacy)
        r2 = real_parse(text, legacy)
        case = {'parser': 'om', 'kind': 'doc', 'legacy': int(legacy), 'text': text, 'origin': origin}
        key = None
        if r1[0] == 'ok':
            ctx.count('om:accepted')
            key = ('ok', hash(r1[1]))
        elif r1[0] == 'err':
            ctx.count('om:' + r1[1])
            key = ('err', r1[1], r1[2], origin)
        ctx.count('om:origin:' + origin)
        ctx.case(nontrivial_key=('om', hash(text)) if key and (r1[0] == 'ok' or len(text) > 8) else None,
                 sample={'doc': text[:160], 'outcome': obs(r1)[:60]})
        if obs(r1) != obs(r2):
            self.fail('C14:om:nondeterministic', 'two runs differ: %s vs %s' % (obs(r1)[:80], obs(r2)[:80]), case)
        if r1[0] == 'timeout':
            self.fail('C14:om:timeout', 'parser did not finish within %ds' % WATCHDOG_S, case)
        elif r1[0] == 'err' and r1[1] != 'ValueError':
            self.fail('C14:om:%s:%s' % (r1[1], r1[2]), '%s escapes from %s on %r' % (r1[1], r1[2], text[:120]), case)
        self.reqs.append('om parse %d %s' % (int(legacy), lib.hx(text)))
        self.items.append((obs(r1), case))

    def fn(self, name, arg, legacy, call, enc):
        set_legacy(legacy)
        r = guarded(lambda: enc(call(arg)))
        self.ctx.count('omfn:' + name)
        case = {'parser': 'om', 'kind': 'fn', 'fn': name, 'arg': arg, 'legacy': int(legacy)}
        req = {'ts': 'om ts %s', 'help': 'om help %s', 'lines': 'om lines %s'}.get(name)
        self.reqs.append(req % lib.hx(arg) if req else 'om %s %d %s' % (name, int(legacy), lib.hx(arg)))
        self.items.append((obs(r), case))

    def fail(self, sig, what, case):
        n = self.sig_seen.get(sig, 0)
        self.sig_seen[sig] = n + 1
        self.ctx.count('fail:' + sig)
        if n < 3:
            self.ctx.fail(sig, what, case)

    def flush(self):
        ctx = self.ctx
        if not self.reqs:
            return
        replies = self._run_driver(self.reqs)
        if replies is not None:
            for (expected, case), rep in zip(self.items, replies):
                ctx.traces += 1
                if expected != rep:
                    ctx.diverge('om %s: real=%s model=%s on %r' % (case['kind'] + ':' + case.get('fn', 'parse'), expected[:100], rep[:100],
                                                                  (case.get('text') or case.get('arg'))[:120]), case)
        self.reqs, self.items = [], []


def fn_suite(b, rng, texts):
    """function-level requests on line-shaped texts"""
    from prometheus_client.openmetrics import parser as OP
    import io
    suff = ('_count', '_sum', '_bucket', '_created')

    def enc_rem(r):
        return ' '.join([enc_num(r[0]), enc_ts(r[1])] + enc_exemplar(r[2]))

    for t in texts:
        leg = rng.random() < 0.3
        b.fn('sample', t, leg, OP._parse_sample, lambda s: ' '.join(enc_sample(s)))
        b.fn('nh', t, leg, lambda x: OP._parse_nh_sample(x, suff), lambda s: '-' if s is None else ' '.join(enc_sample(s)))
        rest = t.split(' ', 1)[1] if ' ' in t else t
        b.fn('remaining', rest, leg, OP._parse_remaining_text, enc_rem)
        for piece in set(rest.split(' ')[:4] + [rest]):
            b.fn('ts', piece, False, OP._parse_timestamp, enc_ts)
        b.fn('help', t, False, OP._unescape_help, lib.hx)


TS_TEXTS = ['-0.5', '-0.0', '-0.000000001', '0.5', '1.234567891e-05', '1.5e3', '1.5E3', '-1.5', '1.+5', '1.-5', '1.5_0', '1. 5', '1.5 ', '-00.5', '+0.5', '-0', '', '0', '1', '-1', '+1', '1.5', '-1.5', '-0.5', '1.', '.5', '1.+5', '1.-5', '1. 5', '1.5e3', '1e3', '1E3', 'nan', 'inf', '-inf', 'Infinity',
            '1_0', '1.0_1', ' 1', '1 ', '1\xa0', '٣', '٣.٥', '1.٣', '1.1234567891', '1.999999999', '1.9999999999', '-1.000000001', '0x10',
            '1e400', '1.5.5', '1..5', '.', '-', '1.e3', '1.5e', 'e3', '9' * 4300, '9' * 4301, '1.' + '9' * 5000, '-0', '-0.0', '1.0000000000', 'a',
            '1.00000000a', '1.0000000000a', '١٢٣.٤٥٦']


TS_FORMS = ['100', '100.5', '1e2']    # integer, aaaa.bbbb, float spelling


def ts_presence_mutations(doc):
    """timestamp presence mixed inside the groups of every family, in both orders and for all three timestamp forms:
    (a) the document as generated, with the timestamp of sample i removed (if it has one) or added (if it has none), at every
    sample position; (b) per family and form: every sample stamped alike, then sample i bare (stamped-then-bare for i > 0, bare-then-
    stamped for i = 0 and at the following sample), and every sample bare, then sample i stamped"""
    pos = [(fi, gi, k) for fi, f in enumerate(doc.fams) for gi, g in enumerate(f.groups) for k in range(len(g.samples))]
    for fi, gi, k in pos:
        s = doc.fams[fi].groups[gi].samples[k]
        for form in ([None] if s.ts is not None else TS_FORMS):
            d = doc.copy()
            d.fams[fi].groups[gi].samples[k].ts = form
            yield 'ts-' + ('removed' if form is None else 'added'), d
    for fi, f in enumerate(doc.fams):
        mine = [(gi, k) for (fj, gi, k) in pos if fj == fi]
        for form in TS_FORMS:
            for gi, k in mine:
                for base, one, kind in ((form, None, 'ts-all-but-one'), (None, form, 'ts-only-one')):
                    d = doc.copy()
                    for g in d.fams[fi].groups:
                        for x in g.samples:
                            x.ts = base
                    d.fams[fi].groups[gi].samples[k].ts = one
                    yield kind, d


def run_om(ctx):
    rng = ctx.rng
    quick = ctx.tier == 'quick'
    wide = 3 if ctx.broken else 1
    ctx.rule = ((ctx.rule + ' | ') if ctx.rule else '') + (
        'OM: corpus of witnesses; grammar-generated documents of all 8 family types (omgen) × every single line deletion / duplication / '
        'adjacent swap / insertion at every gap, token-level mutations, the timestamp of sample i removed / added (3 forms) at every sample position and per family all-but-one / only-one stamped, truncation at EVERY offset of short documents; a quoted token placed in every region of a sample line (name, label name / value, value, timestamp, exemplar label name / value, exemplar value / timestamp, trailing) with the line ending at every position inside it followed by 0..3 backslashes; native-histogram-'
        'shaped documents; unstructured strings over the format\'s special characters incl. non-ASCII whitespace and Unicode digits; each '
        'input parsed twice under a watchdog; non-trivial = distinct text that is accepted or longer than 8 characters')
    corecheck.run(ctx, 300 if quick else 5000)
    b = Batch(ctx)
    try:
        # 1. corpus, both validation modes
        for t in CORPUS:
            b.doc(t, False, 'corpus')
            b.doc(t, True, 'corpus')
        # 2. function level
        texts = []
        for _ in range((40 if quick else 600) * wide):
            d = omgen.gen_doc(rng, nfam=1)
            ls = d.lines()
            texts += [rng.choice(ls) for _ in range(2)]
            texts.append(token_mutation(rng, rng.choice(ls)))
            texts.append(nh_line(rng))
            texts.append(unstructured(rng))
        fn_suite(b, rng, texts)
        for t in TS_TEXTS:
            b.fn('ts', t, False, __import__('prometheus_client.openmetrics.parser', fromlist=['x'])._parse_timestamp, enc_ts)
        for _ in range(40 if quick else 400):
            t = omgen.gen_doc(rng).render()
            cut = rng.randrange(0, len(t) + 1)
            b.fn('lines', t[:cut] + rng.choice(['', '\n', '\n\n', '\r\n', 'x']), False, _real_lines, lambda ls: lib.enc_list([lib.hx(x) for x in ls]))
        b.flush()
        # 3. valid documents, all types; line-level mutations
        ndocs = (14 if quick else 150) * wide
        for i in range(ndocs):
            d = omgen.gen_doc(rng, types=[omgen.TYPES[i % 8], omgen.TYPES[(i * 3 + 1) % 8]] if i < 16 else None,
                              nfam=rng.choice([1, 2, 2, 3]))
            text = d.render()
            leg = rng.random() < 0.25
            b.doc(text, leg, 'valid')
            lines = d.lines()
            muts = line_mutations(rng, lines, INSERT_POOL + lines)
            if quick and len(muts) > 60:
                muts = rng.sample(muts, 60)
            for kind, ls in muts:
                b.doc('\n'.join(ls) + '\n', leg, 'line-' + kind)
            for _ in range(6 if quick else 30):
                b.doc(token_mutation(rng, text), leg, 'token')
            if len(b.reqs) > 1500:
                b.flush()
        b.flush()
        # 3b. timestamp presence mixed inside groups: every family type, every sample position, both orders, all three forms
        for i in range((48 if quick else 480) * wide):
            d = omgen.gen_doc(rng, types=[omgen.TYPES[i % 8]], nfam=1) if i % 4 else \
                omgen.gen_doc(rng, types=[omgen.TYPES[(i // 4) % 8], omgen.TYPES[(i // 4 + 3) % 8]], nfam=2)
            leg = rng.random() < 0.25
            muts = list(ts_presence_mutations(d))
            if quick and len(muts) > 150:
                muts = rng.sample(muts, 150)
            for kind, d2 in muts:
                b.doc(d2.render(), leg, kind)
            if len(b.reqs) > 1500:
                b.flush()
        b.flush()
        # 4. truncation at every offset of short documents (one family, every type)
        for i in range((8 if quick else 48) * wide):
            d = omgen.gen_doc(rng, types=[omgen.TYPES[i % 8]], nfam=1)
            text = d.render()
            if len(text) > (350 if quick else 1200):
                text = '\n'.join(d.lines()[:6] + ['# EOF']) + '\n'
            for cut in range(len(text) + 1):
                b.doc(text[:cut], False, 'truncate')
            b.flush()
        # 5. native-histogram-shaped documents and unstructured strings
        for _ in range((250 if quick else 6000) * wide):
            b.doc(nh_doc(rng), rng.random() < 0.2, 'nh-shaped')
        for _ in range((400 if quick else 10000) * wide):
            t = unstructured(rng)
            if rng.random() < 0.5:
                t += rng.choice(['\n# EOF\n', '\n# EOF', '\n'])
            b.doc(t, rng.random() < 0.2, 'unstructured')
        b.flush()
        # 6. lines that end inside a quoted token, in every region of a sample line
        quote_cut(ctx, b, rng, (1 if quick else 12) * wide)
    finally:
        set_legacy(False)
        b.close()


def quote_cut_docs(rng, line):
    """the documents one cut line is tried in: as the unterminated last line, before '# EOF', (sometimes) before another sample;
    under the TYPE line its name asks for (mostly) or bare"""
    head = ''
    if rng.random() < 0.7:
        if 'a_total' in line[:12]:
            head = '# TYPE a counter\n' + rng.choice(['', '# HELP a help\n'])
        elif line.startswith('a_bucket'):
            head = '# TYPE a histogram\n'
        elif line.startswith('g'):
            head = '# TYPE g gauge\n'
    out = [head + line, head + line + '\n# EOF\n']
    if rng.random() < 0.2:
        out.append(head + line + '\n' + rng.choice(['a_total 2', 'g 1', '# TYPE b gauge', '"']) + '\n# EOF\n')
    return out


def quote_cut(ctx, b, rng, per_region):
    """a quoted token in every region of a sample line (name, label name, label value, value, timestamp position, exemplar label
    name / value, exemplar value, exemplar timestamp, trailing junk) × five placements relative to the region's own token; the
    line ENDS at every position inside that token, then 0..3 backslashes (odd / even runs inside the still-open quote)"""
    fn_texts = []
    for region, placement, kind, line in omgen.quoted_region_lines(rng, per_region):
        ctx.count('om:quote-cut:' + region)
        for text in quote_cut_docs(rng, line):
            b.doc(text, rng.random() < 0.15, 'quote-cut:' + kind)
        if rng.random() < (0.12 if ctx.tier == 'quick' else 0.3):
            fn_texts.append(line)
        if len(b.reqs) > 1500:
            b.flush()
    fn_suite(b, rng, fn_texts)
    b.flush()


def _real_lines(text):
    import io
    out = []
    for line in io.StringIO(text):
        if line[-1] == '\n':
            line = line[:-1]
        out.append(line)
    return out


def replay_om(ctx, case):
    c = case.get('case', case)
    b = Batch(ctx)
    try:
        if c.get('kind') == 'fn':
            from prometheus_client.openmetrics import parser as OP
            fn_suite(b, ctx.rng, [c['arg']])
            if c['fn'] == 'lines':
                b.fn('lines', c['arg'], False, _real_lines, lambda ls: lib.enc_list([lib.hx(x) for x in ls]))
        else:
            print('document:', repr(c['text'])[:400])
            r = real_parse(c['text'], c.get('legacy', 0))
            print('real parser:', obs(r)[:300], ('@ ' + r[2]) if r[0] == 'err' else '')
            b.doc(c['text'], c.get('legacy', 0), c.get('origin', 'replay'))
        b.flush()
    finally:
        set_legacy(False)
        b.close()
    for f in ctx.failures:
        print('REPLAY-FAIL', f['sig'], f['what'])
    for f in ctx.divergences:
        print('REPLAY-DIVERGE', f['what'])
    return 1 if ctx.failures or ctx.divergences else 0


# so that `harness/check.py C14OM` runs this half on its own
run = run_om
replay = replay_om


if __name__ == '__main__':
    import time
    tier = sys.argv[1] if len(sys.argv) > 1 else 'quick'
    seed = int(sys.argv[2]) if len(sys.argv) > 2 else 0
    if os.environ.get('PV_DRIVER'):
        lib.DRIVER = os.environ['PV_DRIVER']        # a private copy of the driver (the shared tree may be rebuilding)
    ctx = lib.Ctx('C14', tier, seed)
    t0 = time.time()
    run_om(ctx)
    print('evaluations %d nontrivial %d traces %d divergences %d failures %d  %.1fs' % (
        ctx.evaluations, len(ctx.nontrivial), ctx.traces, len(ctx.divergences), len(ctx.failures), time.time() - t0))
    for k in sorted(ctx.dist):
        if not k.startswith('core:'):
            print('  %-40s %d' % (k, ctx.dist[k]))
    sigs = {}
    for f in ctx.failures:
        sigs.setdefault(f['sig'], f)
    for s, f in sorted(sigs.items()):
        print('FAIL', s, '|', f['what'][:160])
    for d in ctx.divergences[:25]:
        print('DIVERGE', d['what'][:400])
