"""C19 — Pushgateway requests encode job and grouping key losslessly.

Real code: push_to_gateway / pushadd_to_gateway / delete_from_gateway with an injected handler that captures url,
method, headers, data and timeout.

Oracle on the real code (independent of the Lean model, written from the property text): the captured URL must be
<expected base>/metrics/<path>, where the expected base is the gateway as spelled, without trailing slashes, with
`http://` put in front when no scheme was given; <path> is split on '/', segments are paired, a `name@base64`
segment is decoded with Python's own base64.urlsafe_b64decode (alphabet checked, '=' trimmed as the Pushgateway
does), every other value TWICE: with urllib.parse.unquote (path unescaping, '+' literal — what the Pushgateway's Go
server does) and with urllib.parse.unquote_plus (form decoding), both strict; BOTH results must equal
[('job', job)] + sorted((str(k), str(v)) for k, v in grouping_key.items()).  A URL that only the form decoder reads
back (a space written as '+') fails with signature C19:space-as-plus.  No segment may be empty (the
HTTP server cleans '//' away; that is what `name@base64/=` is for), a plain segment must not carry a slash (the
Pushgateway's HTTP server unescapes %2F before routing), the path must be printable ASCII without '?'
and '#'.  Method, body, content type, time-out are checked per public function; distinct inputs must give
distinct URLs over everything generated.

T2: the driver returns the model's URL, method, headers, body selector, time-out and the spec decoder's reading of
that URL for the same inputs; compared verbatim.  Function level: _escape_grouping_key, quote_plus,
urlsafe_b64encode, the scheme test of urlparse (+ base URL), and the spec decoders against CPython's.
The library's own handlers (default / passthrough-redirect / basic-auth) on a loopback server: props/c19handlers.py.

History: the plain branch used quote_plus (space -> '+'), which the Pushgateway reads as a literal plus; repaired in
/repo (quote(v, safe=''), space -> %20).  Reverting the repair is the C19:space-as-plus failure class.
"""
import base64
import itertools
import json
import re
import urllib.parse

import lib

FULL = ['/', '+', '%', '?', '#', ' ', '\n', '\r', '=', '&', '@', '~', '.', '-', '_', 'a', 'Z', '0',
        '\u00e9', '\u6f22', '\U0001F600', '\x00', '\x7f']
REDUCED = ['/', '+', '%', ' ', '\n', '=', 'a', '\u00e9', '\U0001F600', '?', '~']
NAME_START = 'abcxyzABZ_'
NAME_REST = NAME_START + '0189'
CONTENT_TYPE = 'text/plain; version=0.0.4; charset=utf-8'
METHOD = {'put': 'PUT', 'post': 'POST', 'delete': 'DELETE'}
HOSTS = ['localhost:9091', 'pushgateway.local', 'h', '127.0.0.1:9091', '[::1]:9091', 'host.example.com:80/prefix',
         'h/a/b', 'a+b.c-d:1', 'gw:9091/metrics/x']
SCHEMES = ['', 'http://', 'https://', 'HTTP://', 'Https://']
SLASHES = ['', '/', '//', '///']
B64_RE = re.compile(r'^[A-Za-z0-9_-]*={0,2}$')
BAD_PCT_RE = re.compile(r'%(?![0-9A-Fa-f]{2})')


# --------------------------------------------------------------------------------------------- real code
_state = {}


def _setup():
    if _state:
        return _state
    from prometheus_client import CollectorRegistry, Gauge, exposition
    reg = CollectorRegistry()
    g = Gauge('c19_probe', 'probe metric for C19', ['l'], registry=reg)
    g.labels('v').set(1.5)
    _state.update(exposition=exposition, registry=reg, expo=exposition.generate_latest(reg))
    if not _state['expo']:
        raise lib.Infra('probe registry has an empty exposition')
    return _state


BIG_WIDTH = 7                      # label values are zero-padded: every sample line has the same length
_big = {}


def big_registry(children, cache=True):
    """(registry, generate_latest(registry)) for one Gauge with `children` labelled children; 0 = the probe registry"""
    st = _setup()
    if not children:
        return st['registry'], st['expo']
    if children in _big:
        return _big[children]
    from prometheus_client import CollectorRegistry, Gauge
    reg = CollectorRegistry()
    g = Gauge('c19_big', 'large registry for C19', ['l'], registry=reg)
    for i in range(children):
        g.labels('%0*d' % (BIG_WIDTH, i)).set(1.0)
    out = (reg, st['exposition'].generate_latest(reg))
    if cache:
        if len(_big) >= 3:
            _big.pop(next(iter(_big)))
        _big[children] = out
    return out


def children_for(target):
    """(n_under, n_over): numbers of children whose exposition is the largest <= target and the smallest > target"""
    b1, b2 = len(big_registry(1, cache=False)[1]), len(big_registry(2, cache=False)[1])
    line, head = b2 - b1, b1 - (b2 - b1)
    n = max(1, (target - head) // line)
    return n, n + 1


def call_case(case):
    return call_real(case['fn'], case['host_spelled'], case['job'], dict((k, v) for k, v in case['gk']), case['timeout'],
                     case.get('children', 0))


def call_real(fn, gateway, job, gk, timeout, children=0):
    """run the real public function with a capturing handler -> capture dict (or {'exc': name})"""
    st = _setup()
    ex = st['exposition']
    registry = big_registry(children)[0]
    cap = {'calls': 0, 'ran': 0}

    def handler(url, method, timeout, headers, data):
        cap['calls'] += 1
        cap.update(url=url, method=method, timeout=timeout, headers=headers, data=data)

        def do():
            cap['ran'] += 1
        return do
    try:
        if fn == 'put':
            ex.push_to_gateway(gateway, job, registry, grouping_key=gk, timeout=timeout, handler=handler)
        elif fn == 'post':
            ex.pushadd_to_gateway(gateway, job, registry, grouping_key=gk, timeout=timeout, handler=handler)
        else:
            ex.delete_from_gateway(gateway, job, grouping_key=gk, timeout=timeout, handler=handler)
    except Exception as e:  # noqa
        cap['exc'] = type(e).__name__
    return cap


# --------------------------------------------------------------------------------------------- property oracle
def pg_decode(path, plus):
    """the Pushgateway's reading of the path after /metrics/ -> (labels, None) | (None, why);
    plus=False: path unescaping ('+' literal, Go URL.Path); plus=True: form decoding ('+' -> space)"""
    segs = path.split('/')
    if len(segs) % 2:
        return None, 'odd number of path segments (%d)' % len(segs)
    out = []
    if any(x == '' for x in segs):
        return None, 'empty path segment (the HTTP server cleans // and a trailing / away before routing)'
    for name, val in zip(segs[0::2], segs[1::2]):
        if name.endswith('@base64'):
            if not B64_RE.match(val):
                return None, 'base64 segment %r leaves the URL-safe alphabet' % val
            raw = val.rstrip('=')
            if len(raw) % 4 == 1:
                return None, 'base64 segment %r has an impossible length' % val
            try:
                text = base64.urlsafe_b64decode(raw + '=' * (-len(raw) % 4)).decode('utf-8')
            except Exception as e:  # noqa
                return None, 'base64 segment %r does not decode: %s' % (val, type(e).__name__)
            out.append((name[:-len('@base64')], text))
        else:
            if BAD_PCT_RE.search(val):
                return None, 'segment %r has a stray %%' % val
            try:
                text = (urllib.parse.unquote_plus if plus else urllib.parse.unquote)(val, errors='strict')
            except Exception as e:  # noqa
                return None, 'segment %r does not URL-unescape: %s' % (val, type(e).__name__)
            if '/' in text:
                return None, 'plain segment %r carries a slash (it is unescaped before routing)' % val
            out.append((name, text))
    return out, None


def expected_base(host, scheme, slashes):
    """the property's reading of a gateway spelling: no trailing slash, http:// when no scheme was given"""
    return (scheme or 'http://') + host


def oracle(case, cap):
    """-> list of (sig, what)"""
    fn, job, gk = case['fn'], case['job'], case['gk']
    st = _setup()
    bad = []
    if 'exc' in cap:
        return [('C19:raises', '%s raised %s' % (fn, cap['exc']))]
    if cap['calls'] != 1 or cap['ran'] != 1:
        return [('C19:handler', 'handler built %d times, request run %d times' % (cap['calls'], cap['ran']))]
    url = cap['url']
    base = expected_base(case['host'], case['scheme'], case['slashes'])
    want = [('job', job)] + sorted((str(k), str(v)) for k, v in gk)
    head = base + '/metrics/'
    if not isinstance(url, str) or not url.startswith(head):
        bad.append(('C19:spelling', 'gateway %r: URL %r does not start with %r' % (case['host_spelled'], url, head)))
    else:
        path = url[len(head):]
        if any(not (0x21 <= ord(c) <= 0x7e) for c in path) or '?' in path or '#' in path:
            bad.append(('C19:url-chars', 'path %r contains a raw space/control/non-ASCII character or ?/#' % path))
        got_go, why_go = pg_decode(path, plus=False)
        got_form, why_form = pg_decode(path, plus=True)
        if got_go != want and got_form == want and '+' in path:
            bad.append(('C19:space-as-plus', 'path %r: the Pushgateway (path unescaping, "+" literal) reads %r, input was %r; '
                        'only form decoding gives the input back — a space is written as "+"' % (path, got_go, want)))
        else:
            for which, got, why in (('path unescaping', got_go, why_go), ('form decoding', got_form, why_form)):
                if got is None:
                    bad.append(('C19:decode', 'path %r (%s): %s; input was %r' % (path, which, why, want)))
                    break
                elif got != want:
                    bad.append(('C19:decode', 'path %r decodes (%s) to %r, input was %r' % (path, which, got, want)))
                    break
    if cap['method'] != METHOD[fn]:
        bad.append(('C19:method', '%s used method %r, not %r' % (fn, cap['method'], METHOD[fn])))
    if fn == 'delete':
        if cap['data'] != b'':
            bad.append(('C19:body', 'delete sent a non-empty body (%d bytes)' % len(cap['data'] or b'')))
    else:
        expo = big_registry(case.get('children', 0))[1]
        if cap['data'] != expo:
            bad.append(('C19:body', '%s did not send the text exposition of the registry: generate_latest(registry) is %d bytes '
                        '(registry with %s), the body handed to the handler is %s bytes%s, headers %r'
                        % (fn, len(expo), '%d labelled children' % case['children'] if case.get('children') else 'the probe gauge',
                           len(cap['data']) if isinstance(cap['data'], (bytes, bytearray)) else '?',
                           ' and starts with the gzip magic' if bytes(cap['data'] or b'')[:2] == b'\x1f\x8b' else '',
                           cap['headers'])))
    hdrs = [(str(k).lower(), v) for k, v in (cap['headers'] or [])]
    if hdrs != [('content-type', CONTENT_TYPE)]:
        bad.append(('C19:content-type', 'headers %r, expected the single text content type (exposition %d bytes)'
                    % (cap['headers'], len(big_registry(case.get('children', 0))[1]))))
    if cap['timeout'] is not case['timeout'] and cap['timeout'] != case['timeout']:
        bad.append(('C19:timeout', 'time-out %r handed on as %r' % (case['timeout'], cap['timeout'])))
    return bad


# --------------------------------------------------------------------------------------------- cases
def mk_case(fn, host, scheme, slashes, job, gk, timeout):
    return {'fn': fn, 'host': host, 'scheme': scheme, 'slashes': slashes, 'host_spelled': scheme + host + slashes,
            'job': job, 'gk': [list(p) for p in gk], 'timeout': timeout}


def rand_str(rng, alphabet, lo, hi):
    return ''.join(rng.choice(alphabet) for _ in range(rng.randint(lo, hi)))


def rand_name(rng):
    return rng.choice(NAME_START) + ''.join(rng.choice(NAME_REST) for _ in range(rng.randint(0, 6)))


def rand_value(rng):
    r = rng.random()
    if r < 0.70:
        return rand_str(rng, FULL, 0, 10)
    if r < 0.76:
        return rng.choice([0, 1, -7, 2 ** 70, rng.randrange(-10 ** 6, 10 ** 6)])
    if r < 0.82:
        return rng.choice([0.5, -0.0, 1e100, 2.5e-7, float('inf'), rng.random()])
    if r < 0.86:
        return rng.choice([True, False])
    if r < 0.90:
        return None
    # any code point (no surrogates)
    return ''.join(chr(rng.choice([rng.randrange(0, 0xd800), rng.randrange(0xe000, 0x110000), rng.randrange(0, 256)]))
                   for _ in range(rng.randint(1, 6)))


def rand_gk(rng, n=None):
    n = rng.randint(0, 4) if n is None else n
    gk = {}
    while len(gk) < n:
        gk[rand_name(rng)] = rand_value(rng)
    items = list(gk.items())
    rng.shuffle(items)          # dict insertion order is arbitrary: sorting is the code's job
    return items


def rand_spelling(rng):
    return rng.choice(HOSTS), rng.choice(SCHEMES), rng.choice(SLASHES)


def corpus():
    out = []
    w = [('a/b', [('l', 'x y+%')]), ('', []), ('j', [('b', ''), ('a', '/')]), ('job', [('z', 1), ('a', None), ('m', 0.5)]),
         ('\u00e9 \u6f22?#', [('instance', 'h:1/x'), ('B', '+'), ('_', '%2F')]), ('a+b', [('l', 'a%20b'), ('k', 'a+b c')]),
         ('x\ny\r', [('l', '\x00\x7f'), ('l2', '=')]), ('=', [('l', '==')]), ('/', [('l', '//?'), ('k', '/\U0001F600')]),
         ('job', [('job', 'dup')]), ('%', [('ab', '1'), ('aB', '2'), ('a_', '3'), ('a0', '4')])]
    for job, gk in w:
        for fn in ('put', 'post', 'delete'):
            out.append(mk_case(fn, 'localhost:9091', '', '', job, gk, 30))
    for host in HOSTS:
        for scheme in SCHEMES:
            for sl in SLASHES:
                out.append(mk_case('put', host, scheme, sl, 'a/b', [('l', 'x y')], None))
    return out


def gen_cases(ctx):
    rng = ctx.rng
    cases = corpus()
    fns = ('put', 'post', 'delete')
    # exhaustive: every string up to length 3 over the reduced alphabet as job and as the value of one label;
    # every string up to length 2 over the full alphabet
    n_ex = 0
    for alphabet, depth in ((REDUCED, 3), (FULL, 2)):
        for n in range(0, depth + 1):
            for t in itertools.product(alphabet, repeat=n):
                s = ''.join(t)
                cases.append(mk_case(fns[n_ex % 3], 'h', '', '', s, [], 30))
                cases.append(mk_case(fns[(n_ex + 1) % 3], 'h', 'http://', '/', 'j', [('l', s)], 30))
                n_ex += 1
    n_rand = 2500 if ctx.tier == 'quick' else 60000
    if ctx.broken:
        n_rand *= 3
    for _ in range(n_rand):
        host, scheme, sl = rand_spelling(rng)
        job = rand_str(rng, FULL, 0, 12) if rng.random() < 0.8 else rand_value_str(rng)
        cases.append(mk_case(rng.choice(fns), host, scheme, sl, job, rand_gk(rng),
                             rng.choice([None, 30, 0.5, 7, 0])))
    return cases, n_ex


def big_cases(ctx):
    """push / pushadd / delete with LARGE registries: exposition sizes just under and just over powers of two.  The statement
    pins the body (the text exposition of the given registry, no transformation) and the headers for every registry size."""
    KiB = 1024
    fns = ('put', 'post', 'delete')
    if ctx.tier == 'quick' and not ctx.broken:
        u1, o1 = children_for(1024 * KiB)
        plan = [(u1, ('put',)), (o1, fns), (children_for(2048 * KiB)[1], ('post',))]
    elif ctx.tier == 'quick':          # an obligation broke: wider, still bounded
        plan = []
        for k in (64, 256, 1024, 2048):
            under, over = children_for(k * KiB)
            plan += [(under, ('put',)), (over, fns)]
    else:
        plan = []
        for k in (64, 128, 256, 512, 1024, 2048, 4096):
            under, over = children_for(k * KiB)
            plan += [(under, fns), (over, fns)]
    out = []
    for n, which in plan:
        for fn in which:
            c = mk_case(fn, 'localhost:9091', '', '', 'big job/%d' % n, [('size', n)], 30)
            c['children'] = n
            out.append(c)
    return out


def rand_value_str(rng):
    while True:
        v = rand_value(rng)
        if isinstance(v, str):
            return v


# --------------------------------------------------------------------------------------------- T2
def tok(t):
    return repr(t).replace(' ', '')


def driver_line(case):
    gk = lib.enc_list([lib.hx(str(k)) + ',' + lib.hx(str(v)) for k, v in case['gk']])
    return 'c19 use %s %s %s %s %s' % (case['fn'], lib.hx(case['host_spelled']), lib.hx(case['job']), gk, tok(case['timeout']))


def dec_pairs(f):
    if f == '-':
        return None
    if f == '.':
        return []
    return [tuple(lib.unhx(x) for x in item.split(',')) for item in f.split(';')]


def compare_model(ctx, case, cap, reply):
    """model observation vs real observation, verbatim"""
    if 'exc' in cap or cap.get('calls') != 1:
        return
    rep = reply.split(' ')
    if rep[0] != 'ok' or len(rep) != 8:
        ctx.diverge('driver error %r' % reply, case)
        return
    ctx.traces += 1
    st = _setup()
    m_url, m_method = lib.unhx(rep[1]), lib.unhx(rep[2])
    m_hdrs = dec_pairs(rep[3])
    if m_url != cap['url']:
        ctx.diverge('URL: model %r, implementation %r' % (m_url, cap['url']), case)
    if m_method != cap['method']:
        ctx.diverge('method: model %r, implementation %r' % (m_method, cap['method']), case)
    if m_hdrs != [tuple(h) for h in (cap['headers'] or [])]:
        ctx.diverge('headers: model %r, implementation %r' % (m_hdrs, cap['headers']), case)
    # for delete any non-empty body is "an exposition" (the real code would take the default registry's)
    flag = 'X' if cap['data'] == b'' else ('E' if cap['data'] == big_registry(case.get('children', 0))[1] or case['fn'] == 'delete' else '?')
    if rep[4] != flag:
        ctx.diverge('body: model %s, implementation %s (E = exposition, X = empty)' % (rep[4], flag), case)
    if rep[5] != tok(cap['timeout']):
        ctx.diverge('time-out: model %s, implementation %s' % (rep[5], tok(cap['timeout'])), case)
    # the spec's two readings of the model URL must be the input (theorems url_decodes_go / url_decodes) — visible in the run too
    want = [('job', case['job'])] + sorted((str(k), str(v)) for k, v in case['gk'])
    for f, thm in ((rep[6], 'url_decodes_go'), (rep[7], 'url_decodes')):
        if dec_pairs(f) != want:
            ctx.diverge('spec decoder reads the model URL as %r, input %r (theorem %s)' % (dec_pairs(f), want, thm), case)


def classify(case):
    vals = [case['job']] + [str(v) for _, v in case['gk']]
    kinds = set()
    for v in vals:
        if v == '':
            kinds.add('empty')
        elif '/' in v:
            kinds.add('base64')
        elif re.fullmatch(r'[A-Za-z0-9_.~-]*', v):
            kinds.add('plain-safe')
        else:
            kinds.add('plain-escaped')
    return kinds


def still_fails(case, sig):
    cap = call_case(case)
    return any(s == sig for s, _ in oracle(case, cap))


def shrink(case, sig):
    """greedy minimisation of a failing whole-request case (labels, then characters)"""
    c = dict(case)
    cand = dict(c, job='', gk=[])
    if (c['job'] or c['gk']) and still_fails(cand, sig):          # fast path: the labels play no part
        c = cand
    if c.get('children'):
        # smallest registry that still fails (bisection; assumes the failure is monotone in the size)
        lo, hi = 0, c['children']
        while hi - lo > 1:
            mid = (lo + hi) // 2
            if still_fails(dict(c, children=mid), sig):
                hi = mid
            else:
                lo = mid
        c['children'] = hi
        c['body_bytes'] = len(big_registry(hi)[1])
    changed = True
    rounds = 0
    while changed and rounds < 60:
        changed = False
        rounds += 1
        for i in range(len(c['gk'])):
            cand = dict(c, gk=c['gk'][:i] + c['gk'][i + 1:])
            if still_fails(cand, sig):
                c = cand; changed = True; break
        if changed:
            continue
        for i in range(len(c['job'])):
            cand = dict(c, job=c['job'][:i] + c['job'][i + 1:])
            if still_fails(cand, sig):
                c = cand; changed = True; break
        if changed:
            continue
        for j, (k, v) in enumerate(c['gk']):
            if isinstance(v, str):
                for i in range(len(v)):
                    cand = dict(c, gk=c['gk'][:j] + [[k, v[:i] + v[i + 1:]]] + c['gk'][j + 1:])
                    if still_fails(cand, sig):
                        c = cand; changed = True; break
            if changed:
                break
    return c


def run_use_cases(ctx, cases, shrink_failures=True):
    caps = []
    for case in cases:
        caps.append(call_case(case))
    replies = ctx.driver.run([driver_line(c) for c in cases])
    seen_url = ctx.extra.setdefault('_urls', {})
    n_fail_shrunk = 0
    for idx, case in enumerate(cases):
        cap = caps[idx]
        kinds = classify(case)
        for k in kinds:
            ctx.count('value:' + k)
        ctx.count('fn:' + case['fn'])
        ctx.count('labels:%d' % len(case['gk']))
        ctx.count('spelling:' + (case['scheme'] or 'none') + '+' + str(len(case['slashes'])) + 'slash')
        if any(not isinstance(v, str) for _, v in case['gk']):
            ctx.count('non-string value')
        if case.get('children'):
            size = len(big_registry(case['children'])[1])
            ctx.count('large registry: exposition >= %d KiB' % (1 << (size.bit_length() - 1) >> 10))
            sizes = ctx.extra.setdefault('_big_sizes', [])
            if size not in sizes:
                sizes.append(size)
        nontrivial = cap.get('url') if kinds - {'plain-safe'} else None
        ctx.case(nontrivial_key=nontrivial,
                 sample={'fn': case['fn'], 'gateway': case['host_spelled'], 'job': case['job'], 'grouping_key': case['gk'],
                         'url': cap.get('url'), 'method': cap.get('method')})
        for sig, what in oracle(case, cap):
            c = case
            big_done = ctx.extra.setdefault('_big_shrunk', set())
            if shrink_failures and n_fail_shrunk < 3 and not (case.get('children') and sig in big_done):
                n_fail_shrunk += 1
                if case.get('children'):
                    big_done.add(sig)
                c = shrink(case, sig)
                cap2 = call_case(c)
                w2 = [w for s, w in oracle(c, cap2) if s == sig]
                what = w2[0] if w2 else what
            ctx.fail(sig, what, dict(c, kind='use'))
        # distinct inputs -> distinct URLs (per gateway base)
        if 'url' in cap:
            key = (expected_base(case['host'], case['scheme'], case['slashes']), case['job'],
                   tuple(sorted((str(k), str(v)) for k, v in case['gk'])))
            prev = seen_url.get(cap['url'])
            if prev is not None and prev != key:
                ctx.fail('C19:collision', 'inputs %r and %r share the URL %r' % (prev, key, cap['url']), dict(case, kind='use'))
            seen_url[cap['url']] = key
        if replies is not None:
            compare_model(ctx, case, cap, replies[idx])


# --------------------------------------------------------------------------------------------- function level
def rand_text(rng, n):
    r = rng.random()
    if r < 0.5:
        return rand_str(rng, FULL, 0, n)
    if r < 0.8:
        return ''.join(chr(rng.randrange(0, 128)) for _ in range(rng.randint(0, n)))
    return ''.join(chr(rng.choice([rng.randrange(0, 0xd800), rng.randrange(0xe000, 0x110000)])) for _ in range(rng.randint(0, n)))


def function_level(ctx, n):
    rng = ctx.rng
    ex = _setup()['exposition']
    reqs, checks = [], []

    def add(line, fn):
        reqs.append(line); checks.append(fn)

    # quote_plus and the spec's unquote
    texts = [''.join(chr(i) for i in range(0, 128)), ''.join(chr(i) for i in range(128, 256)), ' ', '+', '%', '/']
    texts += [rand_text(rng, 16) for _ in range(n)]
    for s in texts:
        real = urllib.parse.quote_plus(s)
        real_q = urllib.parse.quote(s, safe='')

        def chk(rep, s=s, real=real, real_q=real_q):
            ctx.count('fn quote_plus / quote')
            c = {'kind': 'quote', 's': s}
            if lib.unhx(rep[1]) != real:
                ctx.diverge('quote_plus(%r): model %r, CPython %r' % (s, lib.unhx(rep[1]), real), c)
            if rep[2] == '-' or lib.unhx(rep[2]) != s:
                ctx.diverge('spec unquotePlus(quotePlus(%r)) = %s (theorem unquote_quote_plus)' % (s, rep[2]), c)
            if lib.unhx(rep[3]) != real_q:
                ctx.diverge("quote(%r, safe=''): model %r, CPython %r" % (s, lib.unhx(rep[3]), real_q), c)
            if rep[4] == '-' or lib.unhx(rep[4]) != s or rep[5] == '-' or lib.unhx(rep[5]) != s:
                ctx.diverge('spec unquote/unquotePlus(quote(%r)) = %s / %s (theorem unquote_quote)' % (s, rep[4], rep[5]), c)
            if (urllib.parse.unquote_plus(real, errors='strict') != s or urllib.parse.unquote(real_q, errors='strict') != s
                    or urllib.parse.unquote_plus(real_q, errors='strict') != s):
                raise lib.Infra('CPython unquote*(quote*(s)) != s for %r' % s)
        add('c19 quote ' + lib.hx(s), chk)
    # urlsafe_b64encode and the spec's decoder
    blobs = [b'', b'\x00', b'\xff', b'\xfb\xff\xfe', bytes(range(256))] + [rng.randbytes(rng.randint(0, 40)) for _ in range(n)]
    for b in blobs:
        real = base64.urlsafe_b64encode(b).decode('ascii')

        def chk(rep, b=b, real=real):
            ctx.count('fn urlsafe_b64encode')
            if lib.unhx(rep[1]) != real:
                ctx.diverge('urlsafe_b64encode(%r): model %r, CPython %r' % (b, lib.unhx(rep[1]), real), {'kind': 'b64', 'x': b.hex()})
            if rep[2] == '-' or lib.unxb(rep[2]) != b:
                ctx.diverge('spec b64decode(b64encode(%r)) = %s (theorem b64_roundtrip)' % (b, rep[2]), {'kind': 'b64', 'x': b.hex()})
        add('c19 b64 ' + lib.xb(b), chk)
    # _escape_grouping_key
    for _ in range(n):
        k, v = rand_name(rng), rand_value_str(rng)
        try:
            real = ex._escape_grouping_key(k, v)
        except Exception as e:  # noqa
            ctx.fail('C19:raises', '_escape_grouping_key(%r, %r) raised %s' % (k, v, type(e).__name__), {'kind': 'esc', 'k': k, 'v': v})
            continue

        def chk(rep, k=k, v=v, real=real):
            ctx.count('fn _escape_grouping_key')
            got = (lib.unhx(rep[1]), lib.unhx(rep[2]))
            if got != tuple(real):
                ctx.diverge('_escape_grouping_key(%r, %r): model %r, implementation %r' % (k, v, got, real), {'kind': 'esc', 'k': k, 'v': v})
            if dec_pairs(rep[3]) != [(k, v)] or dec_pairs(rep[4]) != [(k, v)]:
                ctx.diverge('spec decodePair(escape(%r, %r)) = %r (path unescaping) / %r (form) (theorems pair_decodes_go, pair_decodes)'
                            % (k, v, dec_pairs(rep[3]), dec_pairs(rep[4])), {'kind': 'esc', 'k': k, 'v': v})
        add('c19 esc %s %s' % (lib.hx(k), lib.hx(v)), chk)
    # the scheme test of urlparse, scheme defaulting, rstrip
    gws = [s + h + sl for h in HOSTS for s in SCHEMES for sl in SLASHES]
    gws += ['http:9091', 'https:9091', 'HTTPS:1', '1h:90', 'a+b:9', ' http://h', 'ht\ntp://h', '', '/', 'http://', 'h:', '://h',
            'http:/h', 'httpx://h', '\u00e9:9', 'ftp://h/', 'h\t:1', '\x1f\x00 https://x//', 'a.b-c+d://x', 'a_b://x', ':', 'x:y:z/']
    for _ in range(n):
        gws.append(rand_str(rng, 'htps:/.+-1AZ[]_ \t\n\u00e9', 0, 12))
    for g in gws:
        try:
            sch = urllib.parse.urlparse(g).scheme
        except ValueError:
            ctx.count('fn urlparse raises ValueError (outside the model)')
            continue
        needs = (not sch) or sch not in ['http', 'https']
        base = (('http://' + g) if needs else g).rstrip('/')

        def chk(rep, g=g, sch=sch, needs=needs, base=base):
            ctx.count('fn urlparse.scheme')
            got = (lib.unhx(rep[1]), rep[2] == '1', lib.unhx(rep[3]))
            if got != (sch, needs, base):
                ctx.diverge('gateway %r: model (scheme, defaulted, base) = %r, CPython %r' % (g, got, (sch, needs, base)), {'kind': 'scheme', 'g': g})
        add('c19 scheme ' + lib.hx(g), chk)
    # the spec decoders against CPython's on arbitrary text, wherever the spec accepts
    for _ in range(n):
        s = rand_str(rng, list('%+/aF09=-_ ') + ['\u00e9', '%41', '%C3%A9', '%e6%bc%a2', '%2F', '%zz'], 0, 8)

        def chk(rep, s=s):
            ctx.count('fn spec unquotePlus / unquote')
            for f, fn, name in ((rep[1], urllib.parse.unquote_plus, 'unquotePlus'), (rep[2], urllib.parse.unquote, 'unquote')):
                if f != '-':
                    try:
                        py = fn(s, errors='strict')
                    except UnicodeDecodeError:
                        py = None
                    if py != lib.unhx(f):
                        ctx.diverge('spec %s(%r) = %r, CPython %r' % (name, s, lib.unhx(f), py), {'kind': 'unq', 's': s})
        add('c19 unq ' + lib.hx(s), chk)
        t = rand_str(rng, 'AZaz09-_=', 0, 9)

        def chk2(rep, t=t):
            ctx.count('fn spec b64decode')
            if rep[1] != '-':
                raw = t.rstrip('=')
                py = base64.urlsafe_b64decode(raw + '=' * (-len(raw) % 4))
                if py != lib.unxb(rep[1]):
                    ctx.diverge('spec b64decode(%r) = %r, CPython %r' % (t, lib.unxb(rep[1]), py), {'kind': 'b64d', 's': t})
        add('c19 b64d ' + lib.hx(t), chk2)
    replies = ctx.driver.run(reqs)
    if replies is None:
        return
    for rep, chk, line in zip(replies, checks, reqs):
        parts = rep.split(' ')
        if parts[0] != 'ok':
            ctx.diverge('driver error %r for %r' % (rep, line), {'kind': 'line', 'line': line})
            continue
        ctx.traces += 1
        chk(parts)


# --------------------------------------------------------------------------------------------- entry points
def run(ctx):
    ctx.rule = ('whole requests: corpus of witnesses; every string of length <= 3 over %r and of length <= 2 over the full alphabet '
                '%r as job and as a label value; random jobs (length 0-12, full alphabet or arbitrary code points) with 0-4 '
                'labels (legacy names, shuffled insertion order; values: strings, ints, floats, bools, None) over gateway '
                'spellings %r x schemes %r x trailing slashes %r and the three public functions; a case is non-trivial when '
                'the job or a value is empty, contains "/" or needs escaping; distinct by URL.  Large registries: exposition sizes '
                'just under / over powers of two from 64 KiB (quick: just under / over 1 MiB and over 2 MiB, more sizes after a broken obligation; thorough: '
                'every power up to 4 MiB) for all three functions.  Function level: quote_plus, '
                'quote(safe=""), urlsafe_b64encode, _escape_grouping_key, urlparse scheme test/base, both spec decoders vs CPython.'
                % (REDUCED, FULL, HOSTS, SCHEMES, SLASHES))
    _setup()
    cases, n_ex = gen_cases(ctx)
    run_use_cases(ctx, cases)
    big = big_cases(ctx)
    for n in sorted({c['children'] for c in big}):          # one registry size at a time (memory)
        run_use_cases(ctx, [c for c in big if c['children'] == n])
    _big.clear()
    ctx.extra['large_registries'] = ('push/pushadd/delete with one Gauge of N labelled children, N chosen so that generate_latest '
                                     'is the largest size <= and the smallest size > each target; body compared byte for byte with '
                                     'generate_latest(registry), headers with the single text content type; sizes (bytes): %s'
                                     % sorted(ctx.extra.pop('_big_sizes', [])))
    function_level(ctx, 600 if ctx.tier == 'quick' else 20000)
    from props import c19handlers; c19handlers.run(ctx)      # the library's own handlers on the wire
    ctx.extra.pop('_urls', None)
    ctx.extra.pop('_big_shrunk', None)
    ctx.extra['exhaustive_part'] = ('%d strings enumerated exhaustively (length <= 3 over the reduced alphabet, <= 2 over the full '
                                    'one), each as job and as label value; the rest is seeded random' % n_ex)
    ctx.extra['two_decoders'] = ("every captured URL is decoded with urllib.parse.unquote (path unescaping, '+' literal: the Pushgateway) "
                                 "and with unquote_plus (form decoding); both must give the inputs back.  The former quote_plus encoding "
                                 "(space -> '+') fails the first reading: signature C19:space-as-plus")
    ctx.extra['outside_quantifier'] = ('label names that are not legacy label names (e.g. containing "/"): written unescaped by '
                                       'the client; theorem name_with_slash_outside_quantifier')


def replay(ctx, case):
    c = case.get('case')
    if not c:
        print('replay file names no single input (%s); re-running the whole check' % case.get('kind'))
        run(ctx)
        for d in ctx.divergences[:10]:
            print('REPLAY-DIVERGE', d['what'])
        for f in ctx.failures[:10]:
            print('REPLAY-FAIL', f['what'])
        return 1 if ctx.failures or ctx.divergences or ctx.broken else 0
    _setup()
    kind = c.get('kind', 'use')
    if kind.startswith('h'):
        from props import c19handlers; return c19handlers.replay(ctx, case)
    if kind == 'use':
        print('replaying %s(gateway=%r, job=%r, grouping_key=%r, timeout=%r)%s' % (
            c['fn'], c['host_spelled'], c['job'], dict((k, v) for k, v in c['gk']), c['timeout'],
            ' with a registry of %d labelled children (exposition %d bytes)' % (c['children'], len(big_registry(c['children'])[1]))
            if c.get('children') else ''))
        run_use_cases(ctx, [c], shrink_failures=False)
        cap = call_case(c)
        print('observed: url=%r method=%r headers=%r body=%d bytes timeout=%r' % (
            cap.get('url'), cap.get('method'), cap.get('headers'), len(cap.get('data') or b''), cap.get('timeout')))
    else:
        print('function-level case %r: re-running the function-level comparison' % (c,))
        function_level(ctx, 300)
    for f in ctx.failures:
        print('REPLAY-FAIL', f['what'])
    for f in ctx.divergences:
        print('REPLAY-DIVERGE', f['what'])
    return 1 if ctx.failures or ctx.divergences else 0
