"""C12 — in-memory and file-backed value stores are observationally equivalent.

Per case (1–3 metrics of the four supported types, gauges in any of the ten multiprocess modes, one C01-style history):
  * REAL, in-process: `values.ValueClass = MutexValue`, a fresh CollectorRegistry, every call applied,
    `registry.collect()` at the end; the raised exception class (or ok) of every call is recorded.
  * REAL, file-backed: `values.ValueClass = values.MultiProcessValue(lambda: pid)` (re-pointed before constructing the
    metrics and before EVERY call, because `labels()` reads the module global when it creates a child) in a temporary
    PROMETHEUS_MULTIPROC_DIR (harness/mpsim.py), the same calls under the same scripted clock
    (`prometheus_client.metrics.time`), collected through `MultiProcessCollector(CollectorRegistry(), path).collect()`.
  * ORACLE on the real code, independent of the Lean model: both collections are flattened to
    (sample name, sorted labels) -> value and normalised as the PROPERTY TEXT says — `_created` samples dropped, the
    `pid` label dropped for gauges in all/liveall mode, order ignored, series of mostrecent gauges whose child was never
    `set` ignored — and compared with numeric equality on `float(value)` (NaN = NaN); every call must raise the same
    class on both back-ends.  A difference is `ctx.fail` with a narrow signature naming its shape.
  * T2: the same case goes to the driver (`c12 run …`), which returns both models' raw and normalised collections:
    raw in-memory model == real in-process collection, raw file-backed model == real multiprocess collection,
    outcomes == real outcomes, Lean `normalise` == the harness's own normalisation of the real collections.
  * F28 characterised (backends_equivalent_with_removals_partial): for a history WITH remove()/clear() the real
    multiprocess collection must equal the real IN-PROCESS collection of the history with every remove/clear erased
    (`oracle_erased`; signature prefix `C12:removals-not-as-erased:`); the comparison with the un-erased history stays
    the known finding `C12:remove-clear-not-propagated`.
  * the hypothesis the Lean theorem takes from C13 (`le` text is a fixpoint: floatToGoString(float(floatToGoString(b)))
    == floatToGoString(b), and float(floatToGoString(b)) == b) is validated on every bound of every generated layout.
"""
import itertools
import json
import math

import lib
import mpsim
from mpsim import feq
from props import c01

KINDS = ('counter', 'gauge', 'summary', 'histogram')
MODES = ('all', 'liveall', 'min', 'livemin', 'max', 'livemax', 'sum', 'livesum', 'mostrecent', 'livemostrecent')
MOSTRECENT = ('mostrecent', 'livemostrecent')
PIDMODES = ('all', 'liveall')
INF = float('inf')
F = c01.F
py_of = c01.py_of

SIG_F14 = 'C12:negative-first-bound-sum'
SIG_REMOVE = 'C12:remove-clear-not-propagated'
SIG_ZERO = 'C12:signed-zero-bounds'
SIG_RAISES = 'C12:file-backed-raises'
SIG_PID = 'C08:gauge-label-named-pid'          # known finding of C08; excluded precondition here (never generated)


# ------------------------------------------------------------------------------------------------ wire
ACTS = ('touch', 'inc', 'dec', 'set', 'observe', 'reset', 'set_to_current_time', 'state', 'info')


class Unsupported(Exception):
    """an op shape C12 does not drive (C01 keeps adding its own: caller-side mutations, ...)"""


def supported(op):
    if not isinstance(op, (list, tuple)) or not op:
        return False
    if op[0] == 'collect':
        return len(op) == 2
    if op[0] == 'clear':
        return len(op) == 2
    if op[0] == 'remove':
        return len(op) == 3
    return op[0] == 'call' and len(op) == 6 and op[4] in ACTS


def wire_op(op, t=1.0):
    """`t`: what the scripted clock shows during the op (`set_to_current_time` is a `set` of it)"""
    if not supported(op):
        raise Unsupported(repr(op)[:80])
    if op[0] == 'clear':
        return 'clear/%d' % op[1]
    if op[0] == 'remove':
        return 'remove/%d/%s' % (op[1], c01.wire_list([c01.wire_pyval(v) for v in op[2]]))
    _, i, args, kws, act, arg = op
    if act == 'set_to_current_time':
        act, arg = 'set', F(t)
    w = c01.wire_op(['call', args, kws, act, arg])              # call/<args>/<kws>/<act>/<arg>
    if not w.startswith('call/') or w.count('/') != 4:
        raise Unsupported(w[:80])
    return 'call/%d/%s' % (i, w[len('call/'):])


def wire_spec(spec):
    kind = spec['kind']
    if kind == 'histogram':
        extra = c01.wire_list(['%s~%s' % (lib.fbits(float(py_of(b))), lib.hx(repr(float(py_of(b))))) for b in spec['buckets']])
    else:
        extra = '.'
    return '^'.join(['1' if spec['legacy'] else '0', kind, lib.hx(spec['name']), lib.hx(spec['help']),
                     lib.hx(spec.get('mode', '')), c01.wire_list([lib.hx(l) for l in spec['labelnames']]), extra])


def plain(case):
    """the case without its collection points (`['collect', age]` pseudo-ops); every kept op keeps its clock reading"""
    if not any(op[0] == 'collect' for op in case['ops']):
        return case
    keep = [n for n, op in enumerate(case['ops']) if op[0] != 'collect']
    return dict(case, ops=[case['ops'][n] for n in keep], clock=[case['clock'][n] for n in keep])


def wire_line(case):
    case = plain(case)
    specs = '|'.join(wire_spec(s) for s in case['specs']) or '.'
    clock = c01.wire_list([lib.fbits(t) for t in case['clock']])
    return 'c12 run %s %s %s %s' % (lib.hx(str(case['pid'])), clock, specs,
                                    c01.wire_list([wire_op(o, t) for o, t in zip(case['ops'], case['clock'])], ';'))


def parse_labels(f):
    d = {}
    if f != '.':
        for kv in f.split('+'):
            k, v = kv.split('=')
            d[lib.unhx(k)] = lib.unhx(v)
    return tuple(sorted(d.items())), (0 if f == '.' else len(f.split('+')))


def parse_flat(f):
    out = []
    if f != '.':
        for s in f.split(','):
            fam, name, labels, val = s.split('!')
            ls, n = parse_labels(labels)
            out.append((lib.unhx(fam), lib.unhx(name), ls, lib.unfbits(val), n))
    return out


def parse_norm(f):
    out = []
    if f != '.':
        for s in f.split(','):
            name, labels, val = s.split('!')
            ls, _ = parse_labels(labels)
            out.append((lib.unhx(name), ls, lib.unfbits(val)))
    return out


# ------------------------------------------------------------------------------------------------ real code
def build(spec, reg):
    import prometheus_client as pc
    cls = {'counter': pc.Counter, 'gauge': pc.Gauge, 'summary': pc.Summary, 'histogram': pc.Histogram}[spec['kind']]
    kw = {}
    if spec['kind'] == 'histogram':
        kw['buckets'] = [py_of(b) for b in spec['buckets']]
    if spec['kind'] == 'gauge':
        kw['multiprocess_mode'] = spec['mode']
    return cls(spec['name'], spec['help'], labelnames=list(spec['labelnames']), registry=reg, **kw)


def do_op(ms, op, track):
    """apply one call; `track(i, key, what)` records accepted set / removal events for the oracle's bookkeeping"""
    i = op[1]
    m = ms[i]                                      # IndexError if the metric does not exist (never generated)
    if op[0] == 'clear':
        had = len(getattr(m, '_metrics', {}) or {})
        m.clear()
        track(i, None, 'clear', had)
        return
    if op[0] == 'remove':
        before = dict(getattr(m, '_metrics', {}) or {})
        m.remove(*[py_of(v) for v in op[2]])
        after = getattr(m, '_metrics', {}) or {}
        for k in before:
            if k not in after:
                track(i, k, 'remove', 1)
        return
    _, _, args, kws, act, arg = op
    target = m
    if args is not None:
        target = m.labels(*[py_of(v) for v in args], **{k: py_of(v) for k, v in c01.kw_dict(kws).items()})
    if act == 'touch':
        return
    meth = getattr(target, act)
    if act == 'set_to_current_time':
        meth()
        track(i, tuple(target._labelvalues), 'set', 1)
        return
    if act in ('inc', 'dec', 'set', 'observe'):
        x = py_of(arg)
        meth(x)
        if act == 'set':
            track(i, tuple(target._labelvalues), 'set', 1)
        return
    meth()


def flatten(fams, raw, meta=None):
    """[(family, sample name, sorted labels, value, number of labels)] without `_created` samples of the families
    that have them; `meta` collects (name, type, documentation) per family"""
    for fam in fams:
        if meta is not None:
            meta.append((fam.name, fam.type, fam.documentation))
        for s in fam.samples:
            if fam.type in ('counter', 'summary', 'histogram') and s.name == fam.name + '_created':
                continue
            raw.append((fam.name, s.name, tuple(sorted((str(k), str(v)) for k, v in s.labels.items())),
                        float(s.value), len(s.labels)))


AGES = ('now', '3s', '1h', 'keep')


def age_files(d, age, t0):
    """set the mtime of every store file: now / 3 s / 1 h before the start of the run / unchanged"""
    import glob
    import os
    import time as _time
    if age == 'keep':
        return
    t = {'now': _time.time(), '3s': t0 - 3.0, '1h': t0 - 3600.0}[age]
    for f in glob.glob(os.path.join(d, '*.db')):
        os.utime(f, (t, t))


class Run:
    """both real back-ends on one case"""

    def __init__(self, case):
        self.case = case
        self.err = [None, None]          # constructor exception class per back-end
        self.outs = [[], []]
        self.raw = [[], []]
        self.meta = [[], []]         # (family name, type, help) per back-end
        self.collect_err = [None, None]
        self.sets = [set(), set()]       # (metric index, child key) with an accepted set since the child was created
        self.removed = [set(), set()]    # metric indices on which a remove/clear deleted a child
        self.live = None                 # {metric index: set(child keys)} in-process at the end
        self.points = [[], []]           # snapshots at the intermediate collection points, per back-end

    def go(self):
        from prometheus_client import validation, values
        from prometheus_client.multiprocess import MultiProcessCollector
        from prometheus_client.registry import CollectorRegistry
        case = self.case
        from prometheus_client import mmap_dict
        old_leg = validation._legacy_validation
        old_size = mmap_dict._INITIAL_MMAP_SIZE
        validation._legacy_validation = bool(case['legacy'])
        if case.get('mmap_size'):
            # a small initial file size: the store crosses its capacity (and doubles) after a few entries, at many
            # alignments of the new entry against the end of the file
            mmap_dict._INITIAL_MMAP_SIZE = int(case['mmap_size'])
        import time as _time
        t0 = _time.time()
        try:
            with mpsim.Sim() as sim:
                mp_cls = sim.new_class(case['pid'])
                for side, cls in ((0, values.MutexValue), (1, mp_cls)):
                    def track(i, key, what, n, side=side):
                        if what == 'set':
                            self.sets[side].add((i, key))
                        elif what == 'remove':
                            self.sets[side].discard((i, key))
                            self.removed[side].add(i)
                        elif what == 'clear':
                            self.sets[side] = {x for x in self.sets[side] if x[0] != i}
                            if n:
                                self.removed[side].add(i)
                    sim.use(cls)
                    sim.clock.now = 1.0
                    reg = CollectorRegistry()
                    ms = []
                    try:
                        for spec in case['specs']:
                            ms.append(build(spec, reg))
                    except Exception as e:
                        self.err[side] = type(e).__name__
                        continue
                    def collect_now(raw, meta, age, side=side, reg=reg, ms=ms):
                        """one collection; on the file-backed side the store files are first AGED (their mtime set into
                        the past: a long-running process) — the collector must not care"""
                        if side == 0:
                            flatten(reg.collect(), raw, meta)
                            return {i: set((getattr(m, '_metrics', None) or {}).keys()) if m._labelnames else {()}
                                    for i, m in enumerate(ms)}
                        age_files(sim.dir, age, t0)
                        flatten(MultiProcessCollector(CollectorRegistry(), sim.dir).collect(), raw, meta)
                        return None
                    for n, op in enumerate(case['ops']):
                        sim.use(cls)
                        sim.clock.now = case['clock'][n]
                        if op[0] == 'collect':
                            pt = {'k': n, 'raw': [], 'meta': [], 'err': None, 'live': None,
                                  'sets': set(self.sets[side]), 'removed': set(self.removed[side])}
                            try:
                                pt['live'] = collect_now(pt['raw'], pt['meta'], op[1])
                                self.outs[side].append('ok')
                            except Exception as e:
                                pt['err'] = type(e).__name__
                                self.outs[side].append(type(e).__name__)
                            self.points[side].append(pt)
                            continue
                        try:
                            do_op(ms, op, track)
                            self.outs[side].append('ok')
                        except Exception as e:
                            self.outs[side].append(type(e).__name__)
                    try:
                        live = collect_now(self.raw[side], self.meta[side], case.get('final_age', 'keep'))
                        if side == 0:
                            self.live = live
                    except Exception as e:
                        self.collect_err[side] = type(e).__name__
        finally:
            validation._legacy_validation = old_leg
            mmap_dict._INITIAL_MMAP_SIZE = old_size
        return self


# ------------------------------------------------------------------------------------------------ normalisation (property text)
def spec_of(case, fam):
    for i, s in enumerate(case['specs']):
        if s['name'] == fam:
            return i, s
    return None, None


def never_set_series(case, run):
    """{(family, sorted labels)} of live children of mostrecent gauges without an accepted set (in-process run)"""
    out = set()
    for i, s in enumerate(case['specs']):
        if s['kind'] == 'gauge' and s['mode'] in MOSTRECENT and run.live is not None:
            for key in run.live.get(i, ()):
                if (i, key) not in run.sets[0]:
                    out.add((s['name'], tuple(sorted(zip(s['labelnames'], key)))))
    return out


def normalise(case, raw, never):
    """-> ({(sample name, sorted labels): value}, [duplicate-with-different-value descriptions])"""
    out = {}
    dups = []
    for fam, name, labels, value, _ in raw:
        _, spec = spec_of(case, fam)
        if spec is not None:
            if spec['kind'] == 'gauge' and spec['mode'] in PIDMODES:
                labels = tuple(kv for kv in labels if kv[0] != 'pid')
            if spec['kind'] == 'gauge' and spec['mode'] in MOSTRECENT and (fam, labels) in never:
                continue
        k = (name, labels)
        if k in out:
            if not feq(out[k], value):
                dups.append('%s%r listed twice with values %r and %r' % (name, dict(labels), out[k], value))
        else:
            out[k] = value
    return out, dups


def family_of(case, name):
    """the declared metric a sample name belongs to"""
    for i, s in enumerate(case['specs']):
        suffixes = {'counter': ['_total'], 'gauge': [''], 'summary': ['_count', '_sum'],
                    'histogram': ['_bucket', '_count', '_sum']}[s['kind']]
        for suf in suffixes:
            if name == s['name'] + suf:
                return i, s, suf
    return None, None, None


def first_bound_negative(spec):
    bs = [float(py_of(b)) for b in spec['buckets']]
    return bool(bs) and not (bs[0] >= 0)


def has_signed_zeros(spec):
    bs = [float(py_of(b)) for b in spec['buckets']]
    return any(b == 0 and math.copysign(1, b) < 0 for b in bs) and any(b == 0 and math.copysign(1, b) > 0 for b in bs)


def signed_zero_diff(a, b):
    return a == 0 and b == 0 and math.copysign(1.0, a) != math.copysign(1.0, b)


def oracle(case, run, stats=None):
    """-> list of (signature, description).  `stats` (dict) counts documented limits seen: values that agree
    numerically but differ in the sign of zero (the collector's `0.0 + value`)"""
    fails = []
    if run.err[0] is None and run.err[1] is not None:
        return [(SIG_RAISES, 'a constructor raised %s on the file-backed back-end only' % run.err[1])]
    if run.err[0] != run.err[1]:
        return [('C12:constructor-outcome-differs', 'constructors: in-process %r, file-backed %r' % (run.err[0], run.err[1]))]
    if run.err[0] is not None:
        return []
    for n, (a, b) in enumerate(zip(run.outs[0], run.outs[1])):
        if a != b:
            sig = SIG_RAISES if a == 'ok' else 'C12:call-outcome-differs'
            fails.append((sig, 'step %d %r: in-process %s, file-backed %s' % (n, case['ops'][n], a, b)))
            break
    if run.collect_err[1] and not run.collect_err[0]:
        fails.append((SIG_RAISES, 'MultiProcessCollector.collect() raised %s; the in-process collection returned' % run.collect_err[1]))
        return fails
    if run.collect_err[0] or run.collect_err[1]:
        fails.append(('C12:collect-raised', 'collect raised: in-process %r, multiprocess %r' % tuple(run.collect_err)))
        return fails
    never = never_set_series(case, run)
    A, da = normalise(case, run.raw[0], never)
    B, db = normalise(case, run.raw[1], never)
    for d in da:
        fails.append(('C12:duplicate-series-in-process', d))
    for d in db:
        fails.append(('C12:duplicate-series-multiprocess', d))
    # family metadata: every family the collector reports is an in-process family with the same type and help,
    # reported once; every in-process family that has a sample is reported (never-set mostrecent gauges aside)
    inproc = {}
    for name, typ, doc in run.meta[0]:
        inproc.setdefault(name, (typ, doc))
    seen_mp = set()
    for name, typ, doc in run.meta[1]:
        if name in seen_mp:
            fails.append(('C12:family-reported-twice', 'the collector lists family %r twice' % name))
        seen_mp.add(name)
        if name not in inproc:
            fails.append(('C12:family-metadata-differs', 'family %r is reported by the collector only' % name))
        elif inproc[name] != (typ, doc):
            fails.append(('C12:family-metadata-differs', 'family %r: in-process (type, help) %r, multiprocess %r'
                          % (name, inproc[name], (typ, doc))))
    fams_with_samples = {family_of(case, k[0])[1]['name'] for k in A if family_of(case, k[0])[1] is not None}
    for name in sorted(fams_with_samples - seen_mp):
        i, spec = spec_of(case, name)
        if i not in run.removed[0]:
            fails.append(('C12:family-metadata-differs', 'family %r has in-process samples but is not reported by the collector' % name))
    seen = set()
    for k in sorted(set(A) | set(B)):
        if k in A and k in B and feq(A[k], B[k]):
            if stats is not None and signed_zero_diff(A[k], B[k]):
                stats['signed-zero-sum'] = stats.get('signed-zero-sum', 0) + 1
                stats.setdefault('signed-zero-sum-sample', '%s%r: in-process %r, multiprocess %r' % (k[0], dict(k[1]), A[k], B[k]))
            continue
        i, spec, suf = family_of(case, k[0])
        kind = spec['kind'] if spec else '?'
        mode = (':' + spec['mode']) if spec and kind == 'gauge' else ''
        if k in A and k in B:
            shape, what = 'value-differs', 'in-process %r, multiprocess %r' % (A[k], B[k])
        elif k in A:
            shape, what = 'series-only-in-process', 'in-process %r, absent from the multiprocess collection' % (A[k],)
        else:
            shape, what = 'series-only-multiprocess', 'multiprocess %r, absent from the in-process collection' % (B[k],)
        if spec is not None and i in run.removed[0]:
            sig = SIG_REMOVE
        elif kind == 'histogram' and suf == '_sum' and shape == 'series-only-multiprocess' and first_bound_negative(spec):
            sig = SIG_F14
        elif kind == 'histogram' and suf in ('_bucket',) and has_signed_zeros(spec) and dict(k[1]).get('le') in ('0.0', '-0.0'):
            sig = SIG_ZERO
        else:
            sig = 'C12:%s:%s%s:%s' % (shape, kind, mode, suf if suf else 'value')
        if sig in seen:
            continue
        seen.add(sig)
        fails.append((sig, '%s%r: %s' % (k[0], dict(k[1]), what)))
    return fails


# ------------------------------------------------------------------------------------------------ C13 hypothesis on bounds
def check_bounds(ctx, case):
    from prometheus_client.utils import floatToGoString
    for s in case['specs']:
        if s['kind'] != 'histogram':
            continue
        bs = [float(py_of(b)) for b in s['buckets']] + [INF]
        for b in bs:
            if b != b:
                continue
            t = floatToGoString(b)
            ctx.count('bound-texts-checked')
            back = again = None
            try:
                back = float(t)
                again = floatToGoString(back)
            except ValueError:
                pass
            if back is None or back != b or again != t:
                ctx.fail('C12:le-text-not-a-fixpoint', 'bound %r renders as %r, which reads back as %r and renders again as %r'
                         % (b, t, back, again), {'specs': [s], 'ops': [], 'clock': [], 'pid': 7, 'legacy': True})


# ------------------------------------------------------------------------------------------------ generators
NAMES = ['m', 'req_x', 'h1']
HELPS = ['doc', '', 'help é "q" \\ \n line', 'x']
PIDS = [7, 1, 12345, 'w-3']
BOUND_POOL = c01.BOUND_POOL + [1e7, 123456789.0, 2.5e15, 9.999999999999998e15, 1e17, 1e22, 1.7976931348623157e308, -1e6, -1e16]


def gen_spec(rng, name, kind=None, mode=None, legacy=True):
    kind = kind or rng.choice(KINDS)
    while True:
        s = c01.gen_spec(rng, kind=kind)
        # names rejected by the constructor are C01/C05's business; keep the label-name pools, drop `pid` (C08 finding)
        if 'pid' in s['labelnames']:
            continue
        break
    s['name'] = name
    s['legacy'] = legacy
    if not legacy:
        pass
    s['help'] = rng.choice(HELPS)
    s['mode'] = (mode or rng.choice(MODES)) if kind == 'gauge' else ''
    if kind == 'histogram' and rng.random() < 0.5:
        k = rng.choice([1, 2, 3, 4, 6])
        bs = sorted(set(rng.choice(BOUND_POOL) for _ in range(k)))
        if rng.random() < 0.3:
            bs.append(INF)
        s['buckets'] = [F(b) for b in bs]
    return s


def tag(ops, i):
    """C01's ops on metric `i`; op shapes C12 does not drive (C01's caller-side `mutate`, future ones) are dropped"""
    out = []
    for op in ops:
        t = [op[0], i] + list(op[1:])
        if supported(t) and t[0] != 'collect':
            out.append(t)
    return out


def gen_case(rng, length, removal):
    legacy = rng.random() < 0.5
    n = rng.choice([1, 1, 1, 2, 3])
    names = rng.sample(NAMES, n)
    specs = [gen_spec(rng, nm, legacy=legacy) for nm in names]
    for s in specs:
        if not legacy:
            continue
        # legacy validation: keep only legacy label names (the constructor would reject the others on both back-ends)
        s['labelnames'] = [l for l in s['labelnames'] if l in c01.LEGACY_NAMES]
    per = [tag(c01.gen_history(rng, s, max(1, length // n + rng.choice([0, 1]))), i) for i, s in enumerate(specs)]
    ops = []
    while any(per):
        j = rng.choice([i for i, p in enumerate(per) if p])
        ops.append(per[j].pop(0))
    if not removal:
        ops = [o for o in ops if o[0] == 'call']
    for o in ops:
        if o[0] == 'call' and o[4] == 'set' and specs[o[1]]['kind'] == 'gauge' and rng.random() < 0.3:
            o[4], o[5] = 'set_to_current_time', None
        elif o[0] == 'call' and o[4] in ('inc', 'observe') and rng.random() < 0.01:
            o[4], o[5] = 'set_to_current_time', None          # not a method of the other classes: AttributeError on both
    return make_case(specs, ops, rng.choice(PIDS), legacy, rng)


WILD_CLOCK = [1000.0, 1000.0, 999.5, 1001.25, 998.0, 1003.0, 5.0, 1e9, 1000.5]


def make_case(specs, ops, pid=7, legacy=True, rng=None, clock=None):
    """the scripted clock: one positive reading per op — non-decreasing, or (a third of the random cases) drawn at
    random with equal and DECREASING readings (a wall clock stepping backwards)"""
    if clock is None:
        clock = []
        wild = rng is not None and rng.random() < 0.33
        t = 1000.0
        for _ in ops:
            if wild:
                t = rng.choice(WILD_CLOCK)
            else:
                t += (rng.choice([0.0, 0.5, 1.0, 3.25]) if rng else 1.0)
            clock.append(t)
    return {'specs': specs, 'ops': ops, 'pid': pid, 'legacy': legacy, 'clock': list(clock)}


def gen_growth_case(rng, mmap_size, children):
    """many labelled children with label values of varying length in ONE per-type file, so that the store reaches the end
    of its capacity and grows, the new entry ending at every alignment against the end of the file"""
    kind = rng.choice(['counter', 'counter', 'gauge', 'summary'])
    names = rng.choice([['l'], ['l', 'k']])
    spec = mspec(kind, 'm', names, mode=rng.choice(['all', 'livesum', 'min']), help_text=rng.choice(['doc', '', 'a longer help text']))
    act = {'counter': 'inc', 'gauge': 'set', 'summary': 'observe'}[kind]
    pad = rng.randrange(0, 9)
    ops = []
    for j in range(children):
        vals = [S('v%d%s' % (j, 'x' * ((pad + rng.randrange(0, 12)) if mmap_size else pad)))] + [S('w' * rng.randrange(0, 4))] * (len(names) - 1)
        ops.append(call(0, vals, act, F(float(j % 7))))
        if rng.random() < 0.1:
            ops.append(call(0, vals, act, F(1.5)))
    c = make_case([spec], ops, rng.choice(PIDS), True, rng)
    if mmap_size:
        c['mmap_size'] = mmap_size
    return c


def gen_points_case(rng):
    """a history with >= 2 collections and operations between them; before each collection the store files are aged"""
    c = gen_case(rng, rng.choice([4, 6, 8, 12, 20]), removal=(rng.random() < 0.3))
    ops = list(c['ops'])
    for _ in range(rng.choice([1, 1, 2, 3])):
        ops.insert(rng.randrange(1, max(2, len(ops))) if len(ops) > 1 else len(ops), ['collect', rng.choice(AGES)])
    c2 = make_case(c['specs'], ops, c['pid'], c['legacy'], rng)
    c2['final_age'] = rng.choice(AGES)
    return c2


def mspec(kind, name='m', labelnames=(), mode='', buckets=None, help_text='doc'):
    s = {'kind': kind, 'name': name, 'labelnames': list(labelnames), 'legacy': True, 'help': help_text,
         'mode': mode if kind == 'gauge' else ''}
    if kind == 'histogram':
        s['buckets'] = [F(b) for b in (buckets if buckets is not None else [0.0, 1.0, 2.5])]
    return s


def call(i, args, act, arg=None, kws=()):
    return ['call', i, args, list(kws), act, arg]


def S(x):
    return ['s', x]


def corpus():
    cs = []
    # F14: negative first bound
    cs.append(make_case([mspec('histogram', buckets=[-1.0, 0.0, 1.0])], [call(0, None, 'observe', F(0.5))]))
    # remove / clear / re-created child
    c = mspec('counter', labelnames=['l'])
    cs.append(make_case([c], [call(0, [S('a')], 'inc', F(2.0)), ['remove', 0, [S('a')]]]))
    cs.append(make_case([c], [call(0, [S('a')], 'inc', F(2.0)), ['remove', 0, [S('a')]], call(0, [S('a')], 'inc', F(1.0))]))
    cs.append(make_case([c], [call(0, [S('a')], 'inc', F(2.0)), ['clear', 0]]))
    cs.append(make_case([c], [['remove', 0, [S('zz')]], ['clear', 0], call(0, [S('a')], 'inc', F(2.0))]))      # nothing removed
    # signed zeros as two bounds; duplicate bounds
    cs.append(make_case([mspec('histogram', buckets=[-0.0, 0.0, 2.0])], [call(0, None, 'observe', F(0.0)), call(0, None, 'observe', F(1.5))]))
    cs.append(make_case([mspec('histogram', buckets=[1.0, 1.0, 2.0])], [call(0, None, 'observe', F(0.5)), call(0, None, 'observe', F(1.5))]))
    # le text of large bounds, observation on a bound and next to it, +-Inf, NaN
    big = mspec('histogram', labelnames=['method', 'a'], buckets=[0.1, 1e6, 2.0 ** 53, 1e16, 1e22, 1e300])
    obs = [0.1, 1e6, math.nextafter(1e6, INF), 1e16, 9.999999999999998e15, 1e22, INF, -INF, float('nan'), 5e-324, 2.0 ** 53]
    cs.append(make_case([big], [call(0, [S('GET'), S('x')], 'observe', F(o)) for o in obs]
                        + [call(0, [], 'observe', F(2.0), kws=[['a', S('y')], ['method', ['i', 1]]])]))
    cs.append(make_case([mspec('histogram', buckets=[-0.0, 1.0])], [call(0, None, 'observe', F(0.5))]))
    # every gauge mode: a child never touched, one set, one incremented; mostrecent: inc/dec raise RuntimeError
    for mode in MODES:
        g = mspec('gauge', labelnames=['l'], mode=mode)
        cs.append(make_case([g], [call(0, [S('x')], 'touch'), call(0, [S('y')], 'set', F(3.0)), call(0, [S('z')], 'inc', F(2.0)),
                                  call(0, [S('y')], 'dec', F(0.5)), call(0, [S('w')], 'set', F(float('nan'))),
                                  call(0, [S('y')], 'set', F(-0.0)), call(0, None, 'inc', F(1.0))]))
        cs.append(make_case([mspec('gauge', mode=mode)], []))
        cs.append(make_case([mspec('gauge', mode=mode)], [call(0, None, 'set', F(0.0))]))
    # set_to_current_time in every mode (alone, and after a set); a mostrecent gauge set twice while the clock steps back
    for mode in MODES:
        g = mspec('gauge', labelnames=['l'], mode=mode)
        cs.append(make_case([g], [call(0, [S('x')], 'set_to_current_time'), call(0, [S('y')], 'set', F(3.0)),
                                  call(0, [S('y')], 'set_to_current_time'), call(0, None, 'set_to_current_time')],
                            clock=[1005.0, 1006.0, 1004.0, 1007.0]))
        cs.append(make_case([mspec('gauge', mode=mode)], [call(0, None, 'set_to_current_time')], clock=[1234.5]))
        cs.append(make_case([mspec('gauge', mode=mode)], [call(0, None, 'set', F(1.0)), call(0, None, 'set', F(2.0)),
                                                            call(0, None, 'set', F(3.0))], clock=[1005.0, 1003.0, 1003.0]))
    # untouched metrics, labelled parent without children, child created but never updated
    for kind in KINDS:
        cs.append(make_case([mspec(kind, mode='all')], []))
        cs.append(make_case([mspec(kind, labelnames=['l'], mode='all')], []))
        cs.append(make_case([mspec(kind, labelnames=['l', 'k'], mode='all')], [call(0, [S('x'), ['i', 1]], 'touch')]))
    # reset, int amounts beyond 2^53, rejected calls
    cs.append(make_case([mspec('counter')], [call(0, None, 'inc', ['i', 2 ** 53 + 1]), call(0, None, 'reset'),
                                             call(0, None, 'inc', ['i', 2 ** 53 + 1]), call(0, None, 'inc', ['i', 1]),
                                             call(0, None, 'inc', F(-1.0)), call(0, [S('a')], 'inc', F(1.0))]))
    # the sign of zero: a cell that only ever received -0.0 is 0.0 + -0.0 = 0.0 through the collector (numerically equal)
    cs.append(make_case([mspec('counter'), mspec('summary', 'req_x'), mspec('gauge', 'h1', mode='livesum')],
                        [call(0, None, 'inc', F(-0.0)), call(1, None, 'observe', F(-0.0)), call(2, None, 'set', F(-0.0))]))
    # collect, operate, collect again on store files that look idle (aged into the past): the later collection is the later state
    for a1, a2 in (('1h', '1h'), ('3s', 'keep'), ('1h', 'keep'), ('now', '1h')):
        cc = make_case([mspec('counter', labelnames=['l'])], [call(0, [S('a')], 'inc', F(1.0)), ['collect', a1], call(0, [S('a')], 'inc', F(2.0)),
                                                            call(0, [S('b')], 'inc', F(4.0))])
        cc['final_age'] = a2
        cs.append(cc)
    # summary; three metrics sharing nothing but the process; help text with every escape-relevant character
    cs.append(make_case([mspec('summary', 'm', ['l'], help_text='é "q" \\ \n x'), mspec('counter', 'req_x', ['l']),
                         mspec('gauge', 'h1', ['l'], mode='livesum')],
                        [call(0, [S('a')], 'observe', F(1.5)), call(1, [S('a')], 'inc', F(1.0)), call(2, [S('a')], 'set', F(-4.0)),
                         call(0, [S('a')], 'observe', F(-0.0)), call(0, [['n']], 'observe', F(2.0)), call(2, [S('a')], 'inc', F(1.0))]))
    # label values that are equal after str(): one child on both back-ends; odd characters survive the JSON key
    cs.append(make_case([mspec('counter', labelnames=['l'])],
                        [call(0, [F(1.0)], 'inc', F(1.0)), call(0, [S('1.0')], 'inc', F(2.0)), call(0, [S('é\n"\\')], 'inc', F(4.0)),
                         call(0, [], 'inc', F(8.0), kws=[['l', ['n']]]), call(0, [S('None')], 'inc', F(16.0))]))
    return cs


def alphabet_cases(kind, mode):
    """C01's 12-call alphabet on <kind>('m', ['l','k']) and its 9-call alphabet on the unlabelled metric"""
    al = c01.alphabet(kind)
    spec = dict(c01.fixed_spec(kind, ['l', 'k']), help='doc', mode=mode if kind == 'gauge' else '')
    for word in itertools.product(range(len(al)), repeat=2):
        yield make_case([spec], tag([al[i] for i in word], 0))
    al0 = c01.alphabet0(kind)
    spec0 = dict(c01.fixed_spec(kind, []), help='doc', mode=mode if kind == 'gauge' else '')
    for word in itertools.product(range(len(al0)), repeat=2):
        yield make_case([spec0], tag([al0[i] for i in word], 0))


# ------------------------------------------------------------------------------------------------ running
def run_case(case):
    return Run(case).go()


def hyp_ok(case, run):
    """the hypotheses of backends_equivalent_partial: no histogram whose `_sum` is hidden in-process, no removal, bounds
    strictly increasing (no duplicate / signed-zero pair), distinct label names, no label named pid"""
    if run.removed[0]:
        return False
    return hyp_ok_decls(case)


def hyp_ok_decls(case):
    """… the hypotheses other than "no removal": those of backends_equivalent_with_removals_partial"""
    for s in case['specs']:
        if len(set(s['labelnames'])) != len(s['labelnames']) or 'pid' in s['labelnames']:
            return False
        if s['kind'] == 'histogram':
            bs = [float(py_of(b)) for b in s['buckets']]
            if first_bound_negative(s) or any(not (a < b) for a, b in zip(bs, bs[1:])):
                return False
    return True


class PointRun:
    """the two collections at one intermediate collection point, in the shape `oracle` reads"""

    def __init__(self, p0, p1):
        self.err = [None, None]
        self.outs = [[], []]
        self.raw = [p0['raw'], p1['raw']]
        self.meta = [p0['meta'], p1['meta']]
        self.collect_err = [p0['err'], p1['err']]
        self.sets = [p0['sets'], p1['sets']]
        self.removed = [p0['removed'], p1['removed']]
        self.live = p0['live']


def oracle_points(case, run):
    """the unchanged oracle at every intermediate collection point: file-backed collect = in-memory collect"""
    out = []
    if run.err[0] is not None or run.err[1] is not None:
        return out
    seen = set()
    for p0, p1 in zip(run.points[0], run.points[1]):
        for sig, what in oracle(case, PointRun(p0, p1)):
            if sig not in seen:
                seen.add(sig)
                out.append((sig, 'at the collection after step %d (store files aged %r): %s' % (p0['k'], case['ops'][p0['k']][1], what)))
    return out


def all_fails(case, run, stats=None):
    sigs = set()
    out = []
    for sig, what in oracle(case, run, stats) + oracle_points(case, run) + oracle_erased(case, run):
        if sig not in sigs:
            sigs.add(sig)
            out.append((sig, what))
    return out


def erased(case):
    """the history with every remove()/clear() erased; each kept call keeps its clock reading"""
    keep = [n for n, op in enumerate(case['ops']) if op[0] == 'call']
    return dict(case, ops=[case['ops'][n] for n in keep], clock=[case['clock'][n] for n in keep])


def oracle_erased(case, run):
    """F28 characterised: the multiprocess collection of a history WITH removals must be the in-process collection of
    the history with its removals erased (the file-backed store behaves as if removals never happened).
    -> list of (signature, description)"""
    if not any(op[0] in ('remove', 'clear') for op in case['ops']) or run.err[0] is not None or run.err[1] is not None:
        return []
    ec = erased(case)
    r2 = run_case(ec)
    if r2.err[0] is not None:
        return []
    r2.raw[1], r2.meta[1], r2.collect_err[1] = run.raw[1], run.meta[1], run.collect_err[1]
    r2.outs[1] = list(r2.outs[0])
    out = []
    for sig, what in oracle(ec, r2):
        if sig in (SIG_F14, SIG_ZERO):
            continue                                    # reported on the history itself
        out.append(('C12:removals-not-as-erased:' + sig[len('C12:'):],
                    'multiprocess collection of the history vs in-process collection of the history with remove/clear erased: ' + what))
    return out


def with_ops(case, pairs):
    """the case with the given (op, clock reading) pairs: every op keeps ITS clock reading when others are dropped"""
    return dict(case, ops=[p[0] for p in pairs], clock=[p[1] for p in pairs])


def shrink(case, sig):
    def still(pairs):
        c = with_ops(case, pairs)
        try:
            r = run_case(c)
            return any(s == sig for s, _ in all_fails(c, r))
        except Exception:
            return False
    pairs = list(zip(case['ops'], case['clock']))
    if len(pairs) > 1 and still(pairs):
        pairs = lib.shrink_list(pairs, still, max_rounds=60)
    return with_ops(case, pairs)


class Batch:
    def __init__(self, ctx):
        self.ctx = ctx
        self.items = []
        self.nfail = {}
        self.ndiv = 0
        self.limits = {}

    def add(self, case, label):
        ctx = self.ctx
        run = run_case(case)
        if label.startswith('growth') and len(case['ops']) > 50:
            # many children: the real back-ends only (the list-based Lean models are super-linear in the number of
            # children; the file's capacity is not part of them anyway)
            ctx.count('growth:oracle-only')
        else:
            self.items.append((case, run))
        for s in case['specs']:
            ctx.count('kind:' + s['kind'] + ((':' + s['mode']) if s['kind'] == 'gauge' else ''))
            ctx.count('labels:%d' % len(s['labelnames']))
        ctx.count('metrics:%d' % len(case['specs']))
        ctx.count('src:' + label)
        n = len(case['ops'])
        ctx.count('len:%s' % ('0-4' if n < 5 else '5-49' if n < 50 else '50+'))
        if run.err[0] is not None:
            ctx.count('constructor:' + run.err[0])
        for o in run.outs[0]:
            ctx.count('out:' + o)
        nontrivial = run.err[0] is None and bool(run.raw[0]) and any(o == 'ok' for o in run.outs[0])
        ctx.case(json.dumps([case['specs'], case['ops']], sort_keys=True, default=str) if nontrivial else None,
                 {'specs': case['specs'], 'ops': case['ops'][:5], 'outcomes': run.outs[0][:5],
                  'series': len(run.raw[0])} if label not in ('alphabet',) else None)
        if any(op[0] in ('remove', 'clear') for op in case['ops']):
            ctx.count('erased-history-oracle:checked')
        if run.points[0]:
            ctx.count('collection-points:intermediate', len(run.points[0]))
        for sig, what in all_fails(case, run, self.limits):
            ctx.count('oracle-fail:' + sig)
            self.nfail[sig] = self.nfail.get(sig, 0) + 1
            if self.nfail[sig] > 2:
                continue
            small = shrink(case, sig)
            rs = run_case(small)
            what2 = next((w for s, w in all_fails(small, rs) if s == sig), what)
            ctx.fail(sig, what2, small)

    def flush(self):
        ctx = self.ctx
        queued, self.items = self.items, []
        items, lines = [], []
        for c, r in queued:
            try:
                lines.append(wire_line(c))
                items.append((c, r))
            except Exception as e:
                ctx.count('wire:skipped:' + type(e).__name__)      # an op shape the c12 protocol does not carry
        replies = mpsim.driver_run(ctx, lines)
        if replies is None:
            return
        for (case, run), rep in zip(items, replies):
            ctx.traces += 1
            why = compare_model(case, run, rep)
            if why:
                self.ndiv += 1
                ctx.diverge(why, case if self.ndiv > 3 else shrink_div(ctx, case))


def canon_raw(raw):
    return sorted((fam, name, labels, lib.bits_of(v) if v == v else -1) for fam, name, labels, v, _ in raw)


def raw_diff(real, model):
    a = {(f, n, l): v for f, n, l, v, _ in real}
    b = {(f, n, l): v for f, n, l, v, _ in model}
    only_a = sorted(set(a) - set(b))[:3]
    only_b = sorted(set(b) - set(a))[:3]
    vals = [(k, a[k], b[k]) for k in sorted(set(a) & set(b)) if not feq(a[k], b[k])][:3]
    if len(real) != len(model) and not (only_a or only_b or vals):
        return 'real lists %d samples, model %d (duplicates differ)' % (len(real), len(model))
    if only_a or only_b or vals:
        return 'real-only %r model-only %r values %r' % (only_a, only_b, vals)
    return None


def compare_model(case, run, rep):
    real_outs = [[o for o, op in zip(run.outs[side], case['ops']) if op[0] != 'collect'] for side in (0, 1)]
    pops = plain(case)['ops']
    f = rep.split(' ')
    if run.err[0] is not None:
        if f[0] != 'err' or f[1] != run.err[0]:
            return 'constructor raised %s, model says %r' % (run.err[0], rep[:80])
        return None
    if f[0] != 'ok' or len(f) != 8:
        return 'constructors succeeded, model says %r' % rep[:80]
    outs = [] if f[1] == '.' else f[1].split(';')
    for side, name in ((0, 'in-process'), (1, 'file-backed')):
        if outs != real_outs[side]:
            k = next((i for i in range(min(len(outs), len(real_outs[side]))) if outs[i] != real_outs[side][i]), 0)
            return 'step %d %r: %s %s, model %s' % (k, pops[k] if k < len(pops) else None, name,
                                                    real_outs[side][k:k + 1], outs[k:k + 1])
    if run.collect_err[0] or run.collect_err[1]:
        if f[3] != 'E' + str(run.collect_err[1]):
            return 'real collect raised %r, model %r' % (run.collect_err, f[3][:40])
        return None
    d = raw_diff(run.raw[0], parse_flat(f[2]))
    if d:
        return 'in-memory model vs real in-process collection: ' + d
    if f[3].startswith('E'):
        return 'model collector raised %s, the real one returned' % f[3][1:]
    zeros = any(s['kind'] == 'histogram' and has_signed_zeros(s) for s in case['specs'])
    d = raw_diff(run.raw[1], parse_flat(f[3]))
    if d and not zeros:        # -0.0 and 0.0 as two bounds of one histogram: outside the collector model (bounds are bit patterns)
        return 'file-backed model vs real multiprocess collection: ' + d
    if zeros:
        return None
    never = never_set_series(case, run)
    for side, field, name in ((0, f[4], 'in-process'), (1, f[5], 'multiprocess')):
        mine, _ = normalise(case, run.raw[side], never)
        theirs = {}
        for nm, ls, v in parse_norm(field):
            theirs.setdefault((nm, ls), v)
        if set(mine) != set(theirs) or any(not feq(mine[k], theirs[k]) for k in mine):
            return 'Lean normalise of the %s collection differs from the property-text normalisation: only harness %r only Lean %r' % (
                name, sorted(set(mine) - set(theirs))[:3], sorted(set(theirs) - set(mine))[:3])
    if hyp_ok(case, run):
        a = {}
        for nm, ls, v in parse_norm(f[4]):
            a.setdefault((nm, ls), v)
        b = {}
        for nm, ls, v in parse_norm(f[5]):
            b.setdefault((nm, ls), v)
        if set(a) != set(b) or any(not feq(a[k], b[k]) for k in a):
            return 'theorem backends_equivalent_partial fails at run time: model in-memory %r vs model file-backed %r' % (
                sorted(set(a) - set(b))[:3], sorted(set(b) - set(a))[:3])
    if hyp_ok_decls(case):
        a = {}
        for nm, ls, v in parse_norm(f[6]):
            a.setdefault((nm, ls), v)
        b = {}
        for nm, ls, v in parse_norm(f[7]):
            b.setdefault((nm, ls), v)
        if set(a) != set(b) or any(not feq(a[k], b[k]) for k in a):
            return 'theorem backends_equivalent_with_removals_partial fails at run time: in-memory model of the erased history %r vs file-backed model %r' % (
                sorted(set(a) - set(b))[:3], sorted(set(b) - set(a))[:3])
    return None


def shrink_div(ctx, case):
    def still(pairs):
        c = with_ops(case, pairs)
        try:
            rep = mpsim.driver_run(ctx, [wire_line(c)])
            return rep is not None and compare_model(c, run_case(c), rep[0]) is not None
        except Exception:
            return False
    try:
        pairs = list(zip(case['ops'], case['clock']))
        if 1 < len(pairs) <= 60 and still(pairs):
            pairs = lib.shrink_list(pairs, still, max_rounds=40)
        return with_ops(case, pairs)
    except Exception:
        return case


def run(ctx):
    import time
    ctx.rule = ('one case = 1-3 metrics (counter / gauge in each of the ten multiprocess modes / summary / histogram; 0-3 '
                'labels, legacy and UTF-8 label names, arbitrary sorted bucket layouts incl. negative, zero, duplicate, '
                '>=1e6 and >=1e16 bounds) and one C01-style history (inc/dec/set/set_to_current_time/observe/reset addressed directly, '
                'positionally or by keyword, labels() alone, remove, clear; amounts ordinary, >2^53, tiny, negative, +-Inf, '
                'NaN, ints, bools, on a bound and next to it; scripted positive clock, in a third of the random cases with equal and '
                'decreasing readings) run against BOTH real back-ends and both Lean models; '
                'every word of length 2 over C01\'s 12-call (two-label) and 9-call (unlabelled) alphabets per type and '
                'gauge mode; histories with 1-3 intermediate collections (>= 2 collections, operations between them), the store files\' '
                'mtimes set to now / 3 s / 1 h in the past / left alone before each collection, the oracle evaluated at every collection point; '
                'histories with 20-120 labelled children (label values of varying length) under a patched '
                'mmap_dict._INITIAL_MMAP_SIZE of 256/512 and three with 760+ children at the real 64 KiB, so that the per-type '
                'file crosses its capacity at many alignments; '
                'random to length 200, half of the random histories without remove/clear; a case is '
                'non-trivial when a call was accepted and the in-process collection is non-empty; distinct by '
                '(declarations, history)')
    rng = ctx.rng
    b = Batch(ctx)
    t0 = time.time()
    budget = 26.0 if ctx.tier == 'quick' else 480.0      # the random streams stop here (counted as skipped-for-time)
    for case in corpus():
        check_bounds(ctx, case)
        b.add(case, 'corpus')
    b.flush()
    phase = ctx.extra.setdefault('phase_s', {})
    phase['corpus'] = round(time.time() - t0, 1)
    for kind in KINDS:
        for mode in (MODES if kind == 'gauge' else ('',)):
            for case in alphabet_cases(kind, mode):
                b.add(case, 'alphabet')
            b.flush()
    ctx.extra['alphabet_depth'] = 2
    phase['alphabet'] = round(time.time() - t0, 1)
    # the store crossing its capacity: small patched initial size for many alignments, and the real 64 KiB a few times
    n_grow, n_real = (60, 3) if ctx.tier == 'quick' else (600, 12)
    for k in range(n_grow):
        b.add(gen_growth_case(rng, rng.choice([256, 512]), rng.choice([20, 40, 80, 120])), 'growth-patched')
    b.flush()
    for k in range(n_real):
        b.add(gen_growth_case(rng, 0, 760 + 40 * k), 'growth-64KiB')
        b.flush()
    phase['growth'] = round(time.time() - t0, 1)
    for k in range(400 if ctx.tier == 'quick' else 6000):
        b.add(gen_points_case(rng), 'collection-points')
        if len(b.items) >= 300:
            b.flush()
    b.flush()
    phase['points'] = round(time.time() - t0, 1)
    n_short, n_long = (1800, 40) if ctx.tier == 'quick' else (30000, 1500)
    if ctx.broken:
        n_short, n_long = n_short * 2, n_long * 2
    for i in range(n_short):
        if i >= 300 and time.time() - t0 > budget:          # 300 short and 10 long histories run whatever the load
            ctx.count('random-short:skipped-for-time', n_short - i)
            break
        case = gen_case(rng, rng.choice([1, 2, 3, 5, 8, 12, 20]), removal=(i % 2 == 0))
        check_bounds(ctx, case)
        b.add(case, 'random-short')
        if len(b.items) >= 100:
            b.flush()
    b.flush()
    for i in range(n_long):
        if i >= 10 and time.time() - t0 > budget + 4.0:
            ctx.count('random-long:skipped-for-time', n_long - i)
            break
        case = gen_case(rng, rng.choice([50, 100, 200]), removal=(i % 2 == 0))
        check_bounds(ctx, case)
        b.add(case, 'random-long')
        if len(b.items) >= 10:
            b.flush()
    b.flush()
    phase['random'] = round(time.time() - t0, 1)
    ctx.extra['documented_limits'] = {
        'signed-zero-sum': b.limits.get('signed-zero-sum', 0),
        'signed-zero-sum-meaning': 'series whose two values are numerically equal zeros of different sign: the collector reports 0.0 + value '
                                   '(defaultdict(float) +=), so a cell holding -0.0 is collected as 0.0; C12 compares values numerically',
        'signed-zero-sum-sample': b.limits.get('signed-zero-sum-sample'),
    }


def replay(ctx, case):
    c = case.get('case', case)
    print('REPLAY', json.dumps(c['specs'], ensure_ascii=False), json.dumps(c['ops'], ensure_ascii=False))
    b = Batch(ctx)
    b.add(c, 'replay')
    b.flush()
    run = run_case(c)
    print('   outcomes in-process', run.outs[0])
    print('   outcomes file-backed', run.outs[1])
    print('   in-process  ', [(n, dict(l), v) for n, l, v in sorted((n, l, repr(v)) for _, n, l, v, _ in run.raw[0])][:24])
    print('   multiprocess', [(n, dict(l), v) for n, l, v in sorted((n, l, repr(v)) for _, n, l, v, _ in run.raw[1])][:24])
    for f in ctx.failures:
        print('REPLAY-FAIL', f['sig'], f['what'])
    for f in ctx.divergences:
        print('REPLAY-DIVERGE', f['what'])
    return 1 if ctx.failures or ctx.divergences else 0
