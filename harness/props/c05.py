"""C05 — no application-supplied string can break the line structure of any wire format.

Cases are small registries built from the REAL instrumentation classes (Counter, Gauge, Summary, Histogram, Info, Enum)
and from custom collectors yielding Metric / *MetricFamily objects, with an adversarial alphabet in every
user-controlled position, under both name-validation settings.

Oracle on the real code (written from the format descriptions, independent of the Lean model and of the library's
parsers): the bytes of both generate_latest() are split on LF and every piece goes through a hand-written line
recogniser; the sequence of line kinds must be exactly the one the collected families call for (HELP/TYPE[/UNIT], one
sample line per collected sample, trailing-gauge groups in the text format, exactly one final '# EOF' in OpenMetrics),
and every sample line must carry the sample's own name and label set.  Constructor-accepted inputs must expose without
an exception.  Graphite: GraphiteBridge.push() bytes are exactly one `path value timestamp` line per sample, path
components sanitised.

Every oracle failure is minimised by replacing the supplied strings one by one with benign ones (a replacement is kept
while the failure persists) and classified by what had to stay: one of the narrow signatures in SIGS, else
`C05:other:<what>`.

Correspondence (T2): driver `expo text|om` = real bytes / error class; `c05 recognise` (Lean grammar) = Python
recogniser kinds on the same bytes; `c05 graphite` = bytes pushed; `c05 ctor` / `c05 metric_init` = constructor
verdicts and names; `c05 sanitize`, `c05 gline`.
"""
import copy
import re
import socket
import threading

import lib

SIGS = {
    'f2': 'C05:name-trailing-newline',
    'f3': 'C05:exemplar-label-name-raw',
    'f4': 'C05:unit-raw',
    'g2': 'C05:graphite-empty-path',
}

ADV = ['\\', '"', '\n', '\r', ',', '=', '{', '}', '#', ' ', '\t', '\u00a0', '\u2028', '\u00e9', '\U0001F600', '\x00',
       ':', '.', ';', '-', '_']
PLAIN = list('abxyzAZ019_')
NUM_RE = re.compile(r'^[0-9A-Za-z.+-]+$')
TRAILING = ('_created', '_gsum', '_gcount')
OM_TYPES = ('counter', 'gauge', 'summary', 'histogram', 'gaugehistogram', 'unknown', 'info', 'stateset')
TEXT_TYPES = ('counter', 'gauge', 'summary', 'histogram', 'untyped')


# ------------------------------------------------------------------------------------------------ generators
def g_plain(rng, first='abxyz_', n=None):
    n = rng.randint(1, 5) if n is None else n
    return rng.choice(first) + ''.join(rng.choice(PLAIN) for _ in range(n - 1))


def g_adv(rng, lo=0, hi=6):
    n = rng.randint(lo, hi)
    return ''.join(rng.choice(ADV + PLAIN[:4]) if rng.random() < 0.7 else rng.choice(PLAIN) for _ in range(n))


def _ascii_lookalikes():
    """non-ASCII characters that case mapping, case folding or compatibility normalisation turns into ASCII letters / digits,
    enumerated from the running interpreter: a name test done with re.IGNORECASE, str.lower(), \\w, isalnum() … takes them
    for legacy characters, the format's bare-name alphabet (ASCII only) does not"""
    import unicodedata
    fold, compat = [], []
    for c in range(128, 0x30000):
        ch = chr(c)
        if any(x.isascii() and x.isalnum() for m in (ch.lower(), ch.upper(), ch.casefold()) for x in m):
            fold.append(ch)
        elif c < 0x3000 or 0xFF00 <= c < 0xFFF0:
            k = unicodedata.normalize('NFKC', ch)
            if len(k) == 1 and k.isascii() and k.isalnum():
                compat.append(ch)
    return fold, compat


FOLD, COMPAT = _ascii_lookalikes()      # FOLD ⊇ U+0130, U+0131, U+017F, U+212A


def g_lookalike(rng):
    """an otherwise-legacy name with one such character at the start, inside or at the end"""
    r0 = rng.random()
    ch = (rng.choice('\u0130\u0131\u017f\u212a') if r0 < 0.5 else rng.choice(FOLD) if r0 < 0.75
          else rng.choice(COMPAT + ['\u0663', '\u00b2', '\u00aa']))
    r = rng.random()
    if r < 0.25:
        return ch + g_plain(rng)
    if r < 0.75:
        return g_plain(rng) + ch + g_plain(rng, first='abxyz_019')
    return g_plain(rng) + ch


def g_name(rng):
    """a metric / label name: mostly legacy-looking, then the classes that matter"""
    r = rng.random()
    if r < 0.34:
        return g_plain(rng)
    if r < 0.40:
        return g_lookalike(rng)
    if r < 0.50:
        return g_plain(rng) + '\n'                      # F2 shape
    if r < 0.58:
        return g_plain(rng) + rng.choice([':', '.', ' ', '-', '\u00e9']) + g_plain(rng)
    if r < 0.63:
        return '__' + g_plain(rng)
    if r < 0.68:
        return rng.choice([':', 'a:b', '9a', '', '"', '\\', '\n', 'a\nb', 'a"b', 'a\\', '# EOF', 'a b\n# EOF', 'le', 'quantile'])
    return g_adv(rng, 1, 6)


def g_text(rng):
    r = rng.random()
    if r < 0.3:
        return g_plain(rng)
    if r < 0.4:
        return rng.choice(['', '\n', '\\', '"', '\\n', '\\"', 'a\n# EOF\nb', '# HELP x y', 'x\\', '\\\n', '"\n"', ' ', 'a\rb'])
    return g_adv(rng, 0, 8)


def g_doc(rng):
    """help text: the escape-relevant characters \\ " LF and their mixes in every adjacency, then general text"""
    r = rng.random()
    if r < 0.35:
        return ''.join(rng.choice(['"', '\\', '\n', 'n', 'a', ' ']) for _ in range(rng.randint(1, 6)))
    if r < 0.5:
        return rng.choice(['He said "hello"', 'a"b', '"', '\\"', '"\\', '\\n', '\n"', '"\n\\', 'x\\', 'back\\slash and "quote"\nnext'])
    return g_text(rng)


def g_value(rng):
    r = rng.random()
    if r < 0.5:
        return float(rng.randint(0, 5))
    if r < 0.7:
        return rng.choice([0.5, 1.5e10, 1e-7, 123456789.0, 1e300, 2.0 ** 53, 0.1])
    if r < 0.8:
        return rng.choice([float('inf'), float('-inf'), float('nan'), -1.0, -0.0])
    return rng.random() * 10 ** rng.randint(-5, 20)


def g_ts(rng):
    r = rng.random()
    if r < 0.6:
        return None
    if r < 0.75:
        return ['i', rng.choice([0, 1, 1700000000, -5])]
    if r < 0.9:
        return ['f', rng.choice([1.5, 0.001, 1700000000.123, 1e20, -2.25])]
    return ['s', rng.randint(0, 2 * 10 ** 9), rng.randint(0, 999999999)]


def g_labels(rng, n=None, adversarial=True):
    n = rng.randint(0, 3) if n is None else n
    d = {}
    for _ in range(n):
        d[g_name(rng) if adversarial else g_plain(rng)] = g_text(rng)
    return d


def g_exemplar(rng):
    return {'labels': g_labels(rng, rng.randint(0, 2)), 'value': g_value(rng), 'ts': rng.choice([None, ['f', 1.5], ['i', 3], ['s', 1, 5]])}


def g_class_spec(rng):
    k = rng.choice(['counter', 'gauge', 'summary', 'histogram', 'info', 'enum'])
    lns = [g_name(rng) for _ in range(rng.randint(0, 2))]
    sp = {'k': k, 'name': g_name(rng), 'doc': g_doc(rng), 'labelnames': lns,
          'ns': g_name(rng) if rng.random() < 0.15 else '', 'ss': g_name(rng) if rng.random() < 0.15 else '',
          'unit': (g_plain(rng) if rng.random() < 0.5 else g_text(rng)) if rng.random() < 0.3 else '',
          'children': []}
    for _ in range(rng.randint(1, 2) if lns else 1):
        ch = {'lv': [g_text(rng) for _ in lns], 'v': g_value(rng)}
        if k in ('counter', 'histogram') and rng.random() < 0.4:
            ch['ex'] = g_labels(rng, rng.randint(0, 2))
        if k == 'info':
            ch['info'] = g_labels(rng, rng.randint(0, 3))
        if k == 'enum':
            ch['state'] = rng.randint(0, 2)
        sp['children'].append(ch)
    if k == 'enum':
        sp['states'] = [g_text(rng) for _ in range(rng.randint(1, 3))]
    return sp


FAMILY_CLASSES = ['Metric', 'GaugeMetricFamily', 'CounterMetricFamily', 'UnknownMetricFamily', 'InfoMetricFamily',
                  'StateSetMetricFamily', 'SummaryMetricFamily', 'HistogramMetricFamily', 'GaugeHistogramMetricFamily']


def g_custom_spec(rng):
    cls = rng.choice(FAMILY_CLASSES)
    name = g_name(rng)
    sp = {'k': 'custom', 'cls': cls, 'name': name, 'doc': g_doc(rng),
          'unit': (g_plain(rng) if rng.random() < 0.5 else g_text(rng)) if rng.random() < 0.25 else ''}
    if cls == 'Metric':
        typ = rng.choice(OM_TYPES + ('untyped',))
        sp['typ'] = typ
        samples = []
        for _ in range(rng.randint(0, 3)):
            r = rng.random()
            if r < 0.5:
                sname = name + rng.choice(['', '_total', '_created', '_gsum', '_gcount', '_bucket', '_sum', '_count', '_info'])
            elif r < 0.7:
                sname = name
            else:
                sname = g_name(rng)           # sample name differing from the family name
            s = {'name': sname, 'labels': g_labels(rng), 'value': g_value(rng), 'ts': g_ts(rng), 'ex': None}
            if rng.random() < 0.3:
                s['ex'] = g_exemplar(rng)     # may sit where the OpenMetrics rule allows none (out-of-scope input: ValueError acceptable)
            samples.append(s)
        sp['samples'] = samples
    else:
        sp['labelnames'] = [g_name(rng) for _ in range(rng.randint(0, 2))]
        rows = []
        for _ in range(rng.randint(0, 2)):
            row = {'lv': [g_text(rng) for _ in sp['labelnames']], 'v': g_value(rng), 'ts': g_ts(rng)}
            if cls == 'InfoMetricFamily':
                row['info'] = g_labels(rng, rng.randint(0, 2))
            if cls == 'StateSetMetricFamily':
                row['states'] = {g_text(rng): rng.random() < 0.5 for _ in range(rng.randint(1, 2))}
            if cls in ('HistogramMetricFamily', 'GaugeHistogramMetricFamily'):
                row['buckets'] = [[rng.choice(['0.5', '1.0', g_text(rng)]), float(rng.randint(0, 3))], ['+Inf', 4.0]]
                if cls == 'HistogramMetricFamily' and rng.random() < 0.4:
                    row['buckets'][0].append(g_exemplar(rng))
            if cls == 'CounterMetricFamily' and rng.random() < 0.4:
                row['ex'] = g_exemplar(rng)
                row['created'] = rng.choice([None, 123.0])
            rows.append(row)
        sp['rows'] = rows
    return sp


def g_case(rng):
    n = rng.randint(1, 3)
    specs = [(g_class_spec(rng) if rng.random() < 0.5 else g_custom_spec(rng)) for _ in range(n)]
    # the Graphite prefix is operator configuration, outside the property's quantifier: path alphabet plus '.', or empty
    r = rng.random()
    prefix = '' if r < 0.4 else (g_plain(rng) + rng.choice(['', '.q', '.a.b', '-x', '.p_9']))
    return {'legacy': rng.random() < 0.5, 'specs': specs, 'prefix': prefix, 'tags': rng.random() < 0.5,
            'now': rng.choice([0, 123, 1700000000])}


CORPUS = [
    # F2: name ending in LF accepted under legacy validation, written bare
    {'legacy': True, 'specs': [{'k': 'gauge', 'name': 'a\n', 'doc': 'h', 'labelnames': ['l\n'], 'ns': '', 'ss': '', 'unit': '',
                                'children': [{'lv': ['v'], 'v': 1.0}]}], 'prefix': '', 'tags': False, 'now': 123},
    # F3: exemplar label name written raw
    {'legacy': False, 'specs': [{'k': 'counter', 'name': 'cc', 'doc': 'h', 'labelnames': [], 'ns': '', 'ss': '', 'unit': '',
                                 'children': [{'lv': [], 'v': 1.0, 'ex': {'a b\n# EOF': 'x'}}]}], 'prefix': '', 'tags': False, 'now': 123},
    # F4: unit neither validated nor escaped
    {'legacy': False, 'specs': [{'k': 'gauge', 'name': 'g', 'doc': 'd', 'labelnames': [], 'ns': '', 'ss': '', 'unit': 'a\nb',
                                 'children': [{'lv': [], 'v': 1.0}]}], 'prefix': '', 'tags': False, 'now': 123},
    # repaired F2 under UTF-8 validation (accepted, must be quoted), reserved-looking label name with an inner LF, F2-shaped info key,
    # F2-shaped exemplar label name
    {'legacy': False, 'specs': [
        {'k': 'gauge', 'name': 'a\n', 'doc': 'h', 'labelnames': ['l\n', '__a\nb'], 'ns': '', 'ss': '', 'unit': '', 'children': [{'lv': ['v', 'w'], 'v': 1.0}]},
        {'k': 'info', 'name': 'i', 'doc': '', 'labelnames': [], 'ns': '', 'ss': '', 'unit': '', 'children': [{'lv': [], 'v': 0, 'info': {'k\n': 'v', '__x\n': 'y'}}]},
        {'k': 'counter', 'name': 'c', 'doc': 'h', 'labelnames': [], 'ns': '', 'ss': '', 'unit': '', 'children': [{'lv': [], 'v': 1.0, 'ex': {'t\n': 'x', 'a\n# EOF\nb': 'y'}}]}],
     'prefix': 'p.q', 'tags': False, 'now': 123},
    # help text with quote, backslash, LF on families that have trailing _created / _gsum / _gcount pseudo-families in the text format
    {'legacy': False, 'specs': [
        {'k': 'counter', 'name': 'c3', 'doc': 'He said "hello"', 'labelnames': [], 'ns': '', 'ss': '', 'unit': '', 'children': [{'lv': [], 'v': 1.0}]},
        {'k': 'summary', 'name': 's3', 'doc': 'q"\\\n"', 'labelnames': ['l'], 'ns': '', 'ss': '', 'unit': '', 'children': [{'lv': ['v'], 'v': 1.0}]},
        {'k': 'histogram', 'name': 'h3', 'doc': '\\"n\n\\n"', 'labelnames': [], 'ns': '', 'ss': '', 'unit': '', 'children': [{'lv': [], 'v': 1.0}]},
        {'k': 'custom', 'cls': 'GaugeHistogramMetricFamily', 'name': 'gh3', 'doc': '"a\\b"\n', 'unit': '', 'labelnames': [],
         'rows': [{'lv': [], 'v': 2.0, 'ts': None, 'buckets': [['1.0', 1.0], ['+Inf', 4.0]]}]}],
     'prefix': '', 'tags': False, 'now': 123},
    # names that are legacy names only to a case-insensitive / Unicode-aware test: KELVIN SIGN, LONG S, dotless i, dotted capital I,
    # a fullwidth letter — metric name, label names, custom sample name and label name, exemplar label name; must be quoted
    {'legacy': False, 'specs': [
        {'k': 'gauge', 'name': 'temp_\u212a', 'doc': 'h', 'labelnames': ['ma\u017ft', 'd\u0131sk'], 'ns': '', 'ss': '', 'unit': '',
         'children': [{'lv': ['v', 'w'], 'v': 1.0}]},
        {'k': 'custom', 'cls': 'Metric', 'name': 'm', 'doc': 'd', 'unit': '', 'typ': 'gauge',
         'samples': [{'name': 'd\u0131sk', 'labels': {'\u0130d': 'x', 'a\uff21': 'y'}, 'value': 1.0, 'ts': None, 'ex': None}]},
        {'k': 'counter', 'name': 'c', 'doc': 'h', 'labelnames': [], 'ns': '', 'ss': '', 'unit': '', 'children': [{'lv': [], 'v': 1.0, 'ex': {'\u212a': 'x'}}]}],
     'prefix': '', 'tags': False, 'now': 123},
    # G2: empty sample name, empty prefix
    {'legacy': False, 'specs': [{'k': 'custom', 'cls': 'Metric', 'name': 'm', 'doc': 'd', 'unit': '', 'typ': 'gauge',
                                 'samples': [{'name': '', 'labels': {}, 'value': 1.0, 'ts': None, 'ex': None}]}],
     'prefix': '', 'tags': False, 'now': 123},
    # everything adversarial but fine: quoted names, escapes, enum states, info keys, exemplar values
    {'legacy': False, 'specs': [
        {'k': 'enum', 'name': 'e s', 'doc': 'a\nb\\', 'labelnames': ['l"x'], 'ns': '', 'ss': '', 'unit': '', 'states': ['a\nb', 'c"d', 'e\\f'],
         'children': [{'lv': ['v\n"'], 'v': 0, 'state': 1}]},
        {'k': 'info', 'name': 'i', 'doc': '', 'labelnames': [], 'ns': '', 'ss': '', 'unit': '', 'children': [{'lv': [], 'v': 0, 'info': {'k"': 'v\n', 'a:b': '\\'}}]},
        {'k': 'histogram', 'name': 'h', 'doc': 'x', 'labelnames': ['a:b'], 'ns': 'n', 'ss': 's', 'unit': 'sec',
         'children': [{'lv': ['\\n'], 'v': 0.3, 'ex': {'trace_id': 'a"b\n\\'}}]}], 'prefix': 'p.q', 'tags': True, 'now': 123},
]


# ------------------------------------------------------------------------------------------------ building the real registry
class _Collector:
    def __init__(self, fams):
        self.fams = fams

    def collect(self):
        return self.fams


def mk_ts(t):
    from prometheus_client.samples import Timestamp
    if t is None:
        return None
    if t[0] == 'i':
        return int(t[1])
    if t[0] == 'f':
        return float(t[1])
    return Timestamp(t[1], t[2])


def mk_ex(e):
    from prometheus_client.samples import Exemplar
    if e is None:
        return None
    return Exemplar(dict(e['labels']), e['value'], mk_ts(e['ts']))


def build_class(sp, registry, notes):
    import prometheus_client as pc
    cls = {'counter': pc.Counter, 'gauge': pc.Gauge, 'summary': pc.Summary, 'histogram': pc.Histogram, 'info': pc.Info,
           'enum': pc.Enum}[sp['k']]
    kw = dict(labelnames=list(sp['labelnames']), namespace=sp['ns'], subsystem=sp['ss'], unit=sp['unit'], registry=None)
    if sp['k'] == 'enum':
        kw['states'] = list(sp['states'])
    try:
        m = cls(sp['name'], sp['doc'], **kw)
    except ValueError:
        notes.append('ctor-rejected')
        return ('rejected', None)
    try:
        registry.register(m)
    except ValueError:
        notes.append('duplicate')
        return ('accepted', m._name)
    for ch in sp['children']:
        try:
            c = m.labels(*ch['lv']) if sp['labelnames'] else m
            k = sp['k']
            if k == 'counter':
                v = abs(ch['v']) if ch['v'] == ch['v'] else 1.0
                try:
                    c.inc(v, ch.get('ex'))
                except ValueError:
                    notes.append('exemplar-rejected')
                    c.inc(v)
            elif k == 'gauge':
                c.set(ch['v'])
            elif k == 'summary':
                c.observe(ch['v'])
            elif k == 'histogram':
                try:
                    c.observe(ch['v'], ch.get('ex'))
                except ValueError:
                    notes.append('exemplar-rejected')
                    c.observe(ch['v'])
            elif k == 'info':
                try:
                    c.info(dict(ch.get('info') or {}))
                except ValueError:
                    notes.append('info-rejected')
            elif k == 'enum':
                c.state(sp['states'][ch['state'] % len(sp['states'])])
        except ValueError:
            notes.append('op-rejected')
    return ('accepted', m._name)


def build_custom(sp, notes):
    from prometheus_client import core
    from prometheus_client.metrics_core import Metric
    cls = sp['cls']
    try:
        if cls == 'Metric':
            m = Metric(sp['name'], sp['doc'], sp['typ'], sp['unit'])
            for s in sp['samples']:
                m.add_sample(s['name'], dict(s['labels']), s['value'], mk_ts(s['ts']), mk_ex(s['ex']))
            return m
        C = getattr(core, cls)
        kw = dict(labels=list(sp['labelnames']))
        if cls not in ('InfoMetricFamily', 'StateSetMetricFamily'):
            kw['unit'] = sp['unit']
        m = C(sp['name'], sp['doc'], **kw)
        for row in sp['rows']:
            ts = mk_ts(row['ts'])
            if cls in ('GaugeMetricFamily', 'UnknownMetricFamily'):
                m.add_metric(row['lv'], row['v'], ts)
            elif cls == 'CounterMetricFamily':
                m.add_metric(row['lv'], row['v'], created=row.get('created'), timestamp=ts, exemplar=mk_ex(row.get('ex')))
            elif cls == 'InfoMetricFamily':
                m.add_metric(row['lv'], dict(row['info']), ts)
            elif cls == 'StateSetMetricFamily':
                m.add_metric(row['lv'], dict(row['states']), ts)
            elif cls == 'SummaryMetricFamily':
                m.add_metric(row['lv'], 3, row['v'], ts)
            elif cls == 'HistogramMetricFamily':
                bs = [tuple(b[:2]) + ((mk_ex(b[2]),) if len(b) == 3 else ()) for b in row['buckets']]
                m.add_metric(row['lv'], bs, row['v'], ts)
            elif cls == 'GaugeHistogramMetricFamily':
                m.add_metric(row['lv'], [tuple(b[:2]) for b in row['buckets']], row['v'], ts)
        return m
    except ValueError:
        notes.append('family-rejected')
        return None


class Built:
    pass


def build(case):
    """run the real constructors; returns the registry, the collected families and the constructor verdicts"""
    from prometheus_client import CollectorRegistry, validation
    b = Built()
    b.notes = []
    b.ctor = []
    old = validation.get_legacy_validation()
    (validation.enable_legacy_validation if case['legacy'] else validation.disable_legacy_validation)()
    try:
        reg = CollectorRegistry()
        custom = []
        for sp in case['specs']:
            if sp['k'] == 'custom':
                m = build_custom(sp, b.notes)
                if m is not None:
                    custom.append(m)
            else:
                b.ctor.append((sp, build_class(sp, reg, b.notes)))
        if custom:
            reg.register(_Collector(custom))
        b.reg = reg
        b.fams = list(reg.collect())
    finally:
        (validation.enable_legacy_validation if old else validation.disable_legacy_validation)()
    return b


def with_setting(legacy, f):
    from prometheus_client import validation
    old = validation.get_legacy_validation()
    (validation.enable_legacy_validation if legacy else validation.disable_legacy_validation)()
    try:
        return f()
    finally:
        (validation.enable_legacy_validation if old else validation.disable_legacy_validation)()


# ------------------------------------------------------------------------------------------------ the Python line recogniser
class Bad(Exception):
    pass


LF1 = set('abcdefghijklmnopqrstuvwxyzABCDEFGHIJKLMNOPQRSTUVWXYZ_')
LR = LF1 | set('0123456789')
NF1 = LF1 | {':'}
NR = LR | {':'}
NUMCH = set('0123456789abcdefghijklmnopqrstuvwxyzABCDEFGHIJKLMNOPQRSTUVWXYZ.+-')


def p_quoted(s, i):
    """s[i] is just after an opening quote; returns (unescaped text, index after the closing quote)"""
    out = []
    n = len(s)
    while True:
        if i >= n:
            raise Bad('unterminated quoted string')
        c = s[i]
        if c == '"':
            return ''.join(out), i + 1
        if c == '\n':
            raise Bad('raw LF in quoted string')
        if c == '\\':
            if i + 1 >= n:
                raise Bad('dangling backslash')
            d = s[i + 1]
            if d == 'n':
                out.append('\n')
            elif d in '\\"':
                out.append(d)
            else:
                raise Bad('bad escape')
            i += 2
        else:
            out.append(c)
            i += 1


def p_bare(s, i, first, rest):
    if i >= len(s) or s[i] not in first:
        raise Bad('name expected')
    j = i + 1
    while j < len(s) and s[j] in rest:
        j += 1
    return s[i:j], j


def p_label(s, i):
    if i < len(s) and s[i] == '"':
        k, i = p_quoted(s, i + 1)
    else:
        k, i = p_bare(s, i, LF1, LR)
    if s[i:i + 2] != '="':
        raise Bad('=" expected after label name')
    v, i = p_quoted(s, i + 2)
    return k, v, i


def p_labels(s, i, allow_empty):
    """after '{' (or after `"name",`): label (',' label)* '}' ; returns (dict, index after '}')"""
    d = {}
    if allow_empty and s[i:i + 1] == '}':
        return d, i + 1
    while True:
        k, v, i = p_label(s, i)
        if k in d:
            raise Bad('duplicate label')
        d[k] = v
        if s[i:i + 1] == ',':
            i += 1
            continue
        if s[i:i + 1] == '}':
            return d, i + 1
        raise Bad(', or } expected')


def p_tok(s, i, alphabet):
    j = i
    while j < len(s) and s[j] in alphabet:
        j += 1
    if j == i:
        raise Bad('token expected')
    return s[i:j], j


def rec_sample(s, om):
    i = 0
    if s[:1] == '{':
        if s[1:2] != '"':
            raise Bad('quoted metric name expected after {')
        name, i = p_quoted(s, 2)
        if s[i:i + 1] == '}':
            labels, i = {}, i + 1
        elif s[i:i + 1] == ',':
            i += 1
            if om and s[i:i + 1] == ' ':
                i += 1
            labels, i = p_labels(s, i, False)
        else:
            raise Bad(', or } expected after quoted name')
    else:
        name, i = p_bare(s, 0, NF1, NR)
        labels = {}
        if s[i:i + 1] == '{':
            labels, i = p_labels(s, i + 1, True)
    if s[i:i + 1] != ' ':
        raise Bad('space before value expected')
    val, i = p_tok(s, i + 1, NUMCH)
    ex = None
    if i < len(s):
        if s[i] != ' ':
            raise Bad('space after value expected')
        i += 1
        if om:
            if s[i:i + 1] != '#':
                _, i = p_tok(s, i, NUMCH)
                if i < len(s):
                    if s[i:i + 2] != ' #':
                        raise Bad('junk after timestamp')
                    i += 1
            if i < len(s):
                if s[i:i + 3] != '# {':
                    raise Bad('exemplar expected')
                ex, i = p_labels(s, i + 3, True)
                if s[i:i + 1] != ' ':
                    raise Bad('space before exemplar value')
                _, i = p_tok(s, i + 1, NUMCH)
                if i < len(s):
                    if s[i] != ' ':
                        raise Bad('junk after exemplar value')
                    _, i = p_tok(s, i + 1, NUMCH)
        else:
            if s[i:i + 1] == '-':
                i += 1
            _, i = p_tok(s, i, set('0123456789'))
    if i != len(s):
        raise Bad('junk at end of line')
    return name, labels, ex


def p_help(t, om):
    """the docstring of a HELP line, unescaped.  Text format 0.0.4: exactly the escapes \\\\ and \\n, any other use of a backslash is
    an invalid escape sequence; OpenMetrics: an escaped-string (no raw quote / backslash; escapes \\\\ \\" \\n)"""
    out = []
    i, n = 0, len(t)
    while i < n:
        c = t[i]
        if c == '\\':
            if i + 1 >= n:
                raise Bad('dangling backslash in help')
            d = t[i + 1]
            if d == 'n':
                out.append('\n')
            elif d == '\\' or (om and d == '"'):
                out.append(d)
            else:
                raise Bad('invalid escape sequence \\%s in help' % d)
            i += 2
        else:
            if c == '\n' or (om and c == '"'):
                raise Bad('raw %r in help' % c)
            out.append(c)
            i += 1
    return ''.join(out)


def p_meta_name(s, i):
    if s[i:i + 1] == '"':
        name, i = p_quoted(s, i + 1)
    else:
        name, i = p_bare(s, i, NF1, NR)
    if s[i:i + 1] != ' ':
        raise Bad('space after name expected')
    return name, i + 1


def rec_line(s, om):
    """(kind, payload) or (None, why)"""
    try:
        if '\n' in s:
            raise Bad('LF inside a line')
        if s.startswith('# HELP '):
            name, i = p_meta_name(s, 7)
            return 'help', (name, p_help(s[i:], om))
        if s.startswith('# TYPE '):
            name, i = p_meta_name(s, 7)
            if s[i:] not in (OM_TYPES if om else TEXT_TYPES):
                raise Bad('unknown type word')
            return 'type', (name, s[i:])
        if om and s.startswith('# UNIT '):
            name, i = p_meta_name(s, 7)
            u = s[i:]
            if not u or any(c in u for c in '\n"\\'):
                raise Bad('bad unit')
            return 'unit', (name, u)
        if om and s == '# EOF':
            return 'eof', None
        return 'sample', rec_sample(s, om)
    except Bad as e:
        return None, str(e)


def rec_graphite(s):
    parts = s.split(' ')
    if len(parts) != 3:
        return False
    p, v, t = parts
    return (len(p) > 0 and all(33 <= ord(c) <= 126 for c in p) and len(v) > 0 and all(c in NUMCH for c in v)
            and len(t) > 0 and all(c in '0123456789' for c in t))


# ------------------------------------------------------------------------------------------------ expected line kinds
def munged_name(f):
    return f.name + {'counter': '_total', 'info': '_info'}.get(f.type, '')


def expected_text(fams):
    out = []
    for f in fams:
        main = [s for s in f.samples if not any(s.name == f.name + suf for suf in TRAILING)]
        out.append(('help', (munged_name(f), f.documentation)))
        out.append(('type', munged_name(f)))
        out += [('sample', s) for s in main]
        for suf in sorted(TRAILING):
            grp = [s for s in f.samples if s.name == f.name + suf]
            if grp:
                out.append(('help', (f.name + suf, f.documentation)))
                out.append(('type', f.name + suf))
                out += [('sample', s) for s in grp]
    return out


def expected_om(fams):
    out = []
    for f in fams:
        out.append(('help', (f.name, f.documentation)))
        out.append(('type', f.name))
        if f.unit:
            out.append(('unit', f.name))
        out += [('sample', s) for s in f.samples]
    out.append(('eof', None))
    return out


def check_doc(data, om, fams):
    """None or a description of the first discrepancy"""
    try:
        text = data.decode('utf-8')
    except UnicodeDecodeError:
        return 'output is not UTF-8'
    pieces = text.split('\n')
    if pieces[-1] != '':
        return 'output does not end in LF'
    pieces.pop()
    exp = expected_om(fams) if om else expected_text(fams)
    got = [rec_line(p, om) for p in pieces]
    for idx, (k, payload) in enumerate(got):
        if k is None:
            return 'piece %d %r is not a line of the format (%s)' % (idx, pieces[idx][:60], payload)
    if len(got) != len(exp):
        return '%d lines written, %d expected for the collected families' % (len(got), len(exp))
    for idx, ((k, payload), (ek, obj)) in enumerate(zip(got, exp)):
        if k != ek:
            return 'line %d %r is a %s line, %s expected' % (idx, pieces[idx][:60], k, ek)
        if k == 'help':
            if payload[0] != obj[0]:
                return 'line %d names %r, family name is %r' % (idx, payload[0], obj[0])
            if payload[1] != obj[1]:
                return 'line %d HELP text reads %r, the family documentation is %r' % (idx, payload[1], obj[1])
            continue
        if k in ('type', 'unit') and payload[0] != obj:
            return 'line %d names %r, family name is %r' % (idx, payload[0], obj)
        if k == 'sample':
            name, labels, ex = payload
            if name != obj.name or labels != dict(obj.labels):
                return 'line %d carries %r %r, sample is %r %r' % (idx, name, labels, obj.name, dict(obj.labels))
            if om and (ex is not None) != (obj.exemplar is not None):
                return 'line %d exemplar presence differs from the sample' % idx
            if om and ex is not None and ex != dict(obj.exemplar.labels):
                return 'line %d exemplar labels %r, sample has %r' % (idx, ex, dict(obj.exemplar.labels))
    return None


def exemplar_rule_ok(f, s):
    """the OpenMetrics rule, from the specification text (not from the library's predicate): an exemplar may sit on a
    counter's `_total` sample and on a `_bucket` sample of a histogram or gaugehistogram"""
    if f.type == 'counter':
        return s.name == f.name + '_total'
    if f.type in ('histogram', 'gaugehistogram'):
        return s.name == f.name + '_bucket'
    return False


def exemplars_by_rule(fams):
    """(all exemplars sit where the rule allows them, number of exemplars sitting elsewhere)"""
    bad = sum(1 for f in fams for s in f.samples if s.exemplar is not None and not exemplar_rule_ok(f, s))
    return bad == 0, bad


# ------------------------------------------------------------------------------------------------ graphite
_SENT = []


class _FakeConn:
    def sendall(self, b):
        _SENT.append(b)

    def close(self):
        pass


def graphite_push(reg, case, real_socket):
    from prometheus_client.bridge import graphite
    if not real_socket:
        del _SENT[:]
        orig = graphite.socket.create_connection
        graphite.socket.create_connection = lambda a, t=None: _FakeConn()
        try:
            graphite.GraphiteBridge(('127.0.0.1', 1), reg, _timer=lambda: case['now'] + 0.9, tags=case['tags']).push(prefix=case['prefix'])
        finally:
            graphite.socket.create_connection = orig
        return b''.join(_SENT)
    srv = socket.socket()
    srv.bind(('127.0.0.1', 0))
    srv.listen(1)
    got = []

    def serve():
        srv.settimeout(5)
        try:
            c, _ = srv.accept()
        except socket.timeout:
            return
        c.settimeout(1)
        while True:
            try:
                d = c.recv(65536)
            except socket.timeout:
                break
            if not d:
                break
            got.append(d)
        c.close()
    t = threading.Thread(target=serve)
    t.start()
    try:
        graphite.GraphiteBridge(srv.getsockname(), reg, _timer=lambda: case['now'] + 0.9, tags=case['tags']).push(prefix=case['prefix'])
    except Exception:
        try:
            socket.create_connection(srv.getsockname(), 1).close()
        except OSError:
            pass
        t.join()
        srv.close()
        raise
    t.join()
    srv.close()
    return b''.join(got)


COMP = re.compile(r'^[A-Za-z0-9_-]*$')


def check_graphite(data, case, fams):
    try:
        text = data.decode('ascii')
    except UnicodeDecodeError:
        return 'graphite bytes are not ASCII'
    pieces = text.split('\n')
    if pieces[-1] != '':
        return 'graphite output does not end in LF'
    pieces.pop()
    samples = [s for f in fams for s in f.samples]
    if len(pieces) != len(samples):
        return 'graphite: %d lines for %d samples' % (len(pieces), len(samples))
    pre = case['prefix'] + '.' if case['prefix'] else ''
    for p, s in zip(pieces, samples):
        if not rec_graphite(p):
            return 'graphite line %r is not `path value timestamp`' % p[:80]
        path, _, ts = p.split(' ')
        if ts != str(case['now']):
            return 'graphite timestamp %r' % ts
        if not path.startswith(pre):
            return 'graphite path %r lacks the prefix' % path
        rest = path[len(pre):]
        if case['tags']:
            comps = rest.split(';')
            flat = [comps[0]]
            for kv in comps[1:]:
                if kv.count('=') != 1:
                    return 'graphite tag %r' % kv
                flat += kv.split('=')
        else:
            flat = rest.split('.')
        if len(flat) != 1 + 2 * len(s.labels) or not all(COMP.match(c) for c in flat):
            return 'graphite path %r: components %r not sanitised / not one per name, label name, label value' % (path, flat)
    return None


# ------------------------------------------------------------------------------------------------ evaluating one case
def evaluate(case, real_socket=False, want_bytes=False):
    """run the real code on the case; returns (list of (where, why), extra)"""
    from prometheus_client import exposition
    from prometheus_client.openmetrics import exposition as om
    fails = []
    b = build(case)
    extra = {'built': b}
    # text
    try:
        tbytes = with_setting(case['legacy'], lambda: exposition.generate_latest(b.reg))
        why = check_doc(tbytes, False, b.fams)
        if why:
            fails.append(('text', why))
    except Exception as e:  # noqa
        tbytes = e
        fails.append(('text', 'generate_latest raised %s' % type(e).__name__))
    # openmetrics
    # An exemplar where the OpenMetrics rule does not allow one can only come from a custom collector: out-of-scope input, for
    # which a ValueError is an acceptable answer.  With every exemplar where the rule allows it, the exposition must not raise.
    elig, n_bad = exemplars_by_rule(b.fams)
    extra['ineligible_exemplars'] = n_bad
    extra['ineligible_exposed'] = 0
    try:
        obytes = with_setting(case['legacy'], lambda: om.generate_latest(b.reg))
        if not elig:
            extra['ineligible_exposed'] = n_bad      # the library let it through (documented limit, counted in run)
        why = check_doc(obytes, True, b.fams)
        if why:
            fails.append(('om', why))
    except Exception as e:  # noqa
        obytes = e
        if not (isinstance(e, ValueError) and not elig):
            fails.append(('om', 'openmetrics generate_latest raised %s' % type(e).__name__))
    # graphite
    try:
        gbytes = graphite_push(b.reg, case, real_socket)
        why = check_graphite(gbytes, case, b.fams)
        if why:
            fails.append(('graphite', why))
    except Exception as e:  # noqa
        gbytes = e
        fails.append(('graphite', 'push raised %s' % type(e).__name__))
    extra.update(text=tbytes, om=obytes, graphite=gbytes)
    return fails, extra


# ------------------------------------------------------------------------------------------------ minimise + classify
BENIGN = {'name': 'x', 'text': 'x', 'unit': '', 'prefix': ''}


def positions(case):
    """every user-supplied string of the case: (kind, getter path) as closures get/set"""
    out = []

    def add(kind, container, key):
        out.append((kind, container, key))
    add('prefix', case, 'prefix')
    for sp in case['specs']:
        add('mname', sp, 'name')
        add('doc', sp, 'doc')
        add('unit', sp, 'unit')
        if sp['k'] != 'custom':
            add('ns', sp, 'ns')
            add('ss', sp, 'ss')
            for i in range(len(sp['labelnames'])):
                add('lname', sp['labelnames'], i)
            if 'states' in sp:
                for i in range(len(sp['states'])):
                    add('state', sp['states'], i)
            for ch in sp['children']:
                for i in range(len(ch['lv'])):
                    add('lvalue', ch['lv'], i)
                for dk in ('ex', 'info'):
                    if ch.get(dk) is not None:      # (presence, not emptiness: positions must stay stable while shrinking)
                        add('exdict' if dk == 'ex' else 'infodict', ch, dk)
        elif sp['cls'] == 'Metric':
            for s in sp['samples']:
                add('sname', s, 'name')
                add('ldict', s, 'labels')
                if s['ex'] is not None:
                    add('exdict', s['ex'], 'labels')
        else:
            for i in range(len(sp['labelnames'])):
                add('lname', sp['labelnames'], i)
            for row in sp['rows']:
                for i in range(len(row['lv'])):
                    add('lvalue', row['lv'], i)
                if row.get('info') is not None:
                    add('infodict', row, 'info')
                if row.get('states') is not None:
                    add('statedict', row, 'states')
                if row.get('ex') is not None:
                    add('exdict', row['ex'], 'labels')
                for bk in row.get('buckets', []):
                    add('bucket', bk, 0)
                    if len(bk) == 3:
                        add('exdict', bk[2], 'labels')
    return out


def benign_for(kind, cur, n):
    if kind in ('ldict', 'exdict', 'infodict', 'statedict'):
        return None
    if kind in ('unit', 'prefix', 'ns', 'ss'):
        return ''
    if kind in ('mname', 'sname', 'lname'):
        return 'x%d' % n
    return 'x'


def is_f2_shape(s):
    """accepted as a legacy name by the library's own regexes only because `$` matches before a final LF"""
    from prometheus_client import validation as v
    return s.endswith('\n') and (bool(v.METRIC_NAME_RE.match(s)) or bool(v.METRIC_LABEL_NAME_RE.match(s)))


def minimise(case, where, real_socket=False):
    """replace supplied strings by benign ones while the failure in `where` persists; returns (small case, culprits)"""
    def still(c):
        try:
            fails, _ = evaluate(c)
        except Exception:
            return False
        return any(w == where for w, _ in fails)
    cur = copy.deepcopy(case)
    # drop whole specs first
    i = 0
    while len(cur['specs']) > 1 and i < len(cur['specs']):
        cand = copy.deepcopy(cur)
        del cand['specs'][i]
        if still(cand):
            cur = cand
        else:
            i += 1
    culprits = []
    n = 0
    idx = 0
    while True:
        pos = positions(cur)
        if idx >= len(pos):
            break
        kind, cont, key = pos[idx]
        val = cont[key]
        if kind in ('ldict', 'exdict', 'infodict', 'statedict'):
            # dict positions: try removing each entry, then replacing key / value
            d = dict(val)
            for k in list(d):
                cand_d = {a: b for a, b in d.items() if a != k}
                cont[key] = cand_d
                if still(cur):
                    d = cand_d
                else:
                    cont[key] = d
            for k in list(d):
                n += 1
                kk = 'x%d' % n
                cand_d = {(kk if a == k else a): b for a, b in d.items()}
                cont[key] = cand_d
                if still(cur):
                    d = cand_d
                    k2 = kk
                else:
                    cont[key] = d
                    culprits.append((kind + '-key', k))
                    k2 = k
                if kind != 'statedict':
                    cand_d = dict(d)
                    cand_d[k2] = 'x'
                    cont[key] = cand_d
                    if still(cur):
                        d = cand_d
                    else:
                        cont[key] = d
                        culprits.append((kind + '-value', d[k2]))
            cont[key] = d
        else:
            n += 1
            ben = benign_for(kind, val, n)
            if val != ben:
                cont[key] = ben
                if not still(cur):
                    cont[key] = val
                    culprits.append((kind, val))
        idx += 1
    return cur, culprits


BARE_LABEL = re.compile(r'[a-zA-Z_][a-zA-Z0-9_]*\Z')


def classify(case, where, why, culprits, extra, other_fails):
    """signature of a minimised failing case, read off what is left in the registry it builds"""
    fams = extra['built'].fams
    if where == 'graphite':
        if not case['prefix'] and any(s.name == '' for f in fams for s in f.samples):
            return SIGS['g2']
        return 'C05:other:graphite ' + why[:60]
    if where in ('text', 'om') and 'raised' not in why:
        ex_keys = [k for f in fams for s in f.samples if s.exemplar is not None for k in s.exemplar.labels]
        if where == 'om' and 'text' not in other_fails:
            # the text format is fine on this minimal case: the cause is something only OpenMetrics writes
            if any(f.unit and any(c in f.unit for c in '\n"\\') for f in fams):
                return SIGS['f4']
            if any(not BARE_LABEL.match(k) and not is_f2_shape(k) for k in ex_keys):
                return SIGS['f3']
            if any(is_f2_shape(k) for k in ex_keys):
                return SIGS['f2']
        names = [f.name for f in fams] + [munged_name(f) for f in fams] + [s.name for f in fams for s in f.samples] + \
                [k for f in fams for s in f.samples for k in s.labels]
        if any(is_f2_shape(n) for n in names):
            return SIGS['f2']
    return 'C05:other:%s %s' % (where, re.sub(r"'.*?'", '<..>', why)[:70])


# ------------------------------------------------------------------------------------------------ driver correspondence
def drv(ctx, reqs):
    """ctx.driver.run, riding out a concurrent relink of the driver binary by another check (shared build tree)"""
    import time
    for attempt in range(40):
        try:
            return ctx.driver.run(reqs)
        except OSError:            # binary momentarily missing / being written
            time.sleep(2)
    raise lib.Infra('driver binary unavailable for 80 s')


def ctor_request(case, sp):
    typ = {'enum': 'stateset'}.get(sp['k'], sp['k'])
    ns = '-' if sp['k'] != 'enum' else str(len(sp['states']))
    return ' '.join(['c05 ctor', '1' if case['legacy'] else '0', lib.hx(typ), lib.hx(sp['name']), lib.hx(sp['ns']), lib.hx(sp['ss']),
                     lib.hx(sp['unit']), ns] + [lib.hx(l) for l in sp['labelnames']])


def kinds_field(data, om):
    text = data.decode('utf-8')
    return lib.enc_list([(rec_line(p, om)[0] or '-') for p in text.split('\n')])


def compare_with_driver(ctx, cases_extras):
    import famcodec
    reqs, checks = [], []
    for case, extra in cases_extras:
        b = extra['built']
        try:
            enc = famcodec.enc_families(b.fams)
        except Exception:
            ctx.count('codec-skip')
            enc = None
        small = {'legacy': case['legacy'], 'specs': case['specs'], 'prefix': case['prefix'], 'tags': case['tags'], 'now': case['now']}
        if enc is not None:
            for fmt, real in (('text', extra['text']), ('om', extra['om'])):
                reqs.append('expo %s %s' % (fmt, enc))
                checks.append(('expo', fmt, real, small))
                if isinstance(real, bytes):
                    reqs.append('c05 recognise %s %s' % (fmt, lib.hx(real.decode('utf-8'))))
                    checks.append(('rec', fmt, real, small))
            reqs.append('c05 graphite %s %s %d %s' % ('1' if case['tags'] else '0', lib.hx(case['prefix']), case['now'], enc))
            checks.append(('graphite', None, extra['graphite'], small))
        for sp, (verdict, full) in b.ctor:
            reqs.append(ctor_request(case, sp))
            checks.append(('ctor', None, (verdict, full), small))
        for f in b.fams[:2]:
            reqs.append('c05 metric_init %s %s %s %s' % ('1' if case['legacy'] else '0', lib.hx(f.name), lib.hx(f.type), lib.hx(f.unit)))
            checks.append(('minit', None, (f.name, f.type), small))
    replies = drv(ctx, reqs)
    if replies is None:
        return
    for rep, (kind, fmt, real, small) in zip(replies, checks):
        ctx.traces += 1
        if kind == 'expo':
            if isinstance(real, bytes):
                if rep != 'ok ' + lib.hx(real.decode('utf-8')):
                    got = lib.unhx(rep[3:]) if rep.startswith('ok ') else rep
                    ctx.diverge('%s exposition: model %r, implementation %r' % (fmt, got[:200], real[:200]), small)
            else:
                if rep != 'err ' + type(real).__name__:
                    ctx.diverge('%s exposition: implementation raised %s, model says %r' % (fmt, type(real).__name__, rep[:80]), small)
        elif kind == 'rec':
            want = 'ok ' + kinds_field(real, fmt == 'om')
            if rep != want:
                ctx.diverge('%s line recognisers disagree: Lean %r, Python %r on %r' % (fmt, rep[:200], want[:200], real[:200]), small)
        elif kind == 'graphite':
            if isinstance(real, bytes):
                if rep != 'ok ' + lib.hx(real.decode('ascii', 'replace')):
                    got = lib.unhx(rep[3:]) if rep.startswith('ok ') else rep
                    ctx.diverge('graphite: model %r, implementation %r' % (got[:200], real[:200]), small)
            else:
                name = 'UnicodeError' if isinstance(real, UnicodeError) else type(real).__name__
                if rep != 'err ' + name:
                    ctx.diverge('graphite: implementation raised %s, model says %r' % (type(real).__name__, rep[:80]), small)
        elif kind == 'ctor':
            verdict, full = real
            want = 'ok ' + lib.hx(full) if verdict == 'accepted' else 'err ValueError'
            if rep != want:
                ctx.diverge('constructor: model %r, implementation %r' % (rep[:100], want[:100]), small)
        elif kind == 'minit':
            want = 'ok %s %s' % (lib.hx(real[0]), lib.hx(real[1]))
            if rep != want:
                ctx.diverge('Metric.__init__ on a collected family: model %r, implementation keeps %r' % (rep[:100], real), small)


def function_level(ctx):
    """_sanitize and the two Graphite-line recognisers on adversarial strings"""
    from prometheus_client.bridge import graphite
    rng = ctx.rng
    strs = ['', 'a', 'a b', 'é', '\n', 'a.b;c=d', '-_', '😀x'] + [g_adv(rng, 0, 8) for _ in range(150)]
    lines = ['a 1.0 1', ' 1.0 1', 'a  1', 'a 1.0 1 ', 'a b 1.0 1', 'a\t1.0 1', 'é 1 1', 'a 1.0 -1', 'a nan 12', 'a;b=c 1e+300 0',
             'a 1.0', ''] + [g_adv(rng, 0, 5) + ' ' + rng.choice(['1.0', 'x y', '']) + ' ' + rng.choice(['1', '', 'a']) for _ in range(60)]
    reqs = ['c05 sanitize ' + lib.hx(s) for s in strs] + ['c05 gline ' + lib.hx(l) for l in lines]
    replies = drv(ctx, reqs)
    for s in strs:
        out = graphite._sanitize(s)
        ctx.case(('san', s))
        ctx.count('fn:_sanitize')
        if not COMP.match(out) and ctx.dist.get('fail:C05:other:sanitize', 0) < 3:
            ctx.count('fail:C05:other:sanitize')
            ctx.fail('C05:other:sanitize', '_sanitize(%r) = %r leaves a character outside [A-Za-z0-9_-]' % (s, out), {'fn': 'sanitize', 's': s})
    if replies is None:
        return
    for s, rep in zip(strs, replies[:len(strs)]):
        ctx.traces += 1
        if rep != 'ok ' + lib.hx(graphite._sanitize(s)):
            ctx.diverge('_sanitize(%r): model %r, implementation %r' % (s, rep, graphite._sanitize(s)), {'fn': 'sanitize', 's': s})
    for l, rep in zip(lines, replies[len(strs):]):
        ctx.traces += 1
        ctx.count('fn:graphite-recognisers')
        if rep != 'ok ' + ('true' if rec_graphite(l) else 'false'):
            ctx.diverge('graphite line recognisers disagree on %r: Lean %r' % (l, rep), {'fn': 'gline', 's': l})


# ------------------------------------------------------------------------------------------------ run / replay
def check_trusted(fams):
    for f in fams:
        for s in f.samples:
            if not NUM_RE.match(repr(float(s.value))):
                raise lib.Infra('trusted fact violated: repr(float(%r)) is not a number token' % (s.value,))
            if s.timestamp is not None and not NUM_RE.match(str(s.timestamp)):
                raise lib.Infra('trusted fact violated: str(timestamp %r) is not a number token' % (s.timestamp,))


def run_case(ctx, case, real_socket, batch):
    fails, extra = evaluate(case, real_socket)
    b = extra['built']
    check_trusted(b.fams)
    ctx.case(nontrivial_key=repr(sorted((f.name, f.type, len(f.samples)) for f in b.fams)) + repr(case['legacy']) if b.fams else None,
             sample={'legacy': case['legacy'], 'text': extra['text'][:120].decode('utf-8', 'replace') if isinstance(extra['text'], bytes) else repr(extra['text'])})
    ctx.count('legacy' if case['legacy'] else 'utf8')
    ctx.count('families', len(b.fams))
    ctx.count('samples', sum(len(f.samples) for f in b.fams))
    for n in b.notes:
        ctx.count(n)
    if extra['ineligible_exemplars']:
        ctx.count('custom-collector-exemplar-outside-the-rule', extra['ineligible_exemplars'])
        ctx.count('ineligible-exemplar-exposed', extra['ineligible_exposed'])
    for sp in case['specs']:
        ctx.count('spec:' + (sp['k'] if sp['k'] != 'custom' else sp['cls']))
    for f in b.fams:
        for s in f.samples:
            if s.exemplar is not None:
                ctx.count('exemplars')
            if s.timestamp is not None:
                ctx.count('timestamps')
            if s.name != f.name and not any(s.name == f.name + x for x in ('_total', '_created', '_gsum', '_gcount', '_bucket', '_sum', '_count', '_info')):
                ctx.count('sample-name-unrelated-to-family')
    seen_where = set()
    for where, why in fails:
        if where in seen_where:
            continue
        seen_where.add(where)
        small, culprits = minimise(case, where)
        sfails, sextra = evaluate(small)
        swhy = next((y for w, y in sfails if w == where), why)
        sig = classify(small, where, swhy, culprits, sextra, set(w for w, _ in sfails))
        ctx.count('fail:' + sig)
        seen = ctx.__dict__.setdefault('_c05_sigs', {})
        seen[sig] = seen.get(sig, 0) + 1
        if seen[sig] > 3:          # keep room under the failure cap for every other signature
            continue
        ctx.fail(sig, '%s: %s  [culprit strings: %r]' % (where, swhy, culprits[:4]), small)
    batch.append((case, extra))


def run(ctx):
    ctx.rule = ('registries of 1-3 collectors (the six instrumentation classes, Metric and the eight *MetricFamily helpers through a custom '
                'collector) with the adversarial alphabet (\\ " LF CR , = { } # SP TAB U+00A0 U+2028 é emoji NUL : . ; -) in every metric name, '
                'label name, label value, help, unit, namespace, enum state, info key/value, exemplar label name/value, sample name, bucket bound, '
                'Graphite prefix; both validation settings; a case is non-trivial when it collects at least one family; distinct by '
                '(family names, types, sample counts, setting)')
    ctx.extra['documented_limits'] = [
        'the Graphite `prefix` argument of push()/start() is operator configuration, not one of the application-supplied strings the '
        'property quantifies over; push inserts it raw (a prefix containing LF or space forges lines, a non-ASCII one makes push raise '
        'UnicodeEncodeError — theorem graphite_prefix_counterexample). Prefixes are therefore drawn only from [A-Za-z0-9_-] plus \'.\' '
        'and the empty prefix; graphiteOK keeps that as a precondition on configuration.',
    ]
    quick = ctx.tier == 'quick'
    n = 3000 if quick else 40000
    if ctx.broken:
        n *= 2
    real_every = 0 if quick else 25
    batch = []
    function_level(ctx)
    for case in CORPUS:
        run_case(ctx, copy.deepcopy(case), not quick, batch)
    for i in range(n):
        case = g_case(ctx.rng)
        run_case(ctx, case, bool(real_every) and i % real_every == 0, batch)
        if len(batch) >= 400:
            compare_with_driver(ctx, batch)
            batch = []
    compare_with_driver(ctx, batch)
    ctx.extra['documented_limits'].append(
        'an exemplar on a sample where the OpenMetrics rule does not allow one (rule: counter `_total`, histogram/gaugehistogram '
        '`_bucket`) can only come from a custom collector and is out-of-scope input; a ValueError from the OpenMetrics exposition is '
        'accepted there. The library\'s own test `_is_valid_exemplar_metric` is laxer than the rule (`... or sample.name == metric.name` '
        'binds last, so a sample named like its family may carry an exemplar whatever the type; `metric.type in (\'gaugehistogram\')` is '
        'a substring test): this run generated %d such exemplars and the library exposed %d of them without raising (the lines were '
        'still well-formed; counted, not failed).' % (ctx.dist.get('custom-collector-exemplar-outside-the-rule', 0),
                                                      ctx.dist.get('ineligible-exemplar-exposed', 0)))


def replay(ctx, case):
    c = case.get('case', case)
    if c.get('fn') == 'sanitize':
        from prometheus_client.bridge import graphite
        out = graphite._sanitize(c['s'])
        print('REPLAY _sanitize(%r) = %r' % (c['s'], out))
        return 0 if COMP.match(out) else 1
    if 'specs' not in c:
        print('REPLAY: nothing to re-run in this file (no failing input was found; see no_longer_checks)')
        return 1
    fails, extra = evaluate(c, real_socket=False)
    for k in ('text', 'om', 'graphite'):
        print('REPLAY %s: %r' % (k, extra[k]))
    for where, why in fails:
        print('REPLAY-FAIL %s: %s' % (where, why))
    batch = [(c, extra)]
    compare_with_driver(ctx, batch)
    for d in ctx.divergences:
        print('REPLAY-DIVERGE', d['what'])
    return 1 if fails or ctx.divergences else 0
