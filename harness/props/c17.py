"""C17 — HTTP front-ends serve a body that matches the negotiated headers, and agree.

Real code driven in-process: the WSGI callable (environ dict + start_response stub), the ASGI coroutine (hand-rolled
`coro.send(None)` loop with plain async receive/send; asgiref is not needed) and MetricsHandler (a raw HTTP request through
`rfile`/`wfile` BytesIO objects when the request can be put on the wire as latin-1, else `do_GET` on a handler object whose
`headers`/`path` are set directly).

Oracle on the real code, independent of the Lean model:
  * Accept / Accept-Encoding are read by an own character scanner (items at ',', token = text before the first ';', trimmed
    over the 29 whitespace code points);  OpenMetrics iff some token IS `application/openmetrics-text`;  gzip iff some token
    equals `gzip` up to ASCII case and compression is enabled
  * expected restriction = the non-blank values of `name[]` known from the structure the query string was generated from
    (own percent-decoder for the malformed stream); the expected restricted BODY is computed without the library's restriction
    code: one full collect, own filter "sample name in the set" (families left empty dropped, name/help/type/unit kept), a
    fresh registry, the format's encoder; compared up to the order of family blocks
  * every GET: 200, Content-Type EXACTLY the documented content type of the expected format (the two strings are own literals
    here: `text/plain; version=0.0.4; charset=utf-8`, `application/openmetrics-text; version=1.0.0; charset=utf-8` - whatever
    version/charset/q parameters the Accept entry carries, the header names the format the body is written in; the format of
    the body served is also read off the body alone: OpenMetrics ends in `# EOF`), Content-Encoding: gzip iff expected, body
    (after gzip.decompress iff the header is present) == that format's generate_latest of the (restricted) registry, collected
  * PARAMETERS are a generated dimension of both headers: version= in {0.0.1, 1.0.0, 0.0.4, 2.0.0, garbage, ...}, charset=, q=,
    escaping=/proto=/encoding=/v=, in every position and order, with/without whitespace, quoted values, repeated names, upper/
    mixed-case names, on every media type; a finite grid of them is enumerated (param_grid) and the Accept / Accept-Encoding
    values real clients send (Prometheus 1.x/2.x/3.x, Telegraf, curl, browsers) are in the corpus and the generator
  * the three front-ends agree (WSGI/ASGI also with compression disabled)
  * WSGI: OPTIONS -> 200 + Allow + empty body + nothing collected; every other non-GET -> 405 + Allow + nothing collected
T2: the driver computes, per front-end, (status, header list, body = format/restriction/gzip count, collected) for the same
request; the body description is evaluated with the real encoders and compared with the real bytes.

BYTES: header names/values and the query string of a case are byte strings, written in the case as their latin-1 text
(every character <= U+00FF).  The SAME bytes go to the three front-ends: WSGI gets the latin-1 text (PEP 3333), ASGI the
bytes, MetricsHandler the raw request bytes through rfile (or the latin-1 text when the request cannot be put on the wire).
Values are generated as Unicode text over the grammar and put on the wire as UTF-8 or latin-1, so bytes >= 0x80 (a0, 85, c2 a0,
ff, e2 80 83 ...) occur in and around tokens.

Scope (see Props/C17.lean): at most one Accept and one Accept-Encoding field line is in scope of the agreement oracle;
repeated field lines are exercised for the correspondence only (MetricsHandler reads the first line only).  Blank `name[]`
values do not count as values (parse_qs drops them).  Media types are compared case-sensitively, codings case-insensitively.
DOCUMENTED LIMIT: a request target with a raw '#' (not a valid RFC 3986 path/query character) — urlparse cuts it off for
MetricsHandler, wsgiref/ASGI do not; such requests ARE generated, MetricsHandler is judged on urlparse's query string, left out
of the agreement group, and the numbers are recorded in evidence `documented_limits` (no failure).

Failure classes with their own signatures because they were real defects of asgi.py (repaired in /repo: 14bb0ad, 34b1cbd):
`C17:asgi-ignores-name-param`, `C17:asgi-raises-on-non-ascii-query`, `C17:asgi-raises-on-header-bytes`.  They are ordinary
failures: a recurrence is a VIOLATION.
"""
import gzip
import http.client
import io
import json
import sys
from urllib.parse import parse_qs, unquote, urlparse

import lib

CT = {'text': 'text/plain; version=0.0.4; charset=utf-8',
      'om': 'application/openmetrics-text; version=1.0.0; charset=utf-8'}
OM = 'application/openmetrics-text'
ALLOW = ('Allow', 'OPTIONS,GET')
WS = ''.join(map(chr, [9, 10, 11, 12, 13, 28, 29, 30, 31, 32, 0x85, 0xa0, 0x1680] + list(range(0x2000, 0x200b))
                  + [0x2028, 0x2029, 0x202f, 0x205f, 0x3000]))
SIG_F12 = 'C17:asgi-ignores-name-param'
SIG_F12B = 'C17:asgi-raises-on-non-ascii-query'
SIG_HDRBYTES = 'C17:asgi-raises-on-header-bytes'
METHODS = ['GET', 'HEAD', 'POST', 'PUT', 'DELETE', 'OPTIONS', 'PATCH', 'get', 'Options', 'TRACE', '']


# ------------------------------------------------------------------------------------------------ interpreter facts
def check_interpreter_facts():
    """the two CPython facts the model's `strip`/`lower` rest on, over every code point"""
    ws, low = [], {}
    for cp in range(0x110000):
        if 0xD800 <= cp <= 0xDFFF:
            continue
        c = chr(cp)
        if c.isspace():
            ws.append(c)
        if cp >= 128:
            l = c.lower()
            if any(ord(x) < 128 for x in l):
                low[cp] = l
    if ''.join(ws) != WS or any(('a' + c + 'b').strip(None) != 'a' + c + 'b' or (c + 'a' + c).strip() != 'a' for c in WS):
        raise lib.Infra('str.isspace / str.strip whitespace set differs from the modelled 29 code points')
    if low != {0x130: 'i\u0307', 0x212a: 'k'}:
        raise lib.Infra('non-ASCII characters whose lower() contains ASCII: %r (model assumes U+0130, U+212A only)' % low)
    for cp in range(128):
        c = chr(cp)
        if c.lower() != (chr(cp + 32) if 'A' <= c <= 'Z' else c):
            raise lib.Infra('ASCII lower() fact violated at %r' % c)


# ------------------------------------------------------------------------------------------------ independent oracle
def scan_tokens(hdr):
    """own scanner: items at ',', token = text up to the first ';', trimmed over WS"""
    out, cur, in_params = [], [], False
    for c in hdr + ',':
        if c == ',':
            t = ''.join(cur)
            i, j = 0, len(t)
            while i < j and t[i] in WS: i += 1
            while j > i and t[j - 1] in WS: j -= 1
            out.append(t[i:j])
            cur, in_params = [], False
        elif c == ';':
            in_params = True
        elif not in_params:
            cur.append(c)
    return out


def ascii_fold(s):
    return ''.join(chr(ord(c) + 32) if 'A' <= c <= 'Z' else c for c in s)


def want_format(accept):
    return 'om' if accept is not None and OM in scan_tokens(accept) else 'text'


def want_gzip(ae):
    return ae is not None and any(ascii_fold(t) == 'gzip' for t in scan_tokens(ae))


def pct_decode(s):
    """own `unquote_plus`"""
    b = s.replace('+', ' ').encode('utf-8')
    out, i = bytearray(), 0
    hexd = b'0123456789abcdefABCDEF'
    while i < len(b):
        if b[i] == 0x25 and i + 2 < len(b) + 1 and len(b) - i >= 3 and b[i + 1] in hexd and b[i + 2] in hexd:
            out.append(int(b[i + 1:i + 3].decode(), 16)); i += 3
        else:
            out.append(b[i]); i += 1
    return out.decode('utf-8', 'replace')


def want_names(q):
    """non-blank values of `name[]` in the query string, in order (own splitter/decoder)"""
    names = []
    for piece in q.split('&'):
        if not piece:
            continue
        k, eq, v = piece.partition('=')
        if pct_decode(k) == 'name[]' and pct_decode(v) != '':
            names.append(pct_decode(v))
    return names


# ------------------------------------------------------------------------------------------------ the real code
def err_class(e):
    """error class only, in the model's vocabulary"""
    return 'UnicodeError' if isinstance(e, UnicodeError) else type(e).__name__


def non_ascii_query(q):
    """does the query string carry a raw or percent-escaped non-ASCII byte? (own scanner)"""
    if any(ord(c) > 127 for c in q):
        return True
    i = 0
    while i + 2 < len(q):
        if q[i] == '%' and q[i + 1] in '89abcdefABCDEF' and q[i + 2] in '0123456789abcdefABCDEF':
            return True
        i += 1
    return False


class World:
    def __init__(self, kind='ctor'):
        self.kind = kind
        from prometheus_client import CollectorRegistry, Counter, Gauge, Histogram, Info, Summary
        from prometheus_client.metrics_core import Metric
        self.Metric, self.CollectorRegistry = Metric, CollectorRegistry
        from prometheus_client import exposition
        from prometheus_client.openmetrics import exposition as om
        outer = self

        class CountingRegistry(CollectorRegistry):
            def collect(self_):
                outer.collects += 1
                return CollectorRegistry.collect(self_)

            def restricted_registry(self_, names):
                rr = CollectorRegistry.restricted_registry(self_, names)
                orig = rr.collect

                def collect():
                    outer.collects += 1
                    return orig()
                rr.collect = collect
                return rr
        self.collects = 0
        # target_info: given to the constructor, or set on the registry afterwards (`later`); it is part of the registry's content
        self.reg = CountingRegistry(target_info={'env': 'prod', 'zone': 'eu-1'}) if kind == 'ctor' else CountingRegistry()
        c = Counter('reqs', 'requests served', ['code'], registry=self.reg)
        c.labels('200').inc(3); c.labels('500').inc()
        Gauge('temp_celsius', 'a gauge with a unit', unit='celsius', registry=self.reg).set(21.5)
        h = Histogram('lat_seconds', 'latency', unit='seconds', buckets=(0.1, 1.0), registry=self.reg)
        h.observe(0.05); h.observe(2.0)
        Gauge('up', 'plain gauge', registry=self.reg).set(1)
        Summary('rt', 'a summary', registry=self.reg).observe(0.25)
        Gauge('a,b', 'a UTF-8 metric name that contains a comma', registry=self.reg).set(7)
        Summary('dur\u00e9e', 'a non-ASCII UTF-8 metric name', registry=self.reg).observe(1.5)
        Info('build', 'build info', registry=self.reg).info({'version': '1'})
        if kind != 'ctor':
            self.reg.set_target_info({'env': 'prod', 'zone': 'eu-1'})
        self.enc = {'text': exposition.generate_latest, 'om': om.generate_latest}
        self.exposition = exposition
        self.cache = {}
        self.families = None
        from prometheus_client.asgi import make_asgi_app
        self.wsgi = {d: exposition.make_wsgi_app(self.reg, disable_compression=d) for d in (False, True)}
        self.asgi = {d: make_asgi_app(self.reg, disable_compression=d) for d in (False, True)}
        self.hcls = exposition.MetricsHandler.factory(self.reg)

    def retarget(self, labels):
        """change the registry's content between scrapes; everything expected is recomputed from the new content"""
        self.reg.set_target_info(labels)
        self.cache, self.families = {}, None

    def expo_lib(self, fmt, names):
        """T2 only: what the model's opaque `expo f names` stands for — encoder_f(registry.restricted_registry(names))"""
        key = ('lib', fmt, None if names is None else tuple(names))
        if key not in self.cache:
            reg = self.reg if names is None else self.reg.restricted_registry(list(names))
            self.cache[key] = self.enc[fmt](reg)
        return self.cache[key]

    def expo(self, fmt, names):
        """ORACLE: the expected body, computed WITHOUT the library's restriction code.  The full registry is collected once;
        for a restriction the samples are filtered here by sample name (exactly the samples whose name is in the set, C07),
        families left empty are dropped, name/help/type/unit are kept; the filtered families are served by a tiny collector
        in a fresh registry and encoded with the format's generate_latest."""
        key = (fmt, None if names is None else tuple(sorted(set(names))))
        if key not in self.cache:
            if names is None:
                self.cache[key] = self.enc[fmt](self.reg)
            else:
                if self.families is None:
                    self.families = list(self.CollectorRegistry.collect(self.reg))
                wanted, fams = set(names), []
                for m in self.families:
                    keep = [smp for smp in m.samples if smp.name in wanted]
                    if keep:
                        f = self.Metric(m.name, m.documentation, m.type, m.unit)
                        f.samples = keep
                        fams.append(f)

                class Fixed:
                    def collect(self_):
                        return list(fams)
                fresh = self.CollectorRegistry(auto_describe=False)
                fresh.register(Fixed())
                self.cache[key] = self.enc[fmt](fresh)
        return self.cache[key]

    # each driver returns dict(status=str, headers=[(n, v)], body=bytes, collects=int) or dict(error=class name)
    def run_wsgi(self, case, disable):
        env = {'REQUEST_METHOD': case['method'], 'QUERY_STRING': case['q'], 'SERVER_NAME': 'x', 'SERVER_PORT': '80',
               'wsgi.url_scheme': 'http'}
        if case['path'] is not None:
            env['PATH_INFO'] = unquote(case['path'], 'iso-8859-1')     # as wsgiref does
        if case['acc'] is not None:
            env['HTTP_ACCEPT'] = ','.join(case['acc'])
        if case['ae'] is not None:
            env['HTTP_ACCEPT_ENCODING'] = ','.join(case['ae'])
        for n, v in case['others']:
            env['HTTP_' + n.upper().replace('-', '_')] = v
        got = {}

        def start_response(status, headers, exc_info=None):
            got['status'], got['headers'] = status, list(headers)
        self.collects = 0
        try:
            body = b''.join(self.wsgi[disable](env, start_response))
        except Exception as e:
            return {'error': err_class(e)}
        return {'status': got.get('status'), 'headers': got.get('headers'), 'body': body, 'collects': self.collects}

    def fields(self, case):
        return (list(case['others']) + [(case['an'], v) for v in (case['acc'] or [])]
                + [(case['aen'], v) for v in (case['ae'] or [])])

    def run_asgi(self, case, disable):
        scope = {'type': 'http', 'method': case['method'], 'path': case['path'] or '', 'query_string': case['q'].encode('latin-1'),
                 'headers': [(n.encode('latin-1'), v.encode('latin-1')) for n, v in self.fields(case)]}
        sent = []

        async def receive():
            return {'type': 'http.request', 'body': b'', 'more_body': False}

        async def send(m):
            sent.append(m)
        self.collects = 0
        coro = self.asgi[disable](scope, receive, send)
        try:
            for _ in range(100):
                coro.send(None)
            coro.close()
            return {'error': 'did-not-finish'}
        except StopIteration:
            pass
        except Exception as e:
            return {'error': err_class(e)}
        if len(sent) != 2 or sent[0].get('type') != 'http.response.start' or sent[1].get('type') != 'http.response.body':
            return {'error': 'message-shape'}
        st = sent[0]['status']
        return {'status': '%d' % st, 'headers': [(n.decode('utf-8'), v.decode('utf-8')) for n, v in sent[0]['headers']],
                'body': sent[1]['body'], 'collects': self.collects}

    def wire_ok(self, case):
        """can this request be written as raw latin-1 bytes that http.server parses back to the same text?"""
        t = (case['path'] or '') + '?' + case['q']
        if not t.startswith('/') or any(not (33 <= ord(c) < 127) for c in t):
            return False
        for n, v in self.fields(case):
            if any(ord(c) > 255 or c in '\r\n' for c in v):
                return False
            if any(not (33 <= ord(c) < 127) or c == ':' for c in n) or not n:
                return False
        return True

    def run_handler(self, case):
        cls = self.hcls
        h = object.__new__(cls)
        h.wfile = io.BytesIO()
        h.client_address = ('127.0.0.1', 0)
        h.server = None
        h.close_connection = True
        target = (case['path'] or '') + '?' + case['q']
        self.collects = 0
        route = 'wire' if self.wire_ok(case) else 'direct'
        try:
            if route == 'wire':
                raw = ('%s %s HTTP/1.1\r\n' % (case['method'], target)).encode('latin-1')
                for n, v in self.fields(case):
                    raw += ('%s: %s\r\n' % (n, v)).encode('latin-1')
                h.rfile = io.BytesIO(raw + b'\r\n')
                h.handle_one_request()
            else:
                if case['method'] != 'GET':
                    return {'error': 'not-driven', 'route': route}
                msg = http.client.HTTPMessage()
                for n, v in self.fields(case):
                    msg[n] = v
                h.rfile = io.BytesIO(b'')
                h.headers, h.path, h.command, h.request_version = msg, target, 'GET', 'HTTP/1.1'
                h.requestline = 'GET %s HTTP/1.1' % target
                h.do_GET()
        except Exception as e:
            return {'error': type(e).__name__, 'route': route}
        code, hs, body = parse_http_response(h.wfile.getvalue())
        return {'status': code, 'headers': hs, 'body': body, 'collects': self.collects, 'route': route}


def parse_http_response(out):
    head, sep, body = out.partition(b'\r\n\r\n')
    lines = head.decode('latin-1').split('\r\n')
    st = lines[0].split(' ', 2)
    code = st[1] if len(st) > 1 else ''
    hs = []
    for l in lines[1:]:
        n, _, v = l.partition(': ')
        if n not in ('Server', 'Date', 'Connection', 'Content-Length') or code != '200':
            hs.append((n, v))
    return code, hs, body


def loopback_handler_check(ctx, world, cases, limit):
    """thorough tier: the same raw requests through a real http.server on a loopback socket (port 0) must give what the
    in-process handler gave"""
    import socket
    import threading
    from http.server import HTTPServer
    srv = HTTPServer(('127.0.0.1', 0), world.hcls)
    t = threading.Thread(target=srv.serve_forever, kwargs={'poll_interval': 0.05}, daemon=True)
    t.start()
    try:
        done = 0
        for case in cases:
            if done >= limit:
                break
            if case['method'] != 'GET' or case['path'] is None or not world.wire_ok(case):
                continue
            done += 1
            inproc = world.run_handler(case)
            raw = ('GET %s HTTP/1.0\r\n' % (case['path'] + '?' + case['q'])).encode('latin-1')
            for n, v in world.fields(case):
                raw += ('%s: %s\r\n' % (n, v)).encode('latin-1')
            with socket.create_connection(srv.server_address, timeout=10) as sk:
                sk.sendall(raw + b'\r\n')
                chunks = []
                while True:
                    b = sk.recv(65536)
                    if not b:
                        break
                    chunks.append(b)
            code, hs, body = parse_http_response(b''.join(chunks))
            ctx.count('handler over loopback socket')
            if 'error' in inproc or (code, hs, body) != (inproc['status'], inproc['headers'], inproc['body']):
                ctx.diverge('MetricsHandler over a loopback socket answers %s %r, in-process %r' % (
                    code, hs, inproc.get('error', (inproc.get('status'), inproc.get('headers')))), case)
    finally:
        srv.shutdown()
        srv.server_close()


# ------------------------------------------------------------------------------------------------ generators
TOKENS_ACCEPT = [OM, OM, OM, OM + '-foo', 'x' + OM, OM[:-1], OM.upper(), 'Application/OpenMetrics-Text', 'text/plain', '*/*',
                 'application/*', 'text/html', '', 'application/ openmetrics-text', OM + '/', 'application/openmetrics-text+x',
                 '\u212a' + OM, OM + '\u0130']
TOKENS_CODING = ['gzip', 'gzip', 'GZip', 'GZIP', 'gZIP', 'x-gzip', 'gzipx', 'xgzip', 'gzi', 'g zip', 'deflate', 'br', 'identity',
                 '*', '', 'gz\u0130p', '\u212azip', 'gzip\u212a', 'gz\u0131p', 'G\u017dIP', 'gzip-x', 'GZ\u0130P']
WS_POOL = ['', '', '', ' ', ' ', '\t', '  ', ' \t ', '\x0b', '\x0c', '\xa0', '\xa0', '\x85', '\xc2\xa0', '\xff', '\u2003', '\u3000', '\x1c', '\x85', '\u2009',
           '\r\n ', '\n', '\u1680\u205f']
PARAMS = ['q=0.5', ' q=0.8', 'q=0', 'q=1.0', 'version=1.0.0', ' version=1.0.0', 'charset=utf-8 ', ' version=0.0.4', '',
          ' ', 'escaping=allow-utf-8', 'x="a b"', OM, 'gzip']


# media-type / coding PARAMETERS as a generated dimension: name x value x spelling.  The values are the ones seen on the wire
# (Prometheus 2.x asks for OpenMetrics `version=0.0.1`, 2.5+/3.x for `version=1.0.0`, the text format is `version=0.0.4`;
# 3.x adds `escaping=`; the protobuf entry carries `proto=`/`encoding=`; browsers send `v=b3`), plus unknown/garbage values.
P_VERSION = ['0.0.1', '0.0.1', '0.0.1', '1.0.0', '1.0.0', '0.0.4', '0.0.4', '2.0.0', 'garbage', '', '1.0', '0.0.10', '0.0.1-draft', '1.0.0.0']
P_CHARSET = ['utf-8', 'utf-8', 'UTF-8', 'utf8', 'iso-8859-1', 'us-ascii']
P_Q = ['1', '1.0', '0.9', '0.8', '0.75', '0.6', '0.5', '0.1', '0', '0.000', '1.000', '.5', '2', 'x', '']
P_OTHER = [('escaping', ['allow-utf-8', 'underscores', 'dots', 'values']), ('proto', ['io.prometheus.client.MetricFamily']),
           ('encoding', ['delimited', 'text', 'compact-text']), ('v', ['b3']), ('level', ['1']),
           ('x', ['a b', 'a,b', 'a;b', 'a=b', OM, 'version=0.0.1', 'gzip'])]
P_NAMES = ['version'] * 8 + ['q'] * 5 + ['charset'] * 3 + ['other'] * 4
P_NAMES_CODING = ['q'] * 8 + ['version', 'charset', 'other', 'other']


def render_param(rng, name, value):
    """one `name=value` parameter: upper/lower/mixed-case name, token or quoted-string value, optional whitespace around the
    parameter and (rarely, outside the RFC grammar) around `=`"""
    r = rng.random()
    if r >= 0.8:
        name = rng.choice([name.upper(), name.capitalize(), name[:1] + name[1:].upper()])
    special = any(c in value for c in ' ,;')
    if rng.random() < (0.8 if special else 0.12):
        value = '"' + value + '"'
    eq = '=' if rng.random() < 0.9 else rng.choice([' = ', '= ', ' =', ''])
    pre = rng.choice(['', '', '', ' ', ' ', ' ', '\t', '  ', '\xa0', '\u2003'])
    post = rng.choice(['', '', '', '', ' ', '\t', '\xa0'])
    return pre + name + eq + value + post


def gen_params(rng, names=P_NAMES):
    """0..4 parameters in any order (so `q=` and `version=` occur in every position), sometimes a repeated parameter name with
    another value"""
    out, used = [], []
    for _ in range(rng.choice([0, 1, 1, 1, 2, 2, 2, 3, 4])):
        kind = rng.choice(names)
        if used and rng.random() < 0.2:
            kind = rng.choice(used)                     # repeated parameter
        used.append(kind)
        if kind == 'version':
            out.append(render_param(rng, 'version', rng.choice(P_VERSION)))
        elif kind == 'q':
            out.append(render_param(rng, 'q', rng.choice(P_Q)))
        elif kind == 'charset':
            out.append(render_param(rng, 'charset', rng.choice(P_CHARSET)))
        else:
            n, vs = rng.choice(P_OTHER)
            out.append(render_param(rng, n, rng.choice(vs)))
    return out


# Accept / Accept-Encoding values real clients send
REAL_ACCEPT = [
    # Prometheus 2.x server (up to 2.4x): OpenMetrics draft version first
    OM + '; version=0.0.1,text/plain;version=0.0.4;q=0.5,*/*;q=0.1',
    # Prometheus 2.2x-2.4x
    OM + ';version=1.0.0,' + OM + ';version=0.0.1;q=0.75,text/plain;version=0.0.4;q=0.5,*/*;q=0.1',
    # Prometheus 2.49+ (native histograms on / off)
    'application/vnd.google.protobuf;proto=io.prometheus.client.MetricFamily;encoding=delimited,' + OM
    + ';version=1.0.0;q=0.8,' + OM + ';version=0.0.1;q=0.75,text/plain;version=0.0.4;q=0.5,*/*;q=0.1',
    OM + ';version=1.0.0;q=0.5,' + OM + ';version=0.0.1;q=0.4,text/plain;version=0.0.4;q=0.3,*/*;q=0.2',
    # Prometheus 3.x
    OM + ';version=1.0.0;escaping=allow-utf-8;q=0.6,' + OM + ';version=0.0.1;q=0.5,text/plain;version=1.0.0;escaping=allow-utf-8;q=0.4,'
    'text/plain;version=0.0.4;q=0.3,*/*;q=0.2',
    'application/vnd.google.protobuf;proto=io.prometheus.client.MetricFamily;encoding=delimited;escaping=allow-utf-8;q=0.6,' + OM
    + ';version=1.0.0;escaping=allow-utf-8;q=0.5,' + OM + ';version=0.0.1;q=0.4,text/plain;version=1.0.0;escaping=allow-utf-8;q=0.3,'
    'text/plain;version=0.0.4;q=0.2,*/*;q=0.1',
    # Prometheus 3.x with a text-only scrape protocol list
    'text/plain;version=1.0.0;escaping=allow-utf-8;q=0.5,text/plain;version=0.0.4;q=0.4,*/*;q=0.3',
    # Prometheus 1.x / Telegraf
    'application/vnd.google.protobuf;proto=io.prometheus.client.MetricFamily;encoding=delimited;q=0.7,text/plain;version=0.0.4;q=0.3,*/*;q=0.1',
    'application/vnd.google.protobuf;proto=io.prometheus.client.MetricFamily;encoding=delimited;q=0.7,text/plain;version=0.0.4;q=0.3',
    # a scraper pinned to one format
    OM + '; version=0.0.1', OM + ';version=0.0.1;q=0.75', OM + '; version=1.0.0; charset=utf-8', 'text/plain; version=0.0.4; charset=utf-8',
    'text/plain;version=0.0.4', 'text/plain',
    # curl / wget / python-requests / Go net/http with an explicit header
    '*/*',
    # browsers (Chrome, Firefox, Safari) and an XHR/fetch default
    'text/html,application/xhtml+xml,application/xml;q=0.9,image/avif,image/webp,image/apng,*/*;q=0.8,application/signed-exchange;v=b3;q=0.7',
    'text/html,application/xhtml+xml,application/xml;q=0.9,*/*;q=0.8',
    'text/html,application/xhtml+xml,application/xml;q=0.9,image/avif,image/webp,image/png,image/svg+xml,*/*;q=0.8',
    'application/json, text/plain, */*',
]
REAL_AE = ['gzip', 'gzip, deflate', 'gzip, deflate, br', 'gzip, deflate, br, zstd', 'gzip;q=1.0, identity; q=0.5, *;q=0', 'identity',
           'deflate, gzip;q=1.0, *;q=0.5', 'br;q=1.0, gzip;q=0.8, *;q=0.1', 'gzip,deflate', '*', 'identity;q=1, *;q=0', 'zstd, br']


def respace(rng, h):
    """the same list with other optional whitespace around `;` and `,` and, sometimes, upper-case parameter names"""
    semi, comma = rng.choice([';', '; ', ' ;', ' ; ', ';\t']), rng.choice([',', ', ', ' ,', ' , '])
    h = h.replace('; ', ';').replace(', ', ',')
    if rng.random() < 0.2:
        h = h.replace('version=', 'VERSION=').replace('q=', 'Q=')
    return h.replace(';', semi).replace(',', comma)


def gen_real(rng, pool):
    h = rng.choice(pool)
    return respace(rng, h) if rng.random() < 0.5 else h


def param_grid():
    """finite grid, enumerated: every media type of interest x one parameter (version / charset / q value) x its spellings x the
    position of the entry in the list; plus two-parameter orders and repeated parameters"""
    one = []
    for v in ['0.0.1', '1.0.0', '0.0.4', '2.0.0', 'garbage']:
        one += [';version=' + v, '; version=' + v, ' ;version=' + v, ' ; version=' + v + ' ', ';version="' + v + '"', ';VERSION=' + v,
                ';Version=' + v, ';version=' + v + ';charset=utf-8', ';charset=utf-8;version=' + v, '; charset=utf-8; version=' + v,
                ';version=' + v + ';q=0.5', ';q=0.5;version=' + v, '; q=0.5; version=' + v + '; charset=utf-8', ';version=1.0.0;version=' + v,
                ';version=' + v + ';version=1.0.0', ';version=' + v + ';escaping=allow-utf-8;q=0.6', ';version = ' + v, ';version=' + v + ';']
    for cs in ['utf-8', 'UTF-8', 'iso-8859-1']:
        one += [';charset=' + cs, '; charset=' + cs, ';CHARSET="' + cs + '"', ';charset=' + cs + ';charset=utf-8']
    for q in ['1', '0.5', '0', '0.000', 'x']:
        one += [';q=' + q, '; q=' + q, ';Q=' + q, ' ;q=' + q + ' ', ';q=' + q + ';q=1']
    out = []
    for media in [OM, 'text/plain', '*/*', OM + '-foo', 'application/vnd.google.protobuf', OM.upper()]:
        for ps in one:
            e = media + ps
            out += [e, 'text/plain;version=0.0.4;q=0.5,' + e, e + ',*/*;q=0.1', 'text/html, ' + e + ' ,*/*;q=0.1']
    return out


def to_wire(t, rng=None):
    """Unicode text -> the bytes put on the wire (UTF-8, or latin-1 when possible and chosen), written as latin-1 text"""
    if all(ord(c) < 256 for c in t) and (rng is None or rng.random() < 0.6):
        return t
    return t.encode('utf-8').decode('latin-1')


def wire_case(c, rng=None):
    for k in ('acc', 'ae'):
        if c[k] is not None:
            c[k] = [to_wire(v, rng) for v in c[k]]
    c['others'] = [[to_wire(n, rng), to_wire(v, rng)] for n, v in c['others']]
    return c


def gen_header(rng, tokens, simple=False):
    n = rng.choice([0, 1, 1, 2, 2, 3, 4, 6])
    items = []
    for _ in range(n):
        tok = rng.choice(tokens)
        pre, post = (rng.choice(WS_POOL[:8]), rng.choice(WS_POOL[:8])) if simple else (rng.choice(WS_POOL), rng.choice(WS_POOL))
        if rng.random() < 0.35:
            ps = ''.join(';' + rng.choice(PARAMS) for _ in range(rng.choice([0, 0, 1, 1, 2, 3])))
        else:
            ps = ''.join(';' + p for p in gen_params(rng, P_NAMES if tokens is TOKENS_ACCEPT else P_NAMES_CODING))
        items.append(pre + tok + post + ps)
    return ','.join(items)


def gen_malformed(rng, lit):
    parts = [',', ',', ';', ' ', '\t', lit, lit, lit[:4], lit[4:], ';q=1', '=', '"', '\xa0', 'x']
    return ''.join(rng.choice(parts) for _ in range(rng.randrange(0, 9)))


NAME_KEYS = ['name[]', 'name[]', 'name%5B%5D', 'name%5b%5d', 'name[%5D', 'n%61me[]']
OTHER_KEYS = ['foo', 'name', 'name[]x', 'xname[]', 'names[]', 'name%5B', 'NAME[]', 'name[][]', 'match[]']
NAME_VALUES = ['target_info', 'target_info', 'target_info', 'target', 'dur%C3%A9e_count', 'dur%C3%A9e_sum', 'dur%C3%A9e', 'dur%c3%a9e_count', 'dur\xc3\xa9e_count', 'dur\xe9e_count', 'dur%E9e_count',
               'a,b', 'a%2Cb', 'up,reqs_total', 'up%2Creqs_total', 'up,', ',up', 'a,b,up', 'a', 'reqs', 'reqs', 'lat_seconds', 'rt', 'build', 'rt_count', 'rt_sum', 'rt_created', 'lat_seconds_count', 'reqs', 'reqs_total', 'reqs_created', 'temp_celsius', 'lat_seconds', 'lat_seconds_bucket', 'lat_seconds_sum', 'up',
               'build_info', 'build', 'nonexistent', '', '', 'temp%5Fcelsius', 'u%70', 'a+b', '%C3%A9', 'up&', 'reqs%26up', 'up=1']


def gen_query(rng):
    k = rng.choice([0, 0, 1, 1, 2, 3, 5])
    pieces = []
    for _ in range(k):
        r = rng.random()
        if r < 0.6:
            v = rng.choice(NAME_VALUES)
            if v == 'up&':
                pieces.append(rng.choice(NAME_KEYS) + '=up')
                pieces.append('')
            else:
                pieces.append(rng.choice(NAME_KEYS) + '=' + v)
        elif r < 0.9:
            pieces.append(rng.choice(OTHER_KEYS) + '=' + rng.choice(['1', 'up', '', 'reqs', '1', 'up', '%C3%A9', '%ff', 'a%20b']))
        else:
            pieces.append(rng.choice(['name[]', 'name%5B%5D', '=up', '&', 'name[]==', 'name[]=up=1', '=', '==', 'name[]=up;name[]=reqs',
                                      'name[]=up?x', '?name[]=up', 'a=?', ';', 'name[]=up%23x', '%23']))
    q = '&'.join(pieces)
    x = rng.random()
    if x < 0.06:      # a raw '#': outside RFC 3986, the documented limit of the agreement theorem
        i = rng.randrange(0, len(q) + 1)
        q = q[:i] + '#' + q[i:]
    elif x < 0.09:
        q = q + rng.choice(['#', '#frag', '#name[]=up', '&name[]=up#x'])
    return q


OTHER_HEADERS = [('X-Bytes', 'caf\xe9 \xff'), ('X-\xe9', 'v'), ('Host', 'localhost:8000'), ('User-Agent', 'pv/1'), ('X-Accept', OM), ('Accept-Language', 'gzip'),
                 ('Accept-Charset', OM), ('Accept-Encodings', 'gzip'), ('Acceptx', OM), ('X-Accept-Encoding', 'gzip'),
                 ('Content-Type', OM), ('Content-Encoding', 'gzip')]


def corpus():
    """known witnesses and the measured mutations' distinguishing requests"""
    base = dict(method='GET', path='/metrics', acc=None, ae=None, an='Accept', aen='Accept-Encoding', others=[], q='')
    def c(**kw):
        d = dict(base); d.update(kw); return d
    out = [c(), c(q='name[]=up'), c(q='name%5B%5D=up&name[]=reqs_total'), c(q='name[]='), c(q='foo=1'), c(q='lang=%C3%A9'), c(q='x=%ff&name[]=up'),
           c(acc=[OM]), c(acc=[OM + '; version=1.0.0; charset=utf-8']), c(acc=[OM + ';version=1.0.0']), c(acc=[OM + '-foo']),
           c(acc=['x' + OM]), c(acc=['text/plain;q=0.5, ' + OM + ' ;q=0.9']), c(acc=['\xa0' + OM + '\u2003']), c(acc=[',,']),
           c(acc=['']), c(acc=[OM.upper()]), c(acc=[OM], q='name[]=up'),
           c(ae=['gzip']), c(ae=['GZip']), c(ae=['x-gzip']), c(ae=['gzipx']), c(ae=['deflate, gzip;q=0.5']), c(ae=['\u212azip']),
           c(ae=['gz\u0130p']), c(ae=['identity;q=1, *;q=0']), c(ae=[' \tGZIP\x0b']), c(ae=['']), c(ae=[',,gzip,,']),
           c(acc=[OM], ae=['gzip'], q='name[]=temp_celsius&name[]=lat_seconds_bucket'),
           c(an='ACCEPT', aen='accept-ENCODING', acc=[OM], ae=['gzip']),
           c(others=[['X-Accept', OM], ['Accept-Encodings', 'gzip']]),
           c(acc=['text/plain', OM]), c(acc=[OM, 'text/plain']), c(ae=['br', 'gzip']),
           c(path='/favicon.ico'), c(path='/'), c(path=''), c(path='/metrics/x'), c(path='/favicon%2Eico'), c(path='/metrics#f'),
           c(acc=[OM + '\xa0']), c(acc=['\xc2\xa0' + OM]), c(acc=[OM + '\xff']), c(acc=['\xff, ' + OM + '\x85;q=1']),
           c(ae=['gzip\x85']), c(ae=['\xa0GZIP\xa0']), c(ae=['gzip\xff']), c(others=[['X-Bytes', '\xe9\xff'], ['X-\xe9', 'v']], acc=[OM]),
           c(q='name[]=up#x'), c(q='name[]=up#'), c(q='#name[]=up'), c(q='name[]=up%23x'), c(q='name[]=up?x=1'), c(q='name[]=up;name[]=reqs'),
           c(q='name[]=reqs'), c(q='name[]=lat_seconds'), c(q='name[]=rt'), c(q='name[]=build'), c(q='name[]=reqs&name[]=reqs_total'),
           c(q='name[]=rt&name[]=rt_sum&name[]=up', acc=[OM]), c(q='name[]=lat_seconds&name[]=lat_seconds_bucket&name[]=build_info', ae=['gzip']),
           c(q='name[]=up,reqs_total'), c(q='name[]=up%2Creqs_total'), c(q='name[]=a,b'), c(q='name%5B%5D=a%2Cb', acc=[OM], ae=['gzip']),
           c(q='name[]=a,b&name[]=up'), c(q='name[]=up,'), c(q='name[]=,'), c(q='name[]=a&name[]=b'),
           c(q='name[]=dur%C3%A9e_count'), c(q='name%5B%5D=dur%C3%A9e_sum&name[]=up', acc=[OM], ae=['gzip']), c(q='name[]=dur%C3%A9e'),
           c(q='name[]=dur\xc3\xa9e_count'), c(q='name[]=dur\xe9e_count'), c(q='name[]=dur%E9e_count'),
           c(q='&&name[]=up&&'), c(q='=&==&name[]'), c(acc=[OM], q='a=1#name[]=up'),
           # target_info: alone, mixed, as the family name `target` (not a sample name), three scrapes in a row
           c(q='name[]=target_info', repeat=3), c(q='name[]=target_info&name[]=up', repeat=3), c(q='name[]=target'),
           c(q='name%5B%5D=target_info&name[]=reqs_total', acc=[OM], ae=['gzip'], repeat=3), c(q='name[]=up&name[]=target_info'),
           # interleaved selections against the same objects: A B A B B A, one scrape each
           c(q='name[]=target_info&name[]=rt_sum', repeat=1), c(q='name[]=up', repeat=1), c(q='name[]=target_info&name[]=rt_sum', repeat=1),
           c(q='name[]=up', repeat=1), c(q='name[]=up', repeat=1), c(q='name[]=target_info&name[]=rt_sum', repeat=1), c(repeat=3)]
    # what real clients send (Prometheus 1.x/2.x/3.x, Telegraf, curl, browsers), alone, with gzip, with a restriction
    for i, h in enumerate(REAL_ACCEPT):
        out.append(c(acc=[h], repeat=1))
        out.append(c(acc=[h], ae=[REAL_AE[i % len(REAL_AE)]], q=['', 'name[]=up', 'name[]=reqs_total&name[]=target_info'][i % 3], repeat=1))
    for h in REAL_AE:
        out.append(c(ae=[h], repeat=1))
    # the parameter grid on the media type that selects OpenMetrics and on its near-miss (the whole grid goes through
    # choose_encoder in run_functions)
    for h in param_grid():
        if h.startswith(OM) and ',' not in h:
            out.append(c(acc=[h], repeat=1))
    out = [wire_case(x) for x in out]
    for m in METHODS:
        out.append(c(method=m, acc=[OM], ae=['gzip'], q='name[]=up'))
        out.append(c(method=m))
    return out


def gen_case(rng):
    r = rng.random()
    method = 'GET' if r < 0.8 else rng.choice(METHODS)
    def hdr(tokens, lit):
        x = rng.random()
        if x < 0.12: return None
        if x < 0.22: return [gen_malformed(rng, lit)]
        if x < 0.28: return [gen_header(rng, tokens), gen_header(rng, tokens)]      # repeated field line
        if x < 0.40: return [gen_real(rng, REAL_ACCEPT if tokens is TOKENS_ACCEPT else REAL_AE)]      # what real clients send
        return [gen_header(rng, tokens, simple=rng.random() < 0.5)]
    others = [list(h) for h in rng.sample(OTHER_HEADERS, rng.choice([0, 0, 1, 2, 3]))]
    return wire_case(dict(method=method, path=rng.choice(['/metrics', '/metrics', '/metrics', '/metrics', '/', '/x/y', '/favicon.ico', '/favicon.icon',
                                                           '/favicon%2Eico', '/metrics;p=1', '/metrics#f']),
                acc=hdr(TOKENS_ACCEPT, OM), ae=hdr(TOKENS_CODING, 'gzip'),
                an=rng.choice(['Accept', 'Accept', 'accept', 'ACCEPT', 'aCCept']),
                aen=rng.choice(['Accept-Encoding', 'accept-encoding', 'ACCEPT-ENCODING', 'Accept-encoding']),
                others=others, q=gen_query(rng), repeat=rng.choice([1, 2, 2, 2, 3])), rng)


# ------------------------------------------------------------------------------------------------ evaluation
def blocks(body):
    """an exposition as the multiset of its family blocks (a block starts at a `# HELP` line; `# EOF` is its own block):
    the order of families in a RESTRICTED exposition is the iteration order of a Python set, which nothing pins"""
    out, cur = [], []
    for line in body.splitlines(keepends=True):
        if line.startswith(b'# HELP ') or line.startswith(b'# EOF'):
            if cur: out.append(b''.join(cur))
            cur = []
        cur.append(line)
    if cur: out.append(b''.join(cur))
    return tuple(sorted(out))


def same_expo(body, exp, restricted):
    """exact for the unrestricted exposition, up to the order of family blocks for a restricted one"""
    return body == exp if not restricted else blocks(body) == blocks(exp)


FMT_NAME = {'text': 'text 0.0.4', 'om': 'OpenMetrics 1.0.0'}


def body_format(body):
    """which of the two formats a (decoded) body is written in, read off the body alone: an OpenMetrics exposition ends in the
    `# EOF` line, a text-format exposition never has one"""
    return 'om' if body.endswith(b'# EOF\n') else 'text'


def hval(r, name):
    vs = [v for n, v in (r.get('headers') or []) if n == name]
    return vs


def decoded_body(r):
    """(body decoded as its own headers say, problem or None)"""
    ce = hval(r, 'Content-Encoding')
    if ce:
        try:
            return gzip.decompress(r['body']), None
        except Exception as e:
            return None, 'Content-Encoding: %s but the body does not gunzip (%s)' % (ce, type(e).__name__)
    return r['body'], None


def oracle_get(world, fe, r, acc, ae, names, compression, case):
    """property oracle for one front-end's answer to a GET; returns list of (sig, what)"""
    if 'error' in r:
        if fe == 'asgi' and r['error'] == 'UnicodeError' and non_ascii_query(case['q']):
            return [(SIG_F12B, 'ASGI app raises on a non-ASCII query string')]
        if fe == 'asgi' and r['error'] == 'UnicodeError' and has_high_bytes(case):
            return [(SIG_HDRBYTES, 'ASGI app raises on header bytes >= 0x80')]
        return [('C17:raises', '%s raised %s' % (fe, r['error']))]
    fails = []
    fmt = want_format(acc)
    gz = compression and want_gzip(ae)
    restr = names if names else None
    if not str(r['status']).startswith('200'):
        fails.append(('C17:status', '%s answered %r to a GET' % (fe, r['status'])))
    ct = hval(r, 'Content-Type')
    body, prob = decoded_body(r)
    if ct != [CT[fmt]]:
        # "Content-Type matching the body format": the header must be EXACTLY one of the two content types the library documents
        # for its two encoders (own literals above), the one of the format the rule selects - and of the body actually served
        why = ''
        if len(ct) != 1 or ct[0] not in CT.values():
            why = '; it is not one of the two content types of the library\'s formats (%r, %r)' % (CT['text'], CT['om'])
        if body is not None:
            served = body_format(body)
            why += '; the body served is the %s exposition (%s), whose content type is %r' % (
                FMT_NAME[served], "ends in '# EOF'" if served == 'om' else "no '# EOF' terminator", CT[served])
        fails.append(('C17:content-type', '%s Content-Type %r, expected %r (Accept %r)%s' % (fe, ct, CT[fmt], acc, why)))
    ce = hval(r, 'Content-Encoding')
    if gz and ce != ['gzip']:
        fails.append(('C17:encoding-header', '%s: gzip expected (Accept-Encoding %r, compression enabled) but Content-Encoding is %r'
                      % (fe, ae, ce)))
    if not gz and ce:
        fails.append(('C17:encoding-header', '%s: Content-Encoding %r although %s (Accept-Encoding %r)'
                      % (fe, ce, 'gzip is not listed' if compression else 'compression is disabled', ae)))
    exp = world.expo(fmt, restr)
    if prob:
        fails.append(('C17:body', '%s: %s' % (fe, prob)))
    elif not same_expo(body, exp, restr is not None):
        if fe == 'asgi' and restr is not None and body == world.expo(fmt, None):
            fails.append((SIG_F12, 'ASGI app ignores name[]: query %r must restrict to %r but the unrestricted exposition was served'
                          % ('?', names)))
        elif not ce and r['body'][:2] == b'\x1f\x8b':
            fails.append(('C17:body', '%s: body is gzip-compressed without a Content-Encoding header' % fe))
        else:
            other = 'om' if fmt == 'text' else 'text'
            hint = ' (it is the %s exposition)' % other if same_expo(body, world.expo(other, restr), restr is not None) else (
                ' (it is the unrestricted exposition)' if restr is not None and body == world.expo(fmt, None) else '')
            if not hint and restr is not None:
                got, want = set(blocks(body)), set(blocks(exp))
                def series(bs):
                    return sorted((l.split(b'}')[0] + b'}' if l.startswith(b'{') else l.split(b' ')[0].split(b'{')[0]).decode('utf-8', 'replace')
                                  for b in bs for l in b.splitlines() if l and not l.startswith(b'#'))
                extra, miss = series(got - want), series(want - got)
                hint = ' (family blocks with series %s are not the expected ones%s)' % (
                    sorted(set(extra))[:8], '; expected blocks with series %s' % sorted(set(miss))[:8] if miss else '')
            fails.append(('C17:body', '%s: body is not the %s exposition of the registry restricted to the sample names %r%s'
                          % (fe, fmt, restr, hint)))
    if r['collects'] < 1:
        fails.append(('C17:body', '%s: 200 served without collecting' % fe))
    return fails


def oracle_wsgi_other(r, method):
    if 'error' in r:
        return [('C17:raises', 'wsgi raised %s for method %r' % (r['error'], method))]
    fails = []
    if method == 'OPTIONS':
        if r['status'] != '200 OK' or ALLOW not in r['headers'] or r['body'] != b'':
            fails.append(('C17:wsgi-options', 'OPTIONS answered %r %r body %r; expected 200 OK with Allow: OPTIONS,GET and an empty body'
                          % (r['status'], r['headers'], r['body'][:40])))
    else:
        if not str(r['status']).startswith('405') or ALLOW not in r['headers']:
            fails.append(('C17:wsgi-405', 'method %r answered %r %r; expected 405 with Allow: OPTIONS,GET'
                          % (method, r['status'], r['headers'])))
    if r['collects'] != 0:
        fails.append(('C17:wsgi-405' if method != 'OPTIONS' else 'C17:wsgi-options',
                      'method %r made the registry collect %d time(s)' % (method, r['collects'])))
    return fails


PARSE_ARGS = None     # (encoding, errors) asgi.py passes to parse_qs when not the defaults; asked from the driver (`c17 info`)


def fetch_parse_args(ctx):
    global PARSE_ARGS
    PARSE_ARGS = None
    rep = ctx.driver.run(['c17 info'])
    if rep is None or not rep[0].startswith('ok '):
        return
    enc, err, dflt = rep[0][3:].split(' ')
    if dflt != '1':
        PARSE_ARGS = (lib.unhx(enc) or 'utf-8', lib.unhx(err) or 'replace')
        ctx.notes.append('asgi.py calls parse_qs with encoding=%r errors=%r' % PARSE_ARGS)


def xl(t):
    """a byte string written as latin-1 text -> x:<hex>"""
    return lib.xb(t.encode('latin-1'))


def enc_acc(v):
    return '-' if v is None else lib.enc_list([xl(x) for x in v])


def enc_dict(d):
    return '&'.join('%s>%s' % (lib.hx(k), ','.join(lib.hx(v) for v in vs)) for k, vs in d.items()) or '.'


def driver_line(case, disable):
    target = (case['path'] or '') + '?' + case['q']
    table = {case['q']: parse_qs(case['q'])}
    hq = urlparse(target).query
    table.setdefault(hq, parse_qs(hq))
    pt = lib.enc_list(['%s=%s' % (lib.hx(q), enc_dict(d)) for q, d in table.items()])
    pa = '.'
    if PARSE_ARGS is not None:       # asgi.py passes its own encoding= / errors= to parse_qs: the model needs that function too
        pa = lib.enc_list(['%s=%s' % (lib.hx(q), enc_dict(parse_qs(q, encoding=PARSE_ARGS[0], errors=PARSE_ARGS[1])))
                           for q in table])
    try:
        pbytes = parse_qs(case['q'].encode('latin-1'))
        pb = lib.enc_list(['%s>%s' % (lib.xb(k), ','.join(lib.xb(v) for v in vs)) for k, vs in pbytes.items()])
    except UnicodeError:
        pb = '!'        # parse_qs(<bytes>) raises on non-ASCII escapes / bytes (a fact about the standard library)
    oth = lib.enc_list(['%s>%s' % (xl(n), xl(v)) for n, v in case['others']])
    return 'c17 req %s %s %s %s %s %s %s %s %s %s %s %s %d' % (
        lib.hx(case['method']), '-' if case['path'] is None else lib.hx(unquote(case['path'], 'iso-8859-1')), lib.hx(target),
        xl(case['q']), enc_acc(case['acc']), enc_acc(case['ae']), xl(case['an']), xl(case['aen']), oth, pt, pa, pb, 1 if disable else 0)


def parse_obs(txt):
    """model observation -> dict(status, headers, body=(kind, fmt, restr, gz), collected) or dict(error)"""
    if txt.startswith('err:'):
        return {'error': txt[4:]}
    st, hs, body, col = txt.split('|')
    headers = [] if hs == '.' else [tuple(lib.unhx(x) for x in h.split('>')) for h in hs.split(',')]
    if body in ('empty', 'err'):
        b = (body, None, None, 0)
    else:
        f, rest = body.split(':', 1)
        rs, n = rest.rsplit(':', 1)
        if rs == '-':
            restr = None
        else:
            restr = []
            for x in (rs[1:].split(',') if rs[1:] else []):
                restr.append(bytes.fromhex(x[2:]).decode('utf-8') if x.startswith('s:') else bytes.fromhex(x[2:]))
        b = ('expo', f, restr, int(n))
    return {'status': lib.unhx(st), 'headers': headers, 'body': b, 'collected': col == '1'}


def compare_model(world, fe, real, model):
    """T2: returns None or a description of the difference"""
    if 'error' in real or 'error' in model:
        if real.get('error') != model.get('error'):
            return '%s: implementation %s, model %s' % (fe, real.get('error', 'answers'), model.get('error', 'answers'))
        return None
    rs, ms = str(real['status']), model['status']
    if fe == 'wsgi':
        if rs != ms: return 'wsgi status %r, model %r' % (rs, ms)
    elif rs != ms.split(' ')[0]:
        return '%s status %r, model %r' % (fe, rs, ms)
    if list(map(tuple, real['headers'])) != model['headers']:
        return '%s headers %r, model %r' % (fe, real['headers'], model['headers'])
    kind, f, restr, n = model['body']
    if kind == 'empty':
        if real['body'] != b'': return '%s body %r, model: empty' % (fe, real['body'][:40])
    elif kind == 'expo':
        exp = world.expo_lib(f, restr)
        body = real['body']
        try:
            for _ in range(n):
                body = gzip.decompress(body)
        except Exception:
            return '%s body does not gunzip %d time(s) as the model says' % (fe, n)
        if body != exp:
            return '%s body differs from the model\'s %s exposition restricted to %r (gzip x%d)' % (fe, f, restr, n)
    if (real['collects'] > 0) != model['collected']:
        return '%s collected %d time(s), model says collected=%s' % (fe, real['collects'], model['collected'])
    return None


def has_high_bytes(case):
    return any(ord(c) > 127 for n, v in World.fields(None, case) for c in n + v)


def eval_case(world, case):
    """issues the request `repeat` times in a row (default 2) against the SAME registry, app and handler objects; every
    response is judged by the same oracle — the answer is a function of the request and of the registry's current content,
    not of earlier scrapes.  Returns (results of the last scrape, all failures, notes of the last scrape)."""
    n = max(1, int(case.get('repeat', 2)))
    out, fails = None, []
    for k in range(n):
        res, fs, notes = eval_once(world, case)
        fails += [(s, w + ('' if k == 0 else ' [scrape %d of %d identical requests in a row]' % (k + 1, n))) for s, w in fs]
        out = (res, notes)
    return out[0], fails, out[1]


def eval_once(world, case):
    res, fails, notes = {}, [], []
    acc_join = None if case['acc'] is None else ','.join(case['acc'])
    ae_join = None if case['ae'] is None else ','.join(case['ae'])
    dup = (case['acc'] is not None and len(case['acc']) > 1) or (case['ae'] is not None and len(case['ae']) > 1)
    names = want_names(case['q'])
    is_get = case['method'] == 'GET'
    for d in (False, True):
        res['wsgi', d] = world.run_wsgi(case, d)
        res['asgi', d] = world.run_asgi(case, d)
    res['handler', False] = world.run_handler(case)
    if is_get and case['path'] is not None:
        target = case['path'] + '?' + case['q']
        favicon = unquote(case['path'], 'iso-8859-1') == '/favicon.ico'
        hquery = urlparse(target).query               # MetricsHandler's query string, by the standard library
        law = hquery == case['q']
        if not law:
            if '#' not in target:
                fails.append(('C17:urlparse-model', 'urlparse(%r).query is %r, not the text after the first ? — without a raw #'
                              % (target, hquery)))
            notes.append('raw-#-in-target')
        for d in (False, True):
            if not favicon:
                fails += [(s, w + (' [disable_compression]' if d else '')) for s, w in
                          oracle_get(world, 'wsgi', res['wsgi', d], acc_join, ae_join, names, not d, case)]
            fails += [(s, w + (' [disable_compression]' if d else '')) for s, w in
                      oracle_get(world, 'asgi', res['asgi', d], acc_join, ae_join, names, not d, case)]
        if not dup:
            # MetricsHandler is judged on the query string urlparse gives it (the same one unless the target has a raw '#')
            fails += oracle_get(world, 'handler', res['handler', False], acc_join, ae_join, want_names(hquery), True, case)
        # agreement on (status code, Content-Type, Content-Encoding, decoded body); ASGI is left out when it already failed
        # with one of its own classes, so that class is reported under its own signature only
        if not favicon:
            f12 = any(s in (SIG_F12, SIG_F12B, SIG_HDRBYTES) for s, _ in fails)
            def view(r):
                if 'error' in r: return ('error', r['error'])
                b = decoded_body(r)[0]
                return (str(r['status'])[:3], hval(r, 'Content-Type'), hval(r, 'Content-Encoding'), None if b is None else blocks(b))
            group = [('wsgi', res['wsgi', False])]
            if not f12: group.append(('asgi', res['asgi', False]))
            if not dup and law: group.append(('handler', res['handler', False]))
            for (n1, r1), (n2, r2) in zip(group, group[1:]):
                if view(r1) != view(r2):
                    fails.append(('C17:frontends-disagree', '%s and %s disagree: %r vs %r' % (
                        n1, n2, tuple(str(x)[:60] for x in view(r1)), tuple(str(x)[:60] for x in view(r2)))))
            if not f12 and view(res['wsgi', True]) != view(res['asgi', True]):
                fails.append(('C17:frontends-disagree', 'wsgi and asgi disagree with compression disabled'))
            if not law and not dup and view(res['handler', False]) != view(res['wsgi', False]):
                notes.append('raw-#-in-target: MetricsHandler differs from WSGI/ASGI')
            if dup and law and view(res['handler', False]) != view(res['wsgi', False]):
                notes.append('dup-headers-handler-differs')
    elif not is_get:
        for d in (False, True):
            fails += oracle_wsgi_other(res['wsgi', d], case['method'])
    return res, fails, notes


def cls_of(case):
    names = want_names(case['q'])
    return '%s fmt=%s gz=%s names=%d' % (case['method'] if case['method'] in ('GET', 'OPTIONS') else 'other',
                                          want_format(None if case['acc'] is None else ','.join(case['acc'])),
                                          int(want_gzip(None if case['ae'] is None else ','.join(case['ae']))), min(len(names), 3))


def fresh_fails(kind, c, sig):
    """does the request sequence of `c` alone (plus its recorded history, if any) fail with `sig` on a FRESH registry/app/handler?"""
    try:
        w = World(kind)
        for h in c.get('history', []):
            eval_case(w, h)
        return [wt for s, wt in eval_case(w, c)[1] if s == sig]
    except Exception:
        return []


def shrink(world, case, sig):
    def still(c):
        return bool(fresh_fails(world.kind, c, sig))
    cur = dict(case)
    if cur.get('repeat', 2) > 2:
        cand = dict(cur, repeat=2)
        if still(cand): cur = cand
    for key, val in (('others', []), ('ae', None), ('acc', None), ('q', ''), ('path', '/metrics'), ('an', 'Accept'),
                     ('aen', 'Accept-Encoding')):
        cand = dict(cur); cand[key] = val
        if cand != cur and still(cand): cur = cand
    for key in ('acc', 'ae'):
        if cur[key] and len(cur[key]) == 1:
            items = cur[key][0].split(',')
            if len(items) > 1:
                items = lib.shrink_list(items, lambda xs: still(dict(cur, **{key: [','.join(xs)]})))
                cur[key] = [','.join(items)]
            # then the parameters of every remaining item, one at a time
            items = cur[key][0].split(',')
            for i in range(len(items)):
                parts = items[i].split(';')
                j = len(parts) - 1
                while j >= 1:
                    cand = items[:i] + [';'.join(parts[:j] + parts[j + 1:])] + items[i + 1:]
                    if still(dict(cur, **{key: [','.join(cand)]})):
                        parts = parts[:j] + parts[j + 1:]
                        items = cand
                    j -= 1
            cur[key] = [','.join(items)]
    if cur['q']:
        ps = cur['q'].split('&')
        if len(ps) > 1:
            ps = lib.shrink_list(ps, lambda xs: still(dict(cur, q='&'.join(xs))))
            cur['q'] = '&'.join(ps)
    return cur


def run_cases(ctx, world, cases, verbose=False):
    fetch_parse_args(ctx)
    lines = []
    for c in cases:
        lines.append(driver_line(c, False))
        lines.append(driver_line(c, True))
    replies = ctx.driver.run(lines)
    seen_sigs = set()
    per_sig = {}
    history = []
    for i, case in enumerate(cases):
        res, fails, notes = eval_case(world, case)
        history.append(case)
        ctx.count('scrapes per request: %d' % max(1, int(case.get('repeat', 2))))
        key = json.dumps([case['method'], case['acc'], case['ae'], case['q'], case['path']], sort_keys=True)
        trivial = case['acc'] is None and case['ae'] is None and case['q'] == ''
        ctx.case(nontrivial_key=None if trivial else key,
                 sample={'request': {k: case[k] for k in ('method', 'path', 'q', 'acc', 'ae')},
                         'wsgi': None if 'error' in res['wsgi', False] else [res['wsgi', False]['status'], res['wsgi', False]['headers']]})
        ctx.count(cls_of(case))
        ctx.count('handler-route-' + res['handler', False].get('route', '?'))
        for n in notes:
            ctx.count(n)
        if (case['acc'] and len(case['acc']) > 1) or (case['ae'] and len(case['ae']) > 1):
            ctx.count('repeated-field-lines (correspondence only)')
        for sig, what in fails:
            c = dict(case, world=world.kind, repeat=max(2, int(case.get('repeat', 2))))
            if sig not in seen_sigs:
                seen_sigs.add(sig)
                if fresh_fails(world.kind, c, sig):
                    c = shrink(world, c, sig)
                else:
                    # the failure depends on earlier scrapes of OTHER requests against the same objects: keep them
                    c = dict(c, history=[dict(h) for h in history[-60:-1]])
                    ctx.count('failure needs the preceding requests (history kept in the replay)')
                again = fresh_fails(world.kind, c, sig)
                what = again[-1] if again else what
            if sig == SIG_HDRBYTES:
                what = ('ASGI app raises UnicodeDecodeError on a GET whose header fields %r carry bytes >= 0x80 (it must decode header '
                        'bytes as latin-1 like wsgiref and http.server, which answer 200)' % (
                            [[n, v] for n, v in World.fields(None, c) if any(ord(x) > 127 for x in n + v)],))
            if sig == SIG_F12B:
                what = ('ASGI app raises UnicodeEncodeError/UnicodeDecodeError on GET %s?%s (parse_qs on the bytes query string cannot '
                        'handle non-ASCII escapes); WSGI and MetricsHandler answer 200' % (c['path'], c['q']))
            if sig == SIG_F12:
                what = ('ASGI app ignores name[]: GET %s?%s must serve the registry restricted to %r (WSGI and MetricsHandler do) '
                        'but the ASGI app serves the unrestricted exposition' % (c['path'], c['q'], want_names(c['q'])))
            if verbose: print('ORACLE-FAIL', sig, what)
            per_sig[sig] = per_sig.get(sig, 0) + 1
            ctx.count('oracle-fail ' + sig)
            if per_sig[sig] <= 8:          # lib keeps 200 failures: one class must not crowd out another
                ctx.fail(sig, what, c)
        if replies is None:
            continue
        for d in (False, True):
            rep = replies[2 * i + (1 if d else 0)]
            if not rep.startswith('ok '):
                ctx.diverge('driver error %r' % rep, case)
                continue
            parts = dict(p.split('=', 1) for p in rep[3:].split(' '))
            ctx.traces += 1
            for fe, tag in (('wsgi', 'W'), ('asgi', 'A'), ('handler', 'H')):
                if fe == 'handler' and (d or case['method'] != 'GET'):
                    continue
                real = res[fe, d]
                why = compare_model(world, fe, real, parse_obs(parts[tag]))
                if why:
                    if verbose: print('DIVERGE', why)
                    ctx.diverge(why + (' [disable_compression]' if d else ''), case)


def run_functions(ctx, world, rng, n):
    """function-level correspondence: choose_encoder, gzip_accepted, and the str primitives of the model"""
    from prometheus_client.openmetrics import exposition as om
    hs_a = ([None, ''] + REAL_ACCEPT + param_grid() + [gen_real(rng, REAL_ACCEPT) for _ in range(n // 4)]
            + [gen_header(rng, TOKENS_ACCEPT) for _ in range(n)] + [gen_malformed(rng, OM) for _ in range(n // 2)])
    hs_e = ([None, ''] + REAL_AE + [gen_real(rng, REAL_AE) for _ in range(n // 8)]
            + [gen_header(rng, TOKENS_CODING) for _ in range(n)] + [gen_malformed(rng, 'gzip') for _ in range(n // 2)])
    prim = [rng.choice(WS_POOL) + rng.choice(TOKENS_CODING + TOKENS_ACCEPT) + rng.choice(WS_POOL) for _ in range(n // 2)]
    lines = (['c17 choose ' + ('-' if h is None else lib.hx(h)) for h in hs_a]
             + ['c17 gzip ' + ('-' if h is None else lib.hx(h)) for h in hs_e]
             + ['c17 strip ' + lib.hx(s) for s in prim]
             + ['c17 lower ' + lib.hx(s) for s in prim]
             + ['c17 split h:2c ' + lib.hx(s) for s in hs_a[1:]] + ['c17 split h:3b ' + lib.hx(s) for s in hs_a[1:]])
    targets = []
    for _ in range(n):
        t = rng.choice(['/metrics', '/', '/a/b', '/metrics;p=1', '/m#f', '/m%23', '/a:b']) + rng.choice(['?', '?', '?', '', '??', '#?', ';?'])
        t += gen_query(rng) + rng.choice(['', '', '', '#', '#a?b', '?x#y#z', ';q'])
        targets.append(t)
    blobs = [bytes(rng.choice([0x20, 0x41, 0x61, 0x2c, 0x3b, 0x80, 0x85, 0xa0, 0xc2, 0xc3, 0xe2, 0xa9, 0xff, 0xf0, 0x9f])
                   for _ in range(rng.randrange(0, 7))) for _ in range(n // 2)]
    first_extra = len(lines)
    lines += ['c17 urlq ' + lib.hx(t) for t in targets]
    lines += ['c17 decode %s %s' % (lib.hx(c), lib.xb(b)) for c in ('latin-1', 'utf-8') for b in blobs]
    replies = ctx.driver.run(lines)
    k = 0
    for h in hs_a:
        enc, ct = world.exposition.choose_encoder(h)
        real = ('om' if enc is om.generate_latest else 'text' if enc is world.exposition.generate_latest else 'other',
                'om' if ct == CT['om'] else 'text' if ct == CT['text'] else 'other')
        exp = want_format(h)
        ctx.case(nontrivial_key=('choose', h), sample=None)
        ctx.count('fn choose_encoder')
        if h is not None and ';' in h:
            ctx.count('fn choose_encoder: header with parameters')
        try:
            produced = body_format(enc(world.reg))
        except Exception as e:
            produced = 'raises ' + type(e).__name__
        if real != (exp, exp) or produced != exp:
            ctx.fail('C17:content-type', 'choose_encoder(%r) returns encoder %s (its output is the %s exposition) with content type %r; '
                     'expected the %s encoder with exactly %r' % (h, real[0], FMT_NAME.get(produced, produced), ct, FMT_NAME[exp], CT[exp]),
                     {'fn': 'choose', 'h': h})
        if replies is not None:
            ctx.traces += 1
            if replies[k] != 'ok %s %s %d' % (real[0], real[1], 1 if real[0] == 'om' else 0):
                ctx.diverge('choose_encoder(%r): implementation %r, model/spec %r' % (h, real, replies[k]), {'fn': 'choose', 'h': h})
        k += 1
    for h in hs_e:
        real = bool(world.exposition.gzip_accepted(h))
        ctx.case(nontrivial_key=('gzip', h), sample=None)
        ctx.count('fn gzip_accepted')
        if real != want_gzip(h):
            ctx.fail('C17:encoding-header', 'gzip_accepted(%r) is %s; gzip is %slisted' % (h, real, '' if want_gzip(h) else 'not '),
                     {'fn': 'gzip', 'h': h})
        if replies is not None:
            ctx.traces += 1
            if replies[k] != 'ok %d %d' % (real, real):
                ctx.diverge('gzip_accepted(%r): implementation %r, model/spec %r' % (h, real, replies[k]), {'fn': 'gzip', 'h': h})
        k += 1
    if replies is not None:
        for fn, f in (('strip', str.strip), ('lower', str.lower)):
            for s in prim:
                # the model's lower() keeps non-ASCII characters other than U+0130 / U+212A unchanged (they can never
                # take part in a match with an ASCII literal), so it is compared on strings where that is also what
                # Python does
                if fn == 'lower' and any(ord(c) > 127 and c not in '\u0130\u212a' and c.lower() != c for c in s):
                    ctx.count('fn str.lower not compared (cased non-ASCII)')
                    k += 1
                    continue
                ctx.count('fn str.' + fn)
                if replies[k] != 'ok ' + lib.hx(f(s)):
                    ctx.diverge('%r.%s(): python %r, model %s' % (s, fn, f(s), replies[k]), {'fn': fn, 'h': s})
                k += 1
        for sep in ',;':
            for s in hs_a[1:]:
                ctx.count('fn str.split')
                if replies[k] != 'ok ' + lib.enc_list([lib.hx(x) for x in s.split(sep)]):
                    ctx.diverge('%r.split(%r): python %r, model %s' % (s, sep, s.split(sep), replies[k]), {'fn': 'split', 'h': s})
                k += 1
        assert k == first_extra
        for t in targets:
            ctx.count('fn urlparse(target).query' + (" (raw '#')" if '#' in t else ''))
            if replies[k] != 'ok ' + lib.hx(urlparse(t).query):
                ctx.diverge('urlparse(%r).query: python %r, model %s' % (t, urlparse(t).query, replies[k]), {'fn': 'urlq', 'h': t})
            k += 1
        for c in ('latin-1', 'utf-8'):
            for b in blobs:
                ctx.count('fn bytes.decode')
                try:
                    exp = 'ok ' + lib.hx(b.decode(c))
                except UnicodeError:
                    exp = 'err UnicodeError'
                if replies[k] != exp:
                    ctx.diverge('%r.decode(%r): python %s, model %s' % (b, c, exp, replies[k]), {'fn': 'decode', 'h': b.hex()})
                k += 1


def run(ctx):
    ctx.rule = ('requests = method × path × Accept (grammar items: exact/near-miss/case-variant tokens, 19 whitespace strings, '
                'parameters as a dimension of their own: version= 0.0.1/1.0.0/0.0.4/2.0.0/garbage…, charset=, q=, escaping=/proto=/… in '
                'every position, spaced/quoted/repeated/upper-case, an enumerated grid of them, and the header values Prometheus '
                '1.x/2.x/3.x, Telegraf, curl and browsers send; malformed token soup; absent; repeated field lines) × Accept-Encoding (same) × field-name '
                'spellings × unrelated/near-miss header fields (all header bytes put on the wire as UTF-8 or latin-1, so bytes >= 0x80 occur) × '
                'query strings (0..5 pieces: name[] literal or percent-encoded, blank values, unrelated and near-miss keys, malformed '
                "pieces, raw '#', '?', ';', '&&', '=' oddities) × disable_compression; each request drives WSGI, ASGI and "
                'MetricsHandler, 1-3 times in a row and interleaved with other selections against the same registry (constructed with '
                'target_info, or target_info set later / changed / removed between scrapes), app and handler objects; non-trivial = has an Accept, an Accept-Encoding or a query string; distinct by request content')
    check_interpreter_facts()
    world = World()
    n = 2500 if ctx.tier == 'quick' else 40000
    if ctx.broken:
        n *= 3
    cases = corpus() + [gen_case(ctx.rng) for _ in range(n)]
    run_cases(ctx, world, cases)
    # a registry whose target_info is set after construction, then CHANGED and REMOVED between scrapes: every expected body is
    # recomputed from the registry's current content
    later = World('later')
    m = 250 if ctx.tier == 'quick' else 3000
    extra = [gen_case(ctx.rng) for _ in range(m)]
    for c in extra:
        c['method'] = 'GET'
    run_cases(ctx, later, corpus() + extra[:m // 2])
    later.retarget({'env': 'staging'})
    run_cases(ctx, later, corpus()[:60] + extra[m // 2:])
    later.retarget(None)
    run_cases(ctx, later, [dict(c) for c in corpus() if 'target' in c['q']])
    run_functions(ctx, world, ctx.rng, 300 if ctx.tier == 'quick' else 4000)
    if ctx.tier == 'thorough':
        loopback_handler_check(ctx, world, cases, 600)
    ctx.extra['documented_limits'] = {
        "raw '#' in the request target (not a valid RFC 3986 path/query character; urlparse cuts the target there for MetricsHandler, "
        "wsgiref and ASGI servers split at the first '?' only) - generated, excluded from the three-way agreement, no failure": {
            'requests generated': ctx.dist.get('raw-#-in-target', 0),
            'of which MetricsHandler answered differently from WSGI/ASGI': ctx.dist.get(
                'raw-#-in-target: MetricsHandler differs from WSGI/ASGI', 0)},
        'repeated Accept / Accept-Encoding field lines (MetricsHandler reads the first line only) - correspondence only': {
            'requests generated': ctx.dist.get('repeated-field-lines (correspondence only)', 0),
            'of which MetricsHandler answered differently from WSGI': ctx.dist.get('dup-headers-handler-differs', 0)}}
    ctx.extra['scope_notes'] = [
        'repeated Accept / Accept-Encoding field lines are out of scope of the agreement oracle (MetricsHandler reads the first line only)',
        'GET /favicon.ico on WSGI (200, empty body) is compared with the model only',
        'percent-escapes in the query string are UTF-8 (name[]=dur%C3%A9e_count asks for durée_count on every front-end); raw non-ASCII query '
        'bytes are latin-1 text on every front-end (RFC 3986 has none) and so address no UTF-8 name',
        'blank name[] values do not count; a name[] value is ONE name, commas included (name[]=a,b asks for the metric named a,b); '
        'media types compared case-sensitively, codings case-insensitively',
        'the expected restricted body is computed without the library restriction code (own sample-name filter over one full collect, '
        'fresh registry, format encoder) and compared up to the order of family blocks (a restricted registry iterates a Python set)']


def replay(ctx, case):
    c = case.get('case', case)
    check_interpreter_facts()
    world = World(c.get('world', 'ctor'))
    for h in c.get('history', []):          # earlier requests against the same registry/app/handler objects
        eval_case(world, h)
    if 'fn' in c:
        h = c['h']
        print('choose_encoder ->', world.exposition.choose_encoder(h)[1], '| gzip_accepted ->', world.exposition.gzip_accepted(h),
              '| oracle: format', want_format(h), 'gzip', want_gzip(h))
        bad = (world.exposition.choose_encoder(h)[1] != CT[want_format(h)]) if c['fn'] == 'choose' else (
            bool(world.exposition.gzip_accepted(h)) != want_gzip(h)) if c['fn'] == 'gzip' else False
        return 1 if bad else 0
    print('request (issued %d time(s) in a row against one registry/app/handler, after %d earlier request(s)):' % (
        max(1, int(c.get('repeat', 2))), len(c.get('history', []))), json.dumps({k: v for k, v in c.items() if k != 'history'}, ensure_ascii=True))
    res, fails, notes = eval_case(world, c)
    for (fe, d), r in sorted(res.items(), key=lambda kv: (kv[0][0], kv[0][1])):
        if 'error' in r:
            print('  %-8s disable=%d -> %s' % (fe, d, r['error']))
        else:
            print('  %-8s disable=%d -> %s %r body[%d] collects=%d' % (fe, d, r['status'], r['headers'], len(r['body']), r['collects']))
    run_cases(ctx, world, [c], verbose=True)
    known = lib.load_known()
    bad = [f for f in ctx.failures if lib.match_known(known, ctx.prop, f['sig']) is None]
    for f in ctx.failures:
        print('REPLAY-FAIL' if f in bad else 'REPLAY-KNOWN', f['sig'], f['what'])
    for f in ctx.divergences:
        print('REPLAY-DIVERGE', f['what'])
    return 1 if bad or ctx.divergences else 0
