"""C18 — write_to_textfile replaces the target atomically or not at all.

The REAL `prometheus_client.exposition.write_to_textfile` runs in a scratch directory.  For the duration of each call the
file effects — `builtins.open`, `os.rename`, `os.replace`, `os.remove`, `os.unlink`, `os.path.exists` — are instrumented
PROCESS-WIDE (acting only in the calling thread and only on paths inside the scratch directory; restored in a finally),
so effects reached indirectly (shutil, a helper function …) are seen exactly like direct ones.  The wrappers

  * record every I/O step (open, each piece of f.write, close/__exit__, os.rename/os.replace, os.path.exists, os.remove)
    and every collector call as (kind, which path: tmp/target/other), and after each step snapshot the target content,
    the temporary file and the directory listing — the "reader at the cut point" (a kill at that point leaves exactly
    that state on disk);
  * inject ONE fault (OSError, UnicodeEncodeError, ValueError, MemoryError, RuntimeError; and, for the documented limit
    F16, KeyboardInterrupt/SystemExit/GeneratorExit) at a chosen step, optionally after part of the step's work has
    reached the disk;
  * optionally split `f.write(data)` into pieces, each either flushed at once or held back until close (the two extreme
    write-timing behaviours of a buffered writer and everything between);
  * in the two-writer runs park the calling thread before every step, so that a deterministic scheduler enumerates all
    interleavings of two concurrent calls on one target.

Oracle on the real code, independent of the Lean model: at every snapshot target ∈ {old, new} (new = generate_latest of
the same registry, computed separately); a call that raised an Exception leaves target == old and the directory as it
was, and the caller sees the injected exception object itself; a call that returned leaves target == new and no
temporary file; two writers: at every step target ∈ {old, new1, new2}, at the end target ∈ {new1, new2}, no temporary
file, both calls returned.  Thorough tier (and a small sample in the quick tier): real subprocesses killed with SIGKILL
at random instants while a reader polls the target.

Correspondence (T2): the recorded effect trace, the target content after every step (and the temporary file's content
when the harness controls the buffering), the outcome and the final directory equal the model's (`c18 run`, `c18 two`).

HISTORIES (`hist_*`): the identity of the caller changes AFTER earlier successful writes.  A helper process (actor 1) writes,
then forks / starts threads (children fork again; threads are created before and after a fork; a thread that has written
forks), and then several of these actors — in DIFFERENT processes — write the same target.  Every actor parks before each
effect step (the same `Run.step` hook) and reports over a pipe; the harness grants one step at a time according to the
schedule and snapshots target and directory after each.  Oracle: at every snapshot the target holds the content before the
calls or exactly one writer's complete exposition; concurrently active writers name distinct temporary files; nobody raises;
nothing is left behind.  Two-writer races are also sent to the model (`c18 two`).
"""
import io
import itertools
import json
import os as real_os
import shutil
import signal
import subprocess
import sys
import tempfile
import threading
import time

import lib

real_open = open

EXC_CLASSES = ['OSError', 'UnicodeEncodeError', 'ValueError', 'MemoryError', 'RuntimeError']
BASE_CLASSES = ['KeyboardInterrupt', 'SystemExit', 'GeneratorExit']


def make_exc(cls, ident):
    if cls == 'OSError': e = OSError(28, 'No space left on device (injected #%d)' % ident)
    elif cls == 'UnicodeEncodeError': e = UnicodeEncodeError('utf-8', '\ud800', 0, 1, 'injected #%d' % ident)
    elif cls == 'ValueError': e = ValueError('injected #%d' % ident)
    elif cls == 'MemoryError': e = MemoryError('injected #%d' % ident)
    elif cls == 'RuntimeError': e = RuntimeError('injected #%d' % ident)
    elif cls == 'KeyboardInterrupt': e = KeyboardInterrupt()
    elif cls == 'SystemExit': e = SystemExit(3)
    elif cls == 'GeneratorExit': e = GeneratorExit()
    else: raise ValueError(cls)
    e.pv_ident = ident
    return e


def canon_class(e):
    """class name as the model knows it (first modelled class in the MRO)"""
    for c in type(e).__mro__:
        if c.__name__ in EXC_CLASSES + BASE_CLASSES:
            return c.__name__
    return type(e).__name__


# ------------------------------------------------------------------------------------------------ instrumentation
class Env:
    """one scratch directory, one target, the patched view of `open`/`os` for prometheus_client.exposition"""

    def __init__(self, old, others=None, pathform='abs', attach=None):
        # attach=<root>: a helper PROCESS attaches to the scratch tree the harness has already set up (nothing is created or removed)
        self.attached = attach is not None
        self.root = attach if self.attached else tempfile.mkdtemp(prefix='pv-c18-')
        self.dir = real_os.path.join(self.root, 'sub') if pathform == 'sub' else self.root
        if pathform == 'sub' and not self.attached:
            real_os.mkdir(self.dir)
        self.target = real_os.path.join(self.dir, 'metrics.prom')
        # how the caller names the target, and the working directory for the call (None = leave it alone)
        self.callpath, self.cwd = {'abs': (self.target, None), 'bare': ('metrics.prom', self.dir),
                                   'dot': ('./metrics.prom', self.dir), 'sub': ('sub/metrics.prom', self.root)}[pathform]
        self.others = dict(others or {'unrelated.prom': b'keep me\n'})
        for n, c in ({} if self.attached else self.others).items():
            with real_open(real_os.path.join(self.dir, n), 'wb') as f:
                f.write(c)
        self.old = old
        if old is not None and not self.attached:
            with real_open(self.target, 'wb') as f:
                f.write(old)
        self.local = threading.local()
        self.sched = None
        self.osname = real_os.name
        self.log = []               # global step log (two-writer runs): shared order of steps
        self.touched = set()        # base names of the paths the code under test named in a wrapped call

    def close(self):
        if not self.attached:
            shutil.rmtree(self.root, ignore_errors=True)

    def run_of_thread(self):
        return getattr(self.local, 'run', None)

    def classify(self, p, allow_dir=False):
        try:
            p = real_os.fspath(p)
        except TypeError:
            return None
        if isinstance(p, bytes):
            p = p.decode('utf-8', 'replace')
        if p == '' and self.cwd is None:
            return None
        p = real_os.path.abspath(p)
        if allow_dir and p == self.dir:
            return 'dir'
        if real_os.path.dirname(p) != self.dir:
            return None
        self.touched.add(real_os.path.basename(p))
        run = self.run_of_thread()
        if run is not None:
            run.named.add(real_os.path.basename(p))
        if p == self.target:
            return 'target'
        if p.startswith(self.target + '.'):
            return 'tmp'
        return 'other'

    def read(self, p):
        try:
            with real_open(p, 'rb') as f:
                return f.read()
        except FileNotFoundError:
            return None

    def listing(self):
        return sorted(real_os.listdir(self.dir))

    def tmp_names(self):
        base = real_os.path.basename(self.target) + '.'
        return [n for n in self.listing() if n.startswith(base)]


class Run:
    """the recorder / fault injector of one call of write_to_textfile"""

    def __init__(self, env, who=1, fault=None, cuts=None, last_flush=False):
        self.env = env
        self.who = who
        self.fault = fault          # None | dict(pos, cls, ident, part, natural?)
        self.exc = make_exc(fault['cls'], fault['ident']) if fault and not fault.get('natural') and fault['cls'] != 'short' else None
        self.cuts = cuts            # None = pass f.write(data) through unchanged; else list of (n, flush)
        self.last_flush = last_flush
        self.k = 0
        self.steps = []
        self.fired = False
        self.tmp_expected = None
        self.fds = {}               # raw file descriptors the call holds on scratch paths -> which path
        self.short_active = False   # a raw write issued during the current step is to be cut short
        self.named = set()          # base names of the scratch paths THIS call named (its temporary file among them)
        self.natural_failed = False # a step failed on its own: under the single-fault rule the injected fault is then disarmed

    def snap(self, kind, pathcls, faulted):
        env = self.env
        rec = {'who': self.who, 'kind': kind, 'path': pathcls, 'faulted': faulted, 'target': env.read(env.target),
               'listing': env.listing()}
        rec['tmp'] = env.read(self.tmp_expected) if self.tmp_expected else None
        self.steps.append(rec)
        env.log.append(rec)

    def step(self, kind, pathcls, do, fault_do=None, short_do=None):
        if self.env.sched is not None:
            self.env.sched.yield_point(self.who)
        idx = self.k
        self.k += 1
        f = self.fault
        if f is not None and f['cls'] == 'short':
            # SHORT WRITE: no exception — the OS accepts only part of the buffer and says so in the return value
            if f['pos'] == idx and not self.fired:
                if short_do is not None:
                    self.fired = True
                    r = short_do(f.get('part', 1))
                    self.snap(kind, pathcls, False)
                    return r
                self.short_active = True
            try:
                r = do()
            except BaseException:
                self.snap(kind, pathcls, True)
                raise
            finally:
                self.short_active = False
            self.snap(kind, pathcls, False)
            return r
        if f is not None and f['pos'] == idx and not self.fired and not self.natural_failed:
            self.fired = True
            if f.get('natural'):
                r = do()
                self.snap(kind, pathcls, True)
                return r
            try:
                if fault_do is not None:
                    try:
                        fault_do(f.get('part', 0))
                    except Exception:       # the partial work itself was impossible here; the injected fault still is the fault
                        pass
            finally:
                self.snap(kind, pathcls, True)
            raise self.exc
        try:
            r = do()
        except BaseException:       # the step failed on its own (e.g. os.open('') → FileNotFoundError): still a cut point
            self.natural_failed = True
            self.snap(kind, pathcls, True)
            raise
        self.snap(kind, pathcls, False)
        return r


class FileW:
    """what `open(tmp, 'wb')` returns to the code under test"""

    def __init__(self, run, raw, pathcls):
        self._run, self._raw, self._pc = run, raw, pathcls
        self._pending = b''
        self._closed = False

    def __enter__(self):
        return self

    def __exit__(self, *a):
        self.close()

    def _piece(self, piece, fl):
        if fl:
            self._raw.write(self._pending + piece)
            self._raw.flush()
            self._pending = b''
        else:
            self._pending += piece

    def _piece_fault(self, piece, part):
        d = self._pending + piece
        self._raw.write(d[:part])
        self._raw.flush()
        self._pending = d[part:]

    def write(self, data):
        run = self._run
        if run.cuts is None:
            def part_raw(part):
                self._raw.write(bytes(data)[:part])
                self._raw.flush()
            return run.step('write', self._pc, lambda: self._raw.write(data), part_raw)
        data = bytes(data)
        rest = data
        pieces = []
        for n, fl in run.cuts:
            pieces.append((rest[:n], fl))
            rest = rest[n:]
        pieces.append((rest, run.last_flush))
        for piece, fl in pieces:
            run.step('write', self._pc, lambda piece=piece, fl=fl: self._piece(piece, fl),
                     lambda part, piece=piece: self._piece_fault(piece, part))
        return len(data)

    def _close(self):
        self._closed = True
        try:
            if self._pending:
                self._raw.write(self._pending)
            self._pending = b''
        finally:
            self._raw.close()

    def _close_fault(self, part):
        self._closed = True
        try:
            self._raw.write(self._pending[:part])
            self._pending = b''
        finally:
            self._raw.close()

    def close(self):
        if self._closed:
            return
        try:
            fd = self._raw.fileno()
        except Exception:
            fd = None
        try:
            self._run.step('close', self._pc, self._close, self._close_fault)
        finally:
            self._run.fds.pop(fd, None)

    def _flush(self):
        if self._pending:
            self._raw.write(self._pending)
            self._pending = b''
        self._raw.flush()

    def flush(self):
        if self._closed:
            return self._raw.flush()
        return self._run.step('flush', self._pc, self._flush)

    def __getattr__(self, n):
        return getattr(self._raw, n)


# originals, captured before anything is patched: the harness's own snapshots and set-up always use these
ORIG = {'open': real_os.open, 'write': real_os.write, 'fsync': real_os.fsync, 'fdatasync': real_os.fdatasync, 'close': real_os.close,
        'rename': real_os.rename, 'replace': real_os.replace, 'remove': real_os.remove, 'unlink': real_os.unlink,
        'exists': real_os.path.exists, 'lexists': real_os.path.lexists, 'isfile': real_os.path.isfile}


class OsProxy:
    """`exposition.os`: the real (process-wide instrumented) os module, except that `os.name` can be scripted"""

    def __init__(self, env):
        self._env = env

    @property
    def name(self):
        return self._env.osname

    def __getattr__(self, n):
        return getattr(real_os, n)


def make_probe(env, name):
    fn = ORIG[name]

    def probe(p):
        run, pc = env.run_of_thread(), None
        if run is not None:
            pc = env.classify(p)
        if pc is None:
            return fn(p)
        return run.step('exists', pc, lambda: fn(p))
    return probe


def make_mv(env, name):
    fn = ORIG[name]

    def mv(a, b, *rest, **kw):
        run = env.run_of_thread()
        if run is None or rest or kw:
            return fn(a, b, *rest, **kw)
        ca, cb = env.classify(a), env.classify(b)
        if ca is None or cb is None:
            return fn(a, b)
        return run.step('rename', '%s>%s' % (ca, cb), lambda: fn(a, b))
    return mv


def make_rm(env, name):
    fn = ORIG[name]

    def rm(p, *rest, **kw):
        run = env.run_of_thread()
        if run is None or rest or kw:
            return fn(p, *rest, **kw)
        pc = env.classify(p)
        if pc is None:
            return fn(p)
        return run.step('remove', pc, lambda: fn(p))
    return rm


class ShortRaw(io.RawIOBase):
    """the raw (unbuffered) file under the buffered writer the code under test gets: the place where the OS may accept
    only part of a buffer.  A real `io.BufferedWriter` sits on top of it, so code that relies on the buffered writer's
    retry loop is unaffected by a short write, and code that writes raw and ignores the count is not."""

    def __init__(self, fileio, run):
        super().__init__()
        self._f, self._run = fileio, run

    def writable(self): return True
    def seekable(self): return self._f.seekable()
    def fileno(self): return self._f.fileno()
    def tell(self): return self._f.tell()
    def seek(self, *a): return self._f.seek(*a)
    def truncate(self, *a): return self._f.truncate(*a)

    def write(self, b):
        run = self._run
        n = len(b)
        if run.short_active and not run.fired and n >= 2:
            run.fired = True
            k = max(1, min(int(run.fault.get('part', 1)), n - 1))
            return self._f.write(bytes(b[:k]))
        return self._f.write(b)

    def close(self):
        if not self.closed:
            try:
                super().close()
            finally:
                self._f.close()


def make_osopen(env):
    fn = ORIG['open']

    def osopen(p, flags, *a, **kw):
        run = env.run_of_thread()
        if run is None or kw.get('dir_fd') is not None:
            return fn(p, flags, *a, **kw)
        pc = env.classify(p, allow_dir=True)
        if pc is None:
            return fn(p, flags, *a, **kw)

        def do():
            fd = fn(p, flags, *a, **kw)
            run.fds[fd] = pc
            return fd

        def fault_do(part):
            if part and (flags & real_os.O_CREAT):
                ORIG['close'](fn(p, flags, *a, **kw))
        return run.step('open', pc, do, fault_do)
    return osopen


def make_oswrite(env):
    fn = ORIG['write']

    def oswrite(fd, data):
        run = env.run_of_thread()
        pc = run.fds.get(fd) if run is not None else None
        if pc is None:
            return fn(fd, data)

        def short(part):
            b = bytes(data)
            if len(b) < 2:
                return fn(fd, b)
            return fn(fd, b[:max(1, min(int(part), len(b) - 1))])
        return run.step('write', pc, lambda: fn(fd, data), lambda part: fn(fd, bytes(data)[:part]), short)
    return oswrite


def make_osfd(env, name, kind):
    fn = ORIG[name]

    def fdop(fd):
        run = env.run_of_thread()
        pc = run.fds.get(fd) if run is not None else None
        if pc is None:
            return fn(fd)
        if kind == 'close':
            def do():
                run.fds.pop(fd, None)
                return fn(fd)
            return run.step('close', pc, do, lambda part: do())
        return run.step(kind, pc, lambda: fn(fd))
    return fdop


def make_open(env):
    def wrapped_open(p, mode='r', *a, **kw):
        run = env.run_of_thread()
        if run is None or not isinstance(mode, str) or not any(c in mode for c in 'wax+'):
            return real_open(p, mode, *a, **kw)
        pc = env.classify(p)
        if pc is None:
            return real_open(p, mode, *a, **kw)
        box = {}
        buffering = a[0] if a else kw.get('buffering', -1)
        plain_write = 'b' in mode and '+' not in mode and 'r' not in mode and len(a) <= 1 and set(kw) <= {'buffering'}

        def do():
            if plain_write:
                raw = ShortRaw(real_open(p, mode, buffering=0), run)
                box['raw'] = raw if buffering == 0 else io.BufferedWriter(raw)
            else:
                box['raw'] = real_open(p, mode, *a, **kw)
            try:
                run.fds[box['raw'].fileno()] = pc
            except Exception:
                pass

        def fault_do(part):
            if part:        # the file was created, then the call failed
                real_open(p, mode, *a, **kw).close()
        run.step('open', pc, do, fault_do)
        return FileW(run, box['raw'], pc)
    return wrapped_open


def make_generate(env, real_generate):
    """generate_latest as seen by write_to_textfile: the collectors record themselves; the final `.encode('utf-8')` of the
    joined text is recorded as the step `encode` once the real function has returned — or raised a natural encoding error"""
    def wrapped_generate(registry, *a, **kw):
        run = env.run_of_thread()
        if run is None:
            return real_generate(registry, *a, **kw)
        try:
            data = real_generate(registry, *a, **kw)
        except UnicodeEncodeError:
            if run.fault is not None and run.fault.get('natural'):
                run.step('encode', '-', lambda: None)     # marks the step faulted, takes the snapshot
            raise
        run.step('encode', '-', lambda: None)
        return data
    return wrapped_generate


class Patched:
    """For the duration of a with-block the file effects are instrumented PROCESS-WIDE — `builtins.open`/`io.open`,
    `os.open`/`os.write`/`os.fsync`/`os.close` (on descriptors the call opened on scratch paths or the scratch directory),
    `os.rename`, `os.replace`, `os.remove`, `os.unlink`, `os.path.exists`/`lexists`/`isfile` — so that effects reached
    indirectly (through shutil, pathlib, a helper …) are recorded, snapshotted and faultable exactly like direct ones.
    The wrappers act only in a thread that is executing an instrumented call and only on paths inside the scratch
    directory; everything else passes straight through.  `exposition.os` is a thin proxy over the (instrumented) os
    module that lets the scenario script `os.name`; `exposition.generate_latest` records the encode step."""

    def __init__(self, env):
        self.env = env

    def __enter__(self):
        import builtins
        import io
        from prometheus_client import exposition
        env = self.env
        self.mod = exposition
        self.saved = []

        def put(obj, name, val):
            self.saved.append((obj, name, getattr(obj, name)))
            setattr(obj, name, val)
        try:
            wo = make_open(env)
            put(builtins, 'open', wo)
            put(io, 'open', wo)
            put(real_os, 'open', make_osopen(env))
            put(real_os, 'write', make_oswrite(env))
            put(real_os, 'fsync', make_osfd(env, 'fsync', 'fsync'))
            put(real_os, 'fdatasync', make_osfd(env, 'fdatasync', 'fsync'))
            put(real_os, 'close', make_osfd(env, 'close', 'close'))
            put(real_os, 'rename', make_mv(env, 'rename'))
            put(real_os, 'replace', make_mv(env, 'replace'))
            put(real_os, 'remove', make_rm(env, 'remove'))
            put(real_os, 'unlink', make_rm(env, 'unlink'))
            for n in ('exists', 'lexists', 'isfile'):
                put(real_os.path, n, make_probe(env, n))
            put(exposition, 'os', OsProxy(env))
            put(exposition, 'generate_latest', make_generate(env, exposition.generate_latest))
        except BaseException:
            self.__exit__()
            raise
        return self

    def __exit__(self, *a):
        for obj, name, val in reversed(self.saved):
            setattr(obj, name, val)
        self.saved = []


# ------------------------------------------------------------------------------------------------ registries
class Coll:
    """collector number idx: `nsamples` gauge samples; the recorder sees each collect() call (and may make it raise)"""

    def __init__(self, env, idx, nsamples, pad, surrogate=False):
        self.env, self.idx, self.nsamples, self.pad, self.surrogate = env, idx, nsamples, pad, surrogate

    def collect(self):
        from prometheus_client.core import GaugeMetricFamily
        run = self.env.run_of_thread()
        poison = False
        if run is not None:
            run.step('collect%d' % self.idx, '-', lambda: None)
            poison = self.surrogate and run.fault is not None and run.fault.get('natural')
        g = GaugeMetricFamily('pv_metric_%d' % self.idx, 'help %d %s' % (self.idx, 'x' * self.pad), labels=['k'])
        for j in range(self.nsamples):
            g.add_metric(['\ud800' if (poison and j == 0) else 'v%d' % j], float(j) + 0.5)
        yield g


def build_registry(env, spec, surrogate_at=None):
    """spec: list of (nsamples, pad) per collector"""
    from prometheus_client import CollectorRegistry
    reg = CollectorRegistry()
    colls = []
    for i, (ns, pad) in enumerate(spec):
        c = Coll(env, i, ns, pad, surrogate=(surrogate_at == i))
        reg.register(c)
        colls.append(c)
    return reg, colls


def expected_exposition(env, spec):
    """new = generate_latest(registry), computed apart from the call under test, plus the per-collector pieces"""
    from prometheus_client import CollectorRegistry, generate_latest
    reg, colls = build_registry(env, spec)
    new = generate_latest(reg)
    parts = []
    for c in colls:
        r = CollectorRegistry()
        r.register(c)
        parts.append(generate_latest(r))
    if b''.join(parts) != new:
        parts = [new] + [b''] * (len(colls) - 1) if colls else []
    return new, parts


# ------------------------------------------------------------------------------------------------ one call
def n_pieces(cuts):
    return 1 if cuts is None else len(cuts) + 1


def body_len(case):
    return len(case['reg']) + n_pieces(case['cuts']) + 4     # open, collectors, encode, pieces, close, rename


def unhex(h):
    return None if h is None else bytes.fromhex(h)


def run_single(case):
    """execute one scenario on the real code; returns the observation dict"""
    from prometheus_client import exposition
    old = unhex(case['old'])
    env = Env(old, pathform=case.get('pathform') or 'abs')
    cwd0 = real_os.getcwd()
    try:
        env.osname = case.get('osname') or real_os.name
        spec = [tuple(x) for x in case['reg']]
        new, parts = expected_exposition(env, spec)
        fault = case.get('fault')
        sur = fault.get('surrogate_in') if fault and fault.get('natural') else None
        reg, _ = build_registry(env, spec, surrogate_at=sur)
        cuts = None if case['cuts'] is None else [tuple(c) for c in case['cuts']]
        run = Run(env, 1, fault, cuts, bool(case.get('last_flush')))
        run.tmp_expected = '%s.%d.%d' % (env.target, real_os.getpid(), threading.current_thread().ident)
        if case.get('stale'):
            with real_open(run.tmp_expected, 'wb') as fh:
                fh.write(STALE)
        initial_listing = env.listing()
        raised = None
        if env.cwd is not None:
            real_os.chdir(env.cwd)          # relative target: bare file name, ./name, sub/name
        with Patched(env):
            env.local.run = run
            try:
                exposition.write_to_textfile(env.callpath, reg)
            except BaseException as e:      # noqa: the oracle wants to see everything that reaches the caller
                raised = e
            finally:
                env.local.run = None
                real_os.chdir(cwd0)
        obs = {'old': old, 'new': new, 'parts': parts, 'steps': run.steps, 'raised': raised, 'injected': run.exc,
               'final_target': env.read(env.target), 'final_listing': env.listing(), 'initial_listing': initial_listing,
               'final_fs': {n: env.read(real_os.path.join(env.dir, n)) for n in env.listing()},
               'others': env.others, 'tmp_expected': run.tmp_expected, 'target': env.target, 'fired': run.fired,
               'touched': set(env.touched), 'natural_failed': run.natural_failed}
        return obs
    finally:
        real_os.chdir(cwd0)
        env.close()


def show(b):
    if b is None:
        return 'absent'
    return '%d bytes %r%s' % (len(b), b[:24], '…' if len(b) > 24 else '')


def oracle_single(ctx, case, obs):
    """the property's own oracle on the real code; returns number of failures reported"""
    old, new = obs['old'], obs['new']
    fails = 0

    def fail(sig, what):
        nonlocal fails
        fails += 1
        ctx.fail(sig, what + ' | scenario: ' + describe(case), case)

    for i, st in enumerate(obs['steps']):
        t = st['target']
        if t != old and t != new:
            fail('C18:partial-target', 'after step %d (%s %s%s) a reader of the target sees %s — neither the previous content (%s) nor the '
                 'complete new exposition (%s)' % (i, st['kind'], st['path'], ', faulted' if st['faulted'] else '', show(t), show(old), show(new)))
            break
    for n, c in obs['others'].items():
        if obs['final_fs'].get(n) != c:
            fail('C18:other-file-touched', 'unrelated file %s changed' % n)
    raised, fault = obs['raised'], case.get('fault')
    if fault is not None and not obs['fired'] and obs.get('natural_failed'):
        fault = None        # a step failed on its own before the injection point: that failure is the one fault of this run
    elif fault is not None and fault['cls'] != 'short' and not obs['fired']:
        # the call has fewer steps than the scenario assumed: it ran fault-free and is judged as such; the coverage gap is
        # reported after every real failure
        ctx.extra.setdefault('_deferred', []).append(('C18:fault-not-reached', 'fault %s at step %d was never reached (the call has fewer steps than '
                                                      'expected) | scenario: %s' % (fault['cls'], fault['pos'], describe(case)), case))
        fault = None
    base = real_os.path.basename(obs['target'])
    extra = [n for n in obs['final_listing'] if n not in obs['others'] and n != base]
    if case.get('stale'):
        # a stale file the call never named (the code builds its temporary name differently) is not the call's leftover
        sb = real_os.path.basename(obs['tmp_expected'])
        if sb not in obs['touched'] and obs['final_fs'].get(sb) == STALE:
            extra = [n for n in extra if n != sb]
    if fault is not None and fault['cls'] == 'short':
        # a short write is not an error: the OS accepted part of a buffer and said so.  The call must still either install
        # the COMPLETE exposition or raise and leave everything as it was.
        where = 'short write (the OS accepts only %s byte(s) of the buffer and returns that count) at step %d' % (fault.get('part', 1), fault['pos'])
        if not obs['fired']:
            where = 'no fault'
        if raised is None:
            if obs['final_target'] != new:
                fail('C18:short-write-installed-partial', '%s: the call returned normally but the target holds %s — not the complete new exposition (%s)'
                     % (where, show(obs['final_target']), show(new)))
        elif obs['final_target'] != old:
            fail('C18:target-changed-on-failure', '%s: the call raised %r but the target holds %s instead of its previous content (%s)'
                 % (where, raised, show(obs['final_target']), show(old)))
        if extra:
            fail('C18:tmp-left', '%s: the call is over and left %s behind' % (where, extra))
        return fails
    if fault is None:
        if raised is not None:
            if obs['final_target'] != old:
                fail('C18:target-changed-on-failure', 'no fault injected: the call raised %r although the target had already been replaced (it holds %s, '
                     'previous content %s) — "when the call raises, the target is unchanged"' % (raised, show(obs['final_target']), show(old)))
            else:
                # clean as far as the property goes (target unchanged, exception delivered); reported after everything else
                ctx.extra.setdefault('_deferred', []).append(('C18:spurious-raise', 'no fault injected, yet the call raised %r (target unchanged) | scenario: %s'
                                                              % (raised, describe(case)), case))
        elif obs['final_target'] != new:
            fail('C18:not-installed', 'call returned but the target holds %s, not the new exposition (%s)' % (show(obs['final_target']), show(new)))
        if extra:
            fail('C18:tmp-left', 'call returned but left %s behind' % extra)
        return fails
    where = 'fault %s at step %d' % (fault['cls'], fault['pos'])
    is_exc = fault['cls'] in EXC_CLASSES
    if raised is None:
        fail('C18:exception-swallowed', '%s: the call returned normally, the exception did not reach the caller' % where)
    elif fault.get('natural'):
        if not isinstance(raised, UnicodeEncodeError):
            fail('C18:exception-changed', '%s: caller saw %r instead of the UnicodeEncodeError' % (where, raised))
    elif raised is not obs['injected']:
        fail('C18:exception-changed', '%s: caller saw %r, not the injected exception object' % (where, raised))
    if obs['final_target'] != old:
        fail('C18:target-changed-on-failure', '%s: %s but the target holds %s instead of its previous content (%s)'
             % (where, 'the call raised' if raised is not None else 'the step failed (the call hid it and returned)',
                show(obs['final_target']), show(old)))
    if extra:
        if is_exc:
            fail('C18:tmp-left', '%s: the call raised and left %s behind' % (where, extra))
        else:
            lim = ctx.extra.setdefault('documented_limits', {})
            key = 'F16: a BaseException that is not an Exception (%s) bypasses `except Exception:`; the target is intact and the caller sees it, but the temporary file stays (outside the property\'s fault list; theorem base_exception_leaves_tmp)' % fault['cls']
            lim[key] = lim.get(key, 0) + 1
    return fails


def describe(case):
    if case.get('kind') == 'hist':
        return describe_history(case)
    if case.get('kind') == 'two':
        return '%d writers, registries %s, previous target %s, schedule %s' % (
            len(case['regs']), ' / '.join(str(r) for r in case['regs']), 'absent' if case['old'] is None else '%d bytes' % (len(case['old']) // 2), case['schedule'])
    f = case.get('fault')
    return 'registry of %d collectors %s, previous target %s, write %s, %s%s' % (
        len(case['reg']), case['reg'], 'absent' if case['old'] is None else '%d bytes' % (len(case['old']) // 2),
        'passed through' if case['cuts'] is None else 'split %s last-flush=%s' % (case['cuts'], case.get('last_flush')),
        'no fault' if not f else 'short write of %s byte(s) at step %d' % (f.get('part', 1), f['pos']) if f['cls'] == 'short' else
        'fault %s at step %d (part %s%s)' % (f['cls'], f['pos'], f.get('part', 0), ', natural' if f.get('natural') else ''),
        (', os.name=%s' % case['osname'] if case.get('osname') else '') + (', stale temporary file present' if case.get('stale') else '')
        + ({'bare': ', target given as a bare file name (cwd = its directory)', 'dot': ', target given as ./name', 'sub': ', target given as sub/name'}.get(case.get('pathform'), '')))


def fs_field(entries):
    return lib.enc_list(['%s,%s' % (lib.hx(p), lib.xb(c)) for p, c in entries])


def request_single(case, obs):
    fault = case.get('fault')
    fl = '-' if (not fault or fault['cls'] == 'short') else '%d,%s,%d,%d' % (fault['pos'], fault['cls'], fault['ident'], fault.get('part', 0))
    cuts = [] if case['cuts'] is None else case['cuts']
    fs0 = [(n, c) for n, c in sorted(obs['others'].items())]
    if obs['old'] is not None:
        fs0.append(('T', obs['old']))
    if case.get('stale'):
        fs0.append(('T.tmp', STALE))
    return 'c18 run %s %s %s %s %d %s %s' % (
        lib.hx('T'), lib.hx('T.tmp'), lib.enc_list([lib.xb(p) for p in obs['parts']]),
        lib.enc_list(['%d,%d' % (n, 1 if f else 0) for n, f in cuts]), 1 if case.get('last_flush') else 0, fs_field(fs0), fl)


def xfield(b):
    return '-' if b is None else lib.xb(b)


def compare_single(ctx, case, obs, reply):
    rep = reply.split(' ')
    if rep[0] != 'ok' or len(rep) != 5:
        ctx.diverge('driver reply %r' % reply[:200], case)
        return
    ctx.traces += 1
    msteps = [] if rep[1] == '.' else [s.split(',') for s in rep[1].split(';')]
    rsteps = obs['steps']
    compare_tmp = case['cuts'] is not None
    real_seq = [(s['kind'], s['path'], '1' if s['faulted'] else '0') for s in rsteps]
    model_seq = [(m[0], m[1], m[2]) for m in msteps]
    if real_seq != model_seq:
        ctx.diverge('effect trace differs: real %s, model %s | %s' % (real_seq, model_seq, describe(case)), case)
        return
    for i, (m, r) in enumerate(zip(msteps, rsteps)):
        if m[3] != xfield(r['target']):
            ctx.diverge('target after step %d (%s): real %s, model %s | %s' % (i, r['kind'], show(r['target']), m[3][:40], describe(case)), case)
            return
        if compare_tmp and m[4] != xfield(r['tmp']):
            ctx.diverge('temporary file after step %d (%s): real %s, model %s | %s' % (i, r['kind'], show(r['tmp']), m[4][:40], describe(case)), case)
            return
        if m[5] != '1':
            ctx.diverge('spec OldOrNew is false on the model trace at step %d (theorem target_always_old_or_new) | %s' % (i, describe(case)), case)
            return
    raised = obs['raised']
    if raised is None:
        real_out = 'ok'
    elif case.get('fault') and case['fault'].get('natural'):
        real_out = 'raise,%s,%d' % (canon_class(raised), case['fault']['ident'])
    else:
        real_out = 'raise,%s,%s' % (canon_class(raised), getattr(raised, 'pv_ident', '?'))
    if rep[2] != real_out:
        ctx.diverge('outcome: real %s, model %s | %s' % (real_out, rep[2], describe(case)), case)
        return
    base = real_os.path.basename(obs['target'])
    tmpbase = real_os.path.basename(obs['tmp_expected'])

    def mname(n):
        return 'T' if n == base else 'T.tmp' if n == tmpbase else n
    real_fs = sorted((mname(n), c) for n, c in obs['final_fs'].items())
    mfs = []
    if rep[3] != '.':
        for e in rep[3].split(';'):
            p, c = e.split(',')
            mfs.append((lib.unhx(p), lib.unxb(c)))
    mfs.sort()
    if not compare_tmp:
        real_fs = [(n, c if n != 'T.tmp' else b'') for n, c in real_fs]
        mfs = [(n, c if n != 'T.tmp' else b'') for n, c in mfs]
    if real_fs != mfs:
        ctx.diverge('final directory: real %s, model %s | %s' % ([(n, show(c)) for n, c in real_fs], [(n, show(c)) for n, c in mfs], describe(case)), case)
        return
    if rep[4] != xfield(obs['final_target']):
        ctx.diverge('spec finalTarget %s differs from the real final target %s | %s' % (rep[4][:40], show(obs['final_target']), describe(case)), case)


# ------------------------------------------------------------------------------------------------ two writers
class Sched:
    """hands the processor to one writer at a time; writers park before every wrapped step"""

    def __init__(self, n=2):
        self.sems = {w: threading.Semaphore(0) for w in range(1, n + 1)}
        self.back = threading.Semaphore(0)

    def yield_point(self, who):
        self.back.release()
        if not self.sems[who].acquire(timeout=30):
            raise lib.Infra('scheduler hand-off timed out')


def run_two(case):
    from prometheus_client import exposition
    old = unhex(case['old'])
    env = Env(old)
    try:
        specs = [[tuple(x) for x in r] for r in case['regs']]
        news, partss, regs = [], [], []
        for sp in specs:
            n, p = expected_exposition(env, sp)
            news.append(n); partss.append(p)
        for sp in specs:
            regs.append(build_registry(env, sp)[0])
        nw = len(specs)                      # any number of writer threads (2 in the quick tier, 3 as well in thorough)
        who_all = list(range(1, nw + 1))
        faults = case.get('faults') or [None] * nw
        sched = Sched(nw)
        results = {w: None for w in who_all}
        done = {w: False for w in who_all}
        runs = {}
        initial_listing = env.listing()

        def body(who):
            run = Run(env, who, faults[who - 1], None, False)
            run.tmp_expected = '%s.%d.%d' % (env.target, real_os.getpid(), threading.current_thread().ident)
            runs[who] = run
            env.local.run = run
            try:
                exposition.write_to_textfile(env.target, regs[who - 1])
            except BaseException as e:   # noqa
                results[who] = e
            finally:
                env.local.run = None
                done[who] = True
                sched.back.release()

        with Patched(env):
            env.sched = sched
            threads = {}
            for who in who_all:
                t = threading.Thread(target=body, args=(who,), daemon=True)
                threads[who] = t
                t.start()
                if not sched.back.acquire(timeout=30):
                    raise lib.Infra('writer thread did not reach its first step')
            executed = []
            pending = list(case['schedule'])
            while not all(done.values()):
                who = None
                while pending:
                    w = int(pending.pop(0))
                    if not done[w]:
                        who = w
                        break
                if who is None:
                    who = next(w for w in who_all if not done[w])
                executed.append(who)
                sched.sems[who].release()
                if not sched.back.acquire(timeout=30):
                    raise lib.Infra('writer thread did not come back')
            for t in threads.values():
                t.join(timeout=10)
            env.sched = None
        tmpnames = {w: real_os.path.basename(runs[w].tmp_expected) for w in who_all}
        for rec in env.log:
            rec['tmp1'] = tmpnames[1] in rec['listing']
            rec['tmp2'] = tmpnames[2] in rec['listing']
        return {'old': old, 'news': news, 'parts': partss, 'log': env.log, 'results': results, 'runs': runs,
                'final_target': env.read(env.target), 'final_listing': env.listing(), 'initial_listing': initial_listing,
                'final_fs': {n: env.read(real_os.path.join(env.dir, n)) for n in env.listing()}, 'others': env.others,
                'target': env.target, 'tmpnames': tmpnames, 'executed': ''.join(map(str, executed)),
                'same_tmp': len(set(tmpnames.values())) < nw}
    finally:
        env.close()


def oracle_two(ctx, case, obs):
    old, news = obs['old'], obs['news']
    who_all = list(range(1, len(news) + 1))
    fails = 0

    def fail(sig, what):
        nonlocal fails
        fails += 1
        ctx.fail(sig, what + ' | scenario: ' + describe(case) + ' (executed order %s)' % obs['executed'], case)

    for i, st in enumerate(obs['log']):
        t = st['target']
        if t != old and t not in news:
            fail('C18:two-writers-partial', 'after step %d (writer %d: %s %s) a reader of the target sees %s — not the previous content and not '
                 'one of the %d complete expositions (%s)' % (i, st['who'], st['kind'], st['path'], show(t), len(news), ' / '.join(show(n) for n in news)))
            break
    faults = case.get('faults') or [None] * len(news)
    base = real_os.path.basename(obs['target'])
    for w in who_all:
        r, f = obs['results'][w], faults[w - 1]
        if f is None and r is not None:
            fail('C18:two-writers-raise', 'writer %d raised %r although no fault was injected' % (w, r))
        if f is not None and r is not obs['runs'][w].exc:
            fail('C18:exception-changed', 'writer %d: caller saw %r, not the injected exception' % (w, r))
    extra = [n for n in obs['final_listing'] if n not in obs['initial_listing'] and n != base]
    if extra and all(f is None or f['cls'] in EXC_CLASSES for f in faults):
        fail('C18:tmp-left', 'both calls are over and %s is left behind' % extra)
    ok_final = [n for n, f in zip(news, faults) if f is None]
    ft = obs['final_target']
    if ok_final and ft not in ok_final and not any(obs['results'][w] is not None and faults[w - 1] is None for w in who_all):
        fail('C18:two-writers-final', 'both calls are over and the target holds %s, not one of the installed expositions' % show(ft))
    if not ok_final and ft != old:
        fail('C18:target-changed-on-failure', 'both calls raised but the target changed to %s' % show(ft))
    return fails


def request_two(case, obs):
    faults = case.get('faults') or [None, None]
    fl = ['-' if not f else '%d,%s,%d,%d' % (f['pos'], f['cls'], f['ident'], f.get('part', 0)) for f in faults]
    fs0 = [(n, c) for n, c in sorted(obs['others'].items())]
    if obs['old'] is not None:
        fs0.append(('T', obs['old']))
    return 'c18 two %s %s %s %s %s %s %s %s %s' % (
        lib.hx('T'), lib.hx('T.1'), lib.enc_list([lib.xb(p) for p in obs['parts'][0]]),
        lib.hx('T.2'), lib.enc_list([lib.xb(p) for p in obs['parts'][1]]), fs_field(fs0), obs['executed'] or '.', fl[0], fl[1])


def compare_two(ctx, case, obs, reply):
    if obs['same_tmp']:
        ctx.diverge('the two writer threads used the same temporary name %s (the model assumes distinct names) | %s'
                    % (obs['tmpnames'][1], describe(case)), case)
        return
    rep = reply.split(' ')
    if rep[0] != 'ok' or len(rep) != 3:
        ctx.diverge('driver reply %r' % reply[:200], case)
        return
    ctx.traces += 1
    msteps = [] if rep[1] == '.' else [s.split(',') for s in rep[1].split(';')]
    real_seq = [(str(s['who']), s['kind'], s['path'], '1' if s['faulted'] else '0', xfield(s['target']),
                 '1' if s['tmp1'] else '0', '1' if s['tmp2'] else '0') for s in obs['log']]
    model_seq = [tuple(m[:7]) for m in msteps]
    if real_seq != model_seq:
        k = next((i for i, (a, b) in enumerate(zip(real_seq, model_seq)) if a != b), min(len(real_seq), len(model_seq)))
        ctx.diverge('two-writer trace differs at step %d: real %s, model %s | %s' % (
            k, [x[:40] for x in real_seq[k]] if k < len(real_seq) else None, [x[:40] for x in model_seq[k]] if k < len(model_seq) else None,
            describe(case)), case)
        return
    if any(m[7] != '1' for m in msteps):
        ctx.diverge('spec OldOrNew2 false on the model trace (theorem two_writers_never_partial) | %s' % describe(case), case)
    base = real_os.path.basename(obs['target'])

    def mname(n):
        return 'T' if n == base else 'T.1' if n == obs['tmpnames'][1] else 'T.2' if n == obs['tmpnames'][2] else n
    real_fs = sorted((mname(n), c if mname(n) not in ('T.1', 'T.2') else b'') for n, c in obs['final_fs'].items())
    mfs = []
    if rep[2] != '.':
        for e in rep[2].split(';'):
            p, c = e.split(',')
            nm = lib.unhx(p)
            mfs.append((nm, lib.unxb(c) if nm not in ('T.1', 'T.2') else b''))
    mfs.sort()
    if real_fs != mfs:
        ctx.diverge('two writers, final directory: real %s, model %s | %s' % (
            [(n, show(c)) for n, c in real_fs], [(n, show(c)) for n, c in mfs], describe(case)), case)


# ------------------------------------------------------------------------------------------------ SIGKILL
CHILD = r'''
import sys, os
sys.path.insert(0, sys.argv[1])
from prometheus_client import CollectorRegistry, Gauge, write_to_textfile
path = sys.argv[2]
regs = []
for k, n in ((0, int(sys.argv[3])), (1, int(sys.argv[4]))):
    r = CollectorRegistry()
    g = Gauge('pv_kill_%d' % k, 'h', ['k'], registry=r)
    for j in range(n):
        g.labels('v%d' % j).set(j + 0.5)
    regs.append(r)
sys.stdout.write('ready\n'); sys.stdout.flush()
i = 0
while True:
    write_to_textfile(path, regs[i % 2])
    i += 1
'''


def kill_trials(ctx, n_trials, sizes=(400, 3000)):
    """real processes killed with SIGKILL at random instants while a reader polls the target"""
    from prometheus_client import CollectorRegistry, Gauge, generate_latest
    exps = []
    for k, n in enumerate(sizes):
        r = CollectorRegistry()
        g = Gauge('pv_kill_%d' % k, 'h', ['k'], registry=r)
        for j in range(n):
            g.labels('v%d' % j).set(j + 0.5)
        exps.append(generate_latest(r))
    d = tempfile.mkdtemp(prefix='pv-c18k-')
    script = real_os.path.join(d, 'child.py')
    with real_open(script, 'w') as f:
        f.write(CHILD)
    reads = 0
    seen = {'old': 0, 'new0': 0, 'new1': 0}
    leftovers = 0
    try:
        for trial in range(n_trials):
            sub = tempfile.mkdtemp(prefix='t%d-' % trial, dir=d)
            target = real_os.path.join(sub, 'k.prom')
            old = None if trial % 3 == 0 else b'# previous complete content\nold_metric 1.0\n'
            if old is not None:
                with real_open(target, 'wb') as f:
                    f.write(old)
            p = subprocess.Popen([sys.executable, script, lib.REPO, target, str(sizes[0]), str(sizes[1])],
                                 stdout=subprocess.PIPE, stderr=subprocess.DEVNULL)
            try:
                p.stdout.readline()
                deadline = time.time() + ctx.rng.uniform(0.0005, 0.06)
                bad = None
                while True:
                    try:
                        with real_open(target, 'rb') as f:
                            c = f.read()
                    except FileNotFoundError:
                        c = None
                    reads += 1
                    if c == old: seen['old'] += 1
                    elif c == exps[0]: seen['new0'] += 1
                    elif c == exps[1]: seen['new1'] += 1
                    else:
                        bad = c
                        break
                    if time.time() >= deadline:
                        break
                real_os.kill(p.pid, signal.SIGKILL)
                p.wait()
                with_kill = None
                try:
                    with real_open(target, 'rb') as f:
                        with_kill = f.read()
                except FileNotFoundError:
                    pass
                reads += 1
                if bad is None and with_kill not in (old, exps[0], exps[1]):
                    bad = with_kill
                if bad is not None:
                    ctx.fail('C18:kill-partial', 'SIGKILL trial %d: a reader saw %s in the target — neither the previous content nor a complete exposition'
                             % (trial, show(bad)), {'kind': 'kill', 'trials': n_trials, 'sizes': list(sizes)})
                leftovers += len([n for n in real_os.listdir(sub) if n != 'k.prom'])
            finally:
                if p.poll() is None:
                    p.kill(); p.wait()
                p.stdout.close()
            ctx.case(None, None)
    finally:
        shutil.rmtree(d, ignore_errors=True)
    ctx.count('sigkill-trials', n_trials)
    ctx.count('sigkill-reader-polls', reads)
    ctx.extra['sigkill'] = {'trials': n_trials, 'reader_polls': reads, 'reader_saw': seen,
                            'temporary_files_left_by_kills (allowed: the call did not raise)': leftovers}


# ------------------------------------------------------------------------------------------------ fork: two PROCESSES
FORK_HELPER = r'''
import builtins, json, os, select, sys, threading
repo, target, n_parent, n_child = sys.argv[1], sys.argv[2], int(sys.argv[3]), int(sys.argv[4])
sys.path.insert(0, repo)
from prometheus_client import CollectorRegistry, Gauge, write_to_textfile      # the library is imported BEFORE the fork
import prometheus_client.exposition as exposition


def registry(tag, n):
    r = CollectorRegistry()
    g = Gauge('pv_fork_%s' % tag, 'h', ['k'], registry=r)
    for j in range(n):
        g.labels('v%d' % j).set(j + 0.5)
    return r


regs = {'parent': registry('parent', n_parent), 'child': registry('child', n_child)}
p2c_r, p2c_w = os.pipe()
c2p_r, c2p_w = os.pipe()
res_r, res_w = os.pipe()
pid = os.fork()
me = 'child' if pid == 0 else 'parent'
tell, hear = (c2p_w, p2c_r) if me == 'child' else (p2c_w, c2p_r)
real_open = builtins.open
seen = {'tmp': None, 'met': None}


def wrapped_open(p, mode='r', *a, **kw):
    f = real_open(p, mode, *a, **kw)
    try:
        name = os.path.abspath(os.fspath(p))
    except TypeError:
        return f
    if isinstance(mode, str) and 'w' in mode and name.startswith(os.path.abspath(target) + '.') and seen['tmp'] is None:
        seen['tmp'] = name
        os.write(tell, b'o')                          # "I have opened my temporary file"
        r, _, _ = select.select([hear], [], [], 5.0)  # barrier: wait until the other process has opened its own
        seen['met'] = bool(r)
        if r:
            os.read(hear, 1)
    return f


builtins.open = wrapped_open
err = None
try:
    write_to_textfile(target, regs[me])
except BaseException as e:      # noqa
    err = '%s: %s' % (type(e).__name__, e)
finally:
    builtins.open = real_open
out = {'who': me, 'pid': os.getpid(), 'tid': threading.current_thread().ident, 'main_thread': threading.current_thread() is threading.main_thread(),
       'tmp': seen['tmp'], 'overlapped': seen['met'], 'raised': err}
if me == 'child':
    os.write(res_w, json.dumps(out).encode())
    os._exit(0)
os.close(res_w)
os.waitpid(pid, 0)
child = json.loads(os.read(res_r, 65536).decode() or 'null')
sys.stdout.write(json.dumps({'parent': out, 'child': child}))
'''


def fork_trials(ctx, olds=(None, b'# previous complete content\nold_metric 1.0\n'), sizes=(40, 5)):
    """a process that has imported the library forks; parent and child — both on their main thread, so their thread idents
    are equal — call write_to_textfile on the SAME target with different registries, overlapping between open and rename"""
    from prometheus_client import CollectorRegistry, Gauge, generate_latest
    exps = {}
    for tag, n in zip(('parent', 'child'), sizes):
        r = CollectorRegistry()
        g = Gauge('pv_fork_%s' % tag, 'h', ['k'], registry=r)
        for j in range(n):
            g.labels('v%d' % j).set(j + 0.5)
        exps[tag] = generate_latest(r)
    d = tempfile.mkdtemp(prefix='pv-c18f-')
    obs_all = []
    try:
        script = real_os.path.join(d, 'fork_helper.py')
        with real_open(script, 'w') as f:
            f.write(FORK_HELPER)
        for ti, old in enumerate(olds):
            sub = real_os.path.join(d, 't%d' % ti)
            real_os.mkdir(sub)
            target = real_os.path.join(sub, 'fork.prom')
            if old is not None:
                with real_open(target, 'wb') as f:
                    f.write(old)
            case = {'kind': 'fork', 'sizes': list(sizes), 'old': None if old is None else old.hex()}
            try:
                p = subprocess.run([sys.executable, script, lib.REPO, target, str(sizes[0]), str(sizes[1])],
                                   stdout=subprocess.PIPE, stderr=subprocess.PIPE, timeout=30)
            except subprocess.TimeoutExpired:
                raise lib.Infra('fork helper timed out')
            try:
                res = json.loads(p.stdout.decode())
                par, chi = res['parent'], res['child']
            except Exception:
                raise lib.Infra('fork helper failed: rc=%s %s' % (p.returncode, p.stderr.decode('utf-8', 'replace')[-400:]))
            try:
                with real_open(target, 'rb') as f:
                    final = f.read()
            except FileNotFoundError:
                final = None
            left = sorted(n for n in real_os.listdir(sub) if n != 'fork.prom')
            scen = ('a process imports prometheus_client, then forks; parent (pid %s) and child (pid %s), both on their main thread (thread ident %s / %s), '
                    'call write_to_textfile on the same target (%s) with different registries, each pausing after open() until the other has opened too'
                    % (par['pid'], chi['pid'], par['tid'], chi['tid'], 'previously absent' if old is None else 'previously %d bytes' % len(old)))
            which = 'the parent\'s' if final == exps['parent'] else 'the child\'s' if final == exps['child'] else None
            summary = ('final target: %s; parent %s; child %s; left behind: %s' % (
                'complete (%s exposition)' % which if which else show(final) + ' — NOT one of the two complete expositions (%s / %s)'
                % (show(exps['parent']), show(exps['child'])),
                'raised ' + par['raised'] if par['raised'] else 'returned', 'raised ' + chi['raised'] if chi['raised'] else 'returned', left or 'nothing'))
            ctx.case(('fork', ti), None)
            ctx.count('fork-two-processes')
            obs_all.append({'previous_target': None if old is None else len(old), 'distinct_tmp_names': par['tmp'] != chi['tmp'],
                            'overlapped': [par['overlapped'], chi['overlapped']], 'final_target_is': which, 'raised': [par['raised'], chi['raised']],
                            'left_behind': left})
            if par['tmp'] is not None and par['tmp'] == chi['tmp']:
                ctx.fail('C18:tmp-shared-across-processes',
                         'two concurrently running PROCESSES used the same temporary file %s (the name is not "unique per concurrent writer": the pid in it is '
                         'not the live pid of the caller) — %s | scenario: %s' % (real_os.path.basename(par['tmp']), summary, scen), case)
            if which is None:
                ctx.fail('C18:fork-final-target', '%s | scenario: %s' % (summary, scen), case)
            if par['raised'] or chi['raised']:
                ctx.fail('C18:fork-raise', 'a call raised although no fault was injected — %s | scenario: %s' % (summary, scen), case)
            if left:
                ctx.fail('C18:tmp-left', 'both calls are over and %s is left behind — %s | scenario: %s' % (left, summary, scen), case)
    finally:
        shutil.rmtree(d, ignore_errors=True)
    ctx.extra['fork_two_processes'] = obs_all


# ------------------------------------------------------------------------------------------------ histories: identity changes AFTER writes
# A HISTORY is a list of operations on a tree of ACTORS (actor = one thread of one process; actor 1 = the main thread of a
# fresh process that has imported the library):
#     ['write', a, r]                     actor a calls write_to_textfile(target, registry r), uninterrupted
#     ['fork', a, b]                      actor a calls os.fork(); the child's (only) thread is actor b
#     ['thread', a, b]                    actor a starts a new thread, actor b
#     ['race', [[a, r], [b, r'], …], s]   the listed actors call write_to_textfile on the SAME target concurrently; the schedule s
#                                         (a string of actor digits) says whose next effect step runs, exactly like the two-thread runs
# Every actor — whichever process it lives in — parks before each instrumented effect step (same `Run.step` hook as the
# thread scheduler) and reports over a pipe; the harness grants one step at a time and snapshots target and directory itself.
HIST_HELPER = r'''
import json, os, select, sys, threading
harness, repo, root, ev_w = sys.argv[1], sys.argv[2], sys.argv[3], int(sys.argv[4])
cmd_r = [None] + [int(x) for x in sys.argv[5].split(',')]
specs = json.loads(sys.argv[6])
sys.path.insert(0, harness)
sys.path.insert(0, repo)
from props import c18
from prometheus_client import exposition        # the library is imported once, by the first process

O = c18.ORIG
env = c18.Env(None, attach=root)
regs = [c18.build_registry(env, [tuple(x) for x in sp])[0] for sp in specs]


def send(d):
    O['write'](ev_w, (json.dumps(d) + '\n').encode())


def read1(aid):
    r, _, _ = select.select([cmd_r[aid]], [], [], 40.0)
    b = os.read(cmd_r[aid], 1) if r else b''
    if not b:
        os._exit(3)                              # the harness went away
    return b


def readline(aid):
    out = b''
    while True:
        b = read1(aid)
        if b == b'\n':
            return out.decode()
        out += b


def last_step(run):
    if len(run.steps) > run.reported:
        run.reported = len(run.steps)
        s = run.steps[-1]
        return [s['kind'], s['path'], bool(s['faulted'])]
    return None


class PipeSched:
    def yield_point(self, who):
        send({'a': who, 'ev': 'park', 'done': last_step(env.run_of_thread())})
        read1(who)


env.sched = PipeSched()


def do_write(aid, r):
    run = c18.Run(env, aid, None, None, False)
    run.reported = 0
    env.local.run = run
    raised = None
    try:
        exposition.write_to_textfile(env.target, regs[r])
    except BaseException as e:      # noqa
        raised = e
    finally:
        env.local.run = None
    send({'a': aid, 'ev': 'end', 'done': last_step(run), 'raised': None if raised is None else '%s: %s' % (type(raised).__name__, raised),
          'named': sorted(run.named)})


def hello(aid):
    send({'a': aid, 'ev': 'hello', 'pid': os.getpid(), 'tid': threading.get_ident(),
          'main': threading.current_thread() is threading.main_thread()})


def actor(aid, is_process):
    hello(aid)
    children, threads = [], []
    while True:
        op = readline(aid).split()
        if op[0] == 'W':
            do_write(aid, int(op[1]))
        elif op[0] == 'F':
            pid = os.fork()
            if pid == 0:
                aid, is_process, children, threads = int(op[1]), True, [], []
                hello(aid)
                continue
            children.append(pid)
            send({'a': aid, 'ev': 'forked', 'child': pid})
        elif op[0] == 'T':
            t = threading.Thread(target=actor, args=(int(op[1]), False), daemon=True)
            threads.append(t)
            t.start()
            send({'a': aid, 'ev': 'spawned'})
        elif op[0] == 'X':
            break
    for t in threads:
        t.join(10)
    for pid in children:
        try:
            os.waitpid(pid, 0)
        except OSError:
            pass
    if is_process:
        os._exit(0)


with c18.Patched(env):
    actor(1, True)
'''

HARNESS_DIR = real_os.path.dirname(real_os.path.dirname(real_os.path.abspath(__file__)))


class HistDriver:
    """the harness end of the pipes of one history run"""

    def __init__(self, env, specs, nact, script):
        self.ev_r, ev_w = real_os.pipe()
        cmds = [real_os.pipe() for _ in range(nact)]
        self.cmd_w = [None] + [w for _, w in cmds]
        self.err = tempfile.TemporaryFile()
        child_fds = [ev_w] + [r for r, _ in cmds]
        try:
            self.p = subprocess.Popen([sys.executable, '-W', 'ignore', script, HARNESS_DIR, lib.REPO, env.root, str(ev_w), ','.join(str(r) for r, _ in cmds),
                                       json.dumps(specs)], pass_fds=child_fds, stdin=subprocess.DEVNULL, stdout=subprocess.DEVNULL,
                                      stderr=self.err, start_new_session=True)
        finally:
            for fd in child_fds:
                real_os.close(fd)
        self.buf = b''

    def send(self, a, data):
        real_os.write(self.cmd_w[a], data)

    def recv(self):
        import select
        while b'\n' not in self.buf:
            r, _, _ = select.select([self.ev_r], [], [], 30.0)
            chunk = real_os.read(self.ev_r, 65536) if r else b''
            if not chunk:
                self.err.seek(0)
                raise lib.Infra('history helper %s: %s' % ('timed out' if not r else 'died', self.err.read().decode('utf-8', 'replace')[-600:]))
            self.buf += chunk
        line, self.buf = self.buf.split(b'\n', 1)
        return json.loads(line.decode())

    def expect(self, wanted):
        """wait for one event of each (actor, kind) in `wanted`, in any order"""
        got = {}
        wanted = set(wanted)
        while wanted:
            ev = self.recv()
            k = (ev['a'], ev['ev'])
            if k not in wanted:
                raise lib.Infra('history helper: unexpected event %s (waiting for %s)' % (ev, sorted(wanted)))
            wanted.discard(k)
            got[k] = ev
        return got

    def close(self):
        try:
            try:
                self.p.wait(timeout=10)
            except subprocess.TimeoutExpired:
                pass
            try:
                real_os.killpg(self.p.pid, signal.SIGKILL)      # whatever is left of the process tree
            except OSError:
                pass
            self.p.wait()
        finally:
            for fd in [self.ev_r] + self.cmd_w[1:]:
                try:
                    real_os.close(fd)
                except OSError:
                    pass
            self.err.close()


def hist_actors(history):
    ids = {1}
    for op in history:
        if op[0] in ('fork', 'thread'):
            ids.add(op[2])
    return sorted(ids)


def run_history(case, script):
    old = unhex(case['old'])
    env = Env(old)
    drv = None
    try:
        specs = [[tuple(x) for x in r] for r in case['regs']]
        news, partss = [], []
        for sp in specs:
            n, p = expected_exposition(env, sp)
            news.append(n); partss.append(p)
        ids = hist_actors(case['history'])
        initial_listing = env.listing()
        drv = HistDriver(env, case['regs'], max(ids), script)
        actors = {1: drv.expect([(1, 'hello')])[(1, 'hello')]}
        actors[1]['origin'] = 'the main thread of a fresh process that has imported the library'
        blocks = []
        order = [1]
        for op in case['history']:
            if op[0] == 'fork':
                a, b = op[1], op[2]
                drv.send(a, b'F %d\n' % b)
                got = drv.expect([(a, 'forked'), (b, 'hello')])
                actors[b] = got[(b, 'hello')]
                actors[b]['origin'] = 'the only thread of the process forked by actor %d' % a
                order.append(b)
                continue
            if op[0] == 'thread':
                a, b = op[1], op[2]
                drv.send(a, b'T %d\n' % b)
                got = drv.expect([(a, 'spawned'), (b, 'hello')])
                actors[b] = got[(b, 'hello')]
                actors[b]['origin'] = 'a new thread started by actor %d' % a
                order.append(b)
                continue
            writers = [[op[1], op[2]]] if op[0] == 'write' else [list(w) for w in op[1]]
            pending = list(op[2]) if op[0] == 'race' else []
            blk = {'writers': writers, 'before': env.read(env.target), 'log': [], 'results': {}, 'named': {}, 'executed': ''}
            done = {}
            for a, r in writers:
                drv.send(a, b'W %d\n' % r)
                drv.expect([(a, 'park')])     # parked before its first effect step
                done[a] = False
            while not all(done.values()):
                who = None
                while pending:
                    w = int(pending.pop(0))
                    if w in done and not done[w]:
                        who = w
                        break
                if who is None:
                    who = next(a for a, _ in writers if not done[a])
                blk['executed'] += str(who)
                drv.send(who, b'g')
                ev = drv.recv()
                if ev['a'] != who or ev['ev'] not in ('park', 'end'):
                    raise lib.Infra('history helper: unexpected event %s while actor %d runs' % (ev, who))
                if ev.get('done'):
                    k, pc, fl = ev['done']
                    blk['log'].append({'who': who, 'kind': k, 'path': pc, 'faulted': fl, 'target': env.read(env.target), 'listing': env.listing()})
                if ev['ev'] == 'end':
                    done[who] = True
                    blk['results'][who] = ev['raised']
                    blk['named'][who] = ev['named']
                    blk['log'].append({'who': who, 'kind': 'return' if ev['raised'] is None else 'raise', 'path': '-', 'faulted': False,
                                       'target': env.read(env.target), 'listing': env.listing()})
            blk['after'] = env.read(env.target)
            blk['listing_after'] = env.listing()
            blocks.append(blk)
        for a in reversed(order):
            drv.send(a, b'X\n')
        return {'old': old, 'news': news, 'parts': partss, 'blocks': blocks, 'actors': actors, 'initial_listing': initial_listing,
                'target': env.target, 'others': env.others,
                'final_fs': {n: env.read(real_os.path.join(env.dir, n)) for n in env.listing()}}
    finally:
        if drv is not None:
            drv.close()
        env.close()


def describe_history(case, obs=None):
    def actor(a):
        if obs is None or a not in obs['actors']:
            return 'actor %d' % a
        i = obs['actors'][a]
        return 'actor %d (pid %s, thread ident %s)' % (a, i['pid'], i['tid'])
    out = ['actor 1 = the main thread of a fresh process that has imported prometheus_client; target previously %s'
           % ('absent' if case['old'] is None else '%d bytes' % (len(case['old']) // 2))]
    for op in case['history']:
        if op[0] == 'write':
            out.append('%s calls write_to_textfile(target, registry %d %s) and returns' % (actor(op[1]), op[2], case['regs'][op[2]]))
        elif op[0] == 'fork':
            out.append('actor %d calls os.fork(): the child is %s' % (op[1], actor(op[2])))
        elif op[0] == 'thread':
            out.append('actor %d starts a new thread: %s' % (op[1], actor(op[2])))
        else:
            out.append('%s call write_to_textfile on the same target concurrently, effect steps interleaved in the order %s'
                       % (' and '.join('%s (registry %d %s)' % (actor(a), r, case['regs'][r]) for a, r in op[1]), op[2] or '(first to last)'))
    return '; THEN '.join(out)


def mix_note(t, news):
    """says what a content that is nobody's complete exposition is made of (in-place overwrite of an installed file)"""
    if t is None:
        return ''
    for a, n in news.items():
        for b, m in news.items():
            if a != b and len(n) < len(t) == len(m) and t[:len(n)] == n and t[len(n):] == m[len(n):] and t != m:
                return (' [bytes 0–%d are actor %d\'s exposition, bytes %d–%d the tail of actor %d\'s: actor %d wrote IN PLACE into the file '
                        'actor %d had already renamed over the target]' % (len(n) - 1, a, len(n), len(t) - 1, b, a, b))
    return ''


def oracle_history(ctx, case, obs):
    """the property's own oracle on a history: at every observation point the target holds the previous content or exactly one
    writer's complete exposition; concurrently active writers use distinct temporary names; nobody raises (no fault is injected),
    and a raising call would have to leave the target unchanged; nothing is left behind"""
    fails = 0
    base = real_os.path.basename(obs['target'])
    story = describe_history(case, obs)

    def fail(sig, what):
        nonlocal fails
        fails += 1
        ctx.fail(sig, what + ' | history: ' + story, case)

    def trace(blk, upto):
        return ' → '.join('%d:%s%s' % (s['who'], s['kind'], '' if s['path'] == '-' else '(' + s['path'] + ')') for s in blk['log'][:upto + 1])

    for bi, blk in enumerate(obs['blocks']):
        news = {a: obs['news'][r] for a, r in blk['writers']}
        allowed = [blk['before']] + list(news.values())
        tmpn = {a: [n for n in blk['named'].get(a, []) if n.startswith(base + '.')] for a, _ in blk['writers']}
        span = {}
        for i, s in enumerate(blk['log']):
            span.setdefault(s['who'], [i, i])[1] = i
        shared = [(a, b, sorted(set(tmpn[a]) & set(tmpn[b]))) for a, _ in blk['writers'] for b, _ in blk['writers']
                  if a < b and set(tmpn[a]) & set(tmpn[b]) and a in span and b in span and span[a][0] <= span[b][1] and span[b][0] <= span[a][1]]
        names = '; '.join('actor %d wrote through the temporary name %s' % (a, ' / '.join(tmpn[a]) or '(none)') for a, _ in blk['writers'])
        for i, s in enumerate(blk['log']):
            if s['target'] not in allowed:
                fail('C18:history-partial-target',
                     'operation %d of the history: after step %d (actor %d: %s %s) a reader of the target sees %s%s — neither the content before these calls (%s) '
                     'nor one writer\'s complete exposition (%s). Steps so far: %s. %s. Outcomes: %s'
                     % (bi_op(case, bi), i, s['who'], s['kind'], s['path'], show(s['target']), mix_note(s['target'], news), show(blk['before']),
                        ' / '.join('actor %d: %s' % (a, show(n)) for a, n in news.items()), trace(blk, i), names,
                        ', '.join('actor %d %s' % (a, 'returned' if r is None else 'raised ' + r) for a, r in sorted(blk['results'].items()))))
                break
        for a, b, common in shared:
            fail('C18:history-tmp-shared', 'operation %d of the history: the concurrently active writers actor %d (pid %s, thread ident %s) and actor %d (pid %s, thread ident %s) '
                 'both use the temporary file %s — the name is not unique per concurrent writer (it does not reflect the CURRENT pid/thread of the caller)'
                 % (bi_op(case, bi), a, obs['actors'][a]['pid'], obs['actors'][a]['tid'], b, obs['actors'][b]['pid'], obs['actors'][b]['tid'], common))
        for a, r in sorted(blk['results'].items()):
            if r is not None:
                at = next((s for s in blk['log'] if s['who'] == a and s['kind'] == 'raise'), None)
                fail('C18:history-raise', 'operation %d of the history: actor %d\'s call raised %s although no fault was injected; when it raised the target held %s '
                     '(before the calls: %s). Steps: %s. %s' % (bi_op(case, bi), a, r, show(at['target']) if at else '?', show(blk['before']),
                                                                trace(blk, len(blk['log'])), names))
        returned = [news[a] for a, r in blk['results'].items() if r is None]
        if len(returned) == len(blk['writers']) and blk['after'] not in returned:
            fail('C18:history-final', 'operation %d of the history: all calls returned but the target holds %s, not one of the installed expositions'
                 % (bi_op(case, bi), show(blk['after'])))
        extra = [n for n in blk['listing_after'] if n not in obs['initial_listing'] and n != base]
        if extra:
            fail('C18:tmp-left', 'operation %d of the history: the calls are over and %s is left behind' % (bi_op(case, bi), extra))
    for n, c in obs['others'].items():
        if obs['final_fs'].get(n) != c:
            fail('C18:other-file-touched', 'unrelated file %s changed' % n)
    return fails


def bi_op(case, bi):
    """index (1-based) in the history of the bi-th write/race operation"""
    k = -1
    for i, op in enumerate(case['history']):
        if op[0] in ('write', 'race'):
            k += 1
            if k == bi:
                return i + 1
    return 0


def history_model_requests(case, obs):
    """every two-writer race block as a `c18 two` request (model: two effect lists with DISTINCT temporary names T.1/T.2)"""
    out = []
    for blk in obs['blocks']:
        if len(blk['writers']) != 2 or any(r is not None for r in blk['results'].values()):
            continue
        (a, ra), (b, rb) = blk['writers']
        base = real_os.path.basename(obs['target'])
        ta = [n for n in blk['named'].get(a, []) if n.startswith(base + '.')]
        tb = [n for n in blk['named'].get(b, []) if n.startswith(base + '.')]
        if len(ta) != 1 or len(tb) != 1:
            continue
        idx = {a: 1, b: 2}
        log = [dict(s, who=idx[s['who']], tmp1=ta[0] in s['listing'], tmp2=tb[0] in s['listing']) for s in blk['log'] if s['kind'] not in ('return', 'raise')]
        final_fs = {n: (obs['final_fs'].get(n) if n != base else blk['after']) for n in blk['listing_after']}
        o2 = {'old': blk['before'], 'parts': [obs['parts'][ra], obs['parts'][rb]], 'others': obs['others'], 'log': log, 'target': obs['target'],
              'tmpnames': {1: ta[0], 2: tb[0]}, 'same_tmp': ta[0] == tb[0], 'final_fs': final_fs,
              'executed': ''.join(str(idx[int(c)]) for c in blk['executed'])}
        c2 = {'kind': 'two', 'regs': [case['regs'][ra], case['regs'][rb]], 'old': None if blk['before'] is None else blk['before'].hex(),
              'schedule': o2['executed'], 'faults': [None, None], 'from_history': case}
        out.append((c2, o2))
    return out


HR_SMALL, HR_BIG, HR_MID = [[1, 0]], [[3, 5], [2, 1]], [[2, 3]]


def nested(outer, inner, k, n_outer=6, n_inner=6):
    """outer performs k steps, then inner its whole call, then outer the rest"""
    return str(outer) * k + str(inner) * (n_inner + 2) + str(outer) * (n_outer + 2)


def hist_cases(ctx, wide):
    """corpus first: the process identity changes AFTER earlier successful writes"""
    rng = ctx.rng
    regs = [HR_SMALL, HR_BIG, HR_MID]
    old = OLDS[1].hex()

    def case(history, o=old):
        return {'kind': 'hist', 'regs': regs, 'old': o, 'history': history}
    # write; fork; parent and child race — the child's whole call inside the parent's, cut after the parent's open / its collector
    yield case([['write', 1, 0], ['fork', 1, 2], ['race', [[1, 0], [2, 1]], nested(1, 2, 1)]])
    yield case([['write', 1, 1], ['fork', 1, 2], ['race', [[1, 1], [2, 0]], nested(2, 1, 2)]], None)
    # … grandchild: the child has written too before it forks
    yield case([['write', 1, 0], ['fork', 1, 2], ['write', 2, 2], ['fork', 2, 3], ['race', [[2, 0], [3, 1]], nested(2, 3, 1)],
                ['race', [[1, 0], [2, 2], [3, 1]], '123' + nested(1, 3, 1)]])
    # a thread that has written forks: the child's only thread inherits that thread's ident
    yield case([['thread', 1, 2], ['write', 2, 0], ['fork', 2, 3], ['race', [[2, 0], [3, 1]], nested(2, 3, 1)]])
    # thread created BEFORE the fork (and written), one created AFTER it in the child; everybody races
    yield case([['write', 1, 0], ['thread', 1, 2], ['write', 2, 2], ['fork', 1, 3], ['thread', 3, 4],
                ['race', [[1, 0], [2, 2], [3, 1], [4, 1]], '1234' + nested(1, 3, 0) + nested(2, 4, 1)]])
    # control: fork BEFORE any write; and sequential, non-overlapping calls after the fork
    yield case([['fork', 1, 2], ['race', [[1, 0], [2, 1]], nested(1, 2, 1)]])
    yield case([['write', 1, 0], ['fork', 1, 2], ['write', 2, 1], ['write', 1, 0], ['write', 2, 2]])
    n = 120 if ctx.tier == 'thorough' else 10 if wide else 3
    for j in range(n):
        # random history: a chain of forks / threads with writes in between, then one or two races with nested or random schedules
        hist, alive, nxt = [], [1], 2
        wrote = set()
        for _ in range(rng.randrange(2, 6)):
            a = rng.choice(alive)
            k = rng.randrange(4)
            if k == 0 or (k == 1 and a in wrote):
                hist.append(['write', a, rng.randrange(3)]); wrote.add(a)
            elif k in (1, 2) and nxt <= 5:
                hist.append(['write', a, rng.randrange(3)]); wrote.add(a)
                hist.append(['fork', a, nxt]); alive.append(nxt); nxt += 1
            elif nxt <= 5:
                hist.append(['thread', a, nxt]); alive.append(nxt); nxt += 1
        if len(alive) < 2:
            hist.append(['write', 1, 0]); hist.append(['fork', 1, nxt]); alive.append(nxt)
        for _ in range(rng.randrange(1, 3)):
            ws = rng.sample(alive, min(len(alive), rng.randrange(2, 4)))
            wr = [[a, rng.randrange(3)] for a in ws]
            if rng.random() < 0.6:
                sch = nested(ws[0], ws[1], rng.randrange(0, 6))
            else:
                sch = [str(a) for a in ws for _ in range(8)]
                rng.shuffle(sch)
                sch = ''.join(sch)
            hist.append(['race', wr, sch])
        yield case(hist, rng.choice([None, old]))


def hist_trials(ctx, cases, deadline=None):
    d = tempfile.mkdtemp(prefix='pv-c18h-')
    reqs, pend = [], []
    try:
        script = real_os.path.join(d, 'hist_helper.py')
        with real_open(script, 'w') as f:
            f.write(HIST_HELPER)
        for case in cases:
            if deadline is not None and time.time() > deadline:
                ctx.count('cases-not-run-for-lack-of-time')
                continue
            obs = run_history(case, script)
            oracle_history(ctx, case, obs)
            kinds = [op[0] for op in case['history']]
            shape = ('write-before-fork' if 'fork' in kinds and 'write' in kinds[:kinds.index('fork')] else 'fork-before-write' if 'fork' in kinds else 'threads-only')
            ctx.case(('hist', json.dumps(case['history']), case['old']),
                     {'history': describe_history(case, None), 'executed': [b['executed'] for b in obs['blocks']],
                      'trace of the last operation': [(s['who'], s['kind'], s['path']) for s in obs['blocks'][-1]['log']] if obs['blocks'] else []})
            ctx.count('history:' + shape)
            ctx.count('history:actors=%d' % len(obs['actors']))
            for c2, o2 in history_model_requests(case, obs):
                reqs.append(request_two(c2, o2))
                pend.append((c2, o2))
    finally:
        shutil.rmtree(d, ignore_errors=True)
    replies = ctx.driver.run(reqs) if reqs else []
    if replies is None:
        return
    for (c2, o2), rep in zip(pend, replies):
        ctx.count('history:two-writer race compared with the model')
        compare_two(ctx, c2, o2, rep)


# ------------------------------------------------------------------------------------------------ case generation
STALE = b'stale temporary file of an earlier, killed call\n'
REGS_QUICK = [
    [],                                   # empty registry -> empty exposition
    [(1, 0)],
    [(2, 3), (1, 0)],
    [(1, 0), (3, 5), (2, 1)],
    [(120, 40), (60, 10), (40, 0)],       # ~11 kB: larger than the buffered writer's 8 kB buffer, so the real write is direct
]
OLDS = [None, b'# HELP previous complete content\nprevious_metric 42.0\n', b'']


def cut_variants(rng, nbytes):
    out = [None, ([], True), ([], False)]
    if nbytes >= 2:
        a = rng.randrange(1, nbytes)
        out.append(([(a, True)], False))
        out.append(([(a, False)], True))
        b = rng.randrange(0, nbytes - a + 1)
        out.append(([(a, bool(rng.getrandbits(1))), (b, bool(rng.getrandbits(1)))], bool(rng.getrandbits(1))))
    else:
        out.append(([(0, True)], False))
    if nbytes > 9000:
        out.append(([(4096, True), (4096, True), (500, False)], False))
    return out


def single_cases(ctx, regs, wide):
    rng = ctx.rng
    ident = 0
    for reg in regs:
        env = Env(None)
        try:
            nbytes = len(expected_exposition(env, [tuple(x) for x in reg])[0])
        finally:
            env.close()
        for oi, old in enumerate(OLDS):
            for vi, cv in enumerate(cut_variants(rng, nbytes)):
                cuts, lf = (None, False) if cv is None else cv
                base = {'kind': 'single', 'reg': [list(x) for x in reg], 'old': None if old is None else old.hex(),
                        'cuts': None if cuts is None else [list(c) for c in cuts], 'last_flush': lf}
                yield dict(base, fault=None)
                if vi == 1:
                    base = dict(base, stale=True)
                    yield dict(base, fault=None)
                if oi == 1 and vi == 0:
                    yield dict(base, fault=None, osname='nt')
                blen = body_len(base)
                for pos in range(blen):
                    classes = EXC_CLASSES if (wide or (oi == 1 and vi in (0, 3))) else [EXC_CLASSES[(pos + oi + vi) % len(EXC_CLASSES)]]
                    for cls in classes:
                        for part in ((0, 1) if pos == 0 else (0, 1, 7) if (cuts is not None and pos > len(reg) + 1) else (0,)):
                            ident += 1
                            yield dict(base, fault={'pos': pos, 'cls': cls, 'ident': ident, 'part': part})
                    if vi in (0, 3) and oi != 2:
                        ident += 1
                        yield dict(base, fault={'pos': pos, 'cls': BASE_CLASSES[(pos + oi) % 3], 'ident': ident, 'part': 0})
                    if oi == 1 and vi == 0:
                        ident += 1
                        yield dict(base, fault={'pos': pos, 'cls': 'OSError', 'ident': ident, 'part': 0}, osname='nt')
                # SHORT WRITE at every write step and at the close (whichever reaches the raw file first cuts it)
                npc = n_pieces(cuts)
                for pos in range(len(reg) + 2, len(reg) + 2 + npc + 1):
                    ident += 1
                    yield dict(base, fault={'pos': pos, 'cls': 'short', 'ident': ident,
                                            'part': 1 if (pos + oi) % 2 else max(1, nbytes // 2)})
                # the target named relatively: bare file name, ./name, sub/name (the call runs with cwd inside the scratch tree)
                if vi == 0:
                    for pi, pf in enumerate(('bare', 'dot', 'sub')):
                        pbase = dict(base, pathform=pf)
                        yield dict(pbase, fault=None)
                        for pos in range(blen):
                            ident += 1
                            yield dict(pbase, fault={'pos': pos, 'cls': EXC_CLASSES[(pos + pi) % len(EXC_CLASSES)], 'ident': ident, 'part': 0})
                # a natural encoding error from each collector (lone surrogate in a label value)
                if vi in (0, 1) and oi < 2:
                    for i in range(len(reg)):
                        if reg[i][0] > 0:
                            ident += 1
                            yield dict(base, fault={'pos': 1 + len(reg), 'cls': 'UnicodeEncodeError', 'ident': ident, 'part': 0,
                                                    'natural': True, 'surrogate_in': i})


def two_cases(ctx, wide):
    rng = ctx.rng
    regs_a, regs_b = [[3, 2]], [[1, 0]]   # one collector each, different lengths: open, collect, encode, write, close, rename
    old = OLDS[1].hex()
    for combo in itertools.combinations(range(12), 6):
        s = ['2'] * 12
        for i in combo:
            s[i] = '1'
        yield {'kind': 'two', 'regs': [regs_a, regs_b], 'old': old, 'schedule': ''.join(s), 'faults': [None, None]}
    # no previous target, longer registries, random schedules; one writer faulted
    n = 150 if wide else 40
    for j in range(n):
        ra = [[rng.randrange(1, 4), rng.randrange(0, 4)] for _ in range(rng.randrange(0, 3))]
        rb = [[rng.randrange(1, 4), rng.randrange(0, 4)] for _ in range(rng.randrange(0, 3))]
        la, lb = len(ra) + 5, len(rb) + 5
        sch = ['1'] * la + ['2'] * lb
        rng.shuffle(sch)
        faults = [None, None]
        if j % 2 == 1:
            w = rng.randrange(2)
            faults[w] = {'pos': rng.randrange((la, lb)[w]), 'cls': rng.choice(EXC_CLASSES), 'ident': 900 + j, 'part': 0}
            sch += ['1', '2'] * 3
        yield {'kind': 'two', 'regs': [ra, rb], 'old': rng.choice([None, old]), 'schedule': ''.join(sch), 'faults': faults}


# ------------------------------------------------------------------------------------------------ entry points
def three_cases(ctx, n=400):
    """three writer threads of one process on one target, random schedules; every third case has one faulted writer"""
    rng = ctx.rng
    old = OLDS[1].hex()
    for j in range(n):
        regs = [[[rng.randrange(1, 5), rng.randrange(0, 4)] for _ in range(rng.randrange(0, 3))] for _ in range(3)]
        lens = [len(r) + 5 for r in regs]
        sch = [str(w + 1) for w in range(3) for _ in range(lens[w])]
        rng.shuffle(sch)
        faults = [None, None, None]
        if j % 3 == 2:
            w = rng.randrange(3)
            faults[w] = {'pos': rng.randrange(lens[w]), 'cls': rng.choice(EXC_CLASSES), 'ident': 7000 + j, 'part': 0}
            sch += ['1', '2', '3'] * 3
        yield {'kind': 'two', 'regs': regs, 'old': rng.choice([None, old]), 'schedule': ''.join(sch), 'faults': faults}


def eval_cases(ctx, cases, deadline=None):
    reqs, pend = [], []
    extras = []

    def with_extras():
        yield from cases
        while extras:
            yield extras.pop(0)
    for case in with_extras():
        if deadline is not None and time.time() > deadline:
            ctx.count('cases-not-run-for-lack-of-time')
            continue
        if case['kind'] == 'single':
            obs = run_single(case)
            oracle_single(ctx, case, obs)
            f = case.get('fault')
            key = ('single', str(case['reg']), case['old'], str(case['cuts']), case.get('last_flush'), case.get('osname'), case.get('stale'), case.get('pathform'),
                   None if not f else (f['pos'], f['cls'], f.get('part', 0), bool(f.get('natural'))))
            nontrivial = f is not None or case['old'] is not None or case['cuts'] is not None
            ctx.case(key if nontrivial else None,
                     {'scenario': describe(case), 'trace': [(s['kind'], s['path'], s['faulted']) for s in obs['steps']],
                      'outcome': 'returned' if obs['raised'] is None else 'raised ' + type(obs['raised']).__name__,
                      'final_listing': [n.replace(str(real_os.getpid()), '<pid>') for n in obs['final_listing']]})
            ctx.count('single:' + ('no-fault' if not f else 'short-write' if f['cls'] == 'short' else 'fault:' + f['cls'] + (':natural' if f.get('natural') else '')))
            if f:
                fs = [s for s in obs['steps'] if s['faulted']]
                if fs:
                    ctx.count('fault-at:' + fs[0]['kind'].rstrip('0123456789'))
            if case.get('pathform'):
                ctx.count('target-path:' + case['pathform'])
            if f and f['cls'] == 'short':
                ctx.count('short-write:' + ('cut a raw write' if obs['fired'] else 'no raw write in that step'))
            # the call has MORE effects than the modelled body (e.g. something after the rename): they are fault positions too
            if f is None and obs['raised'] is None and len(obs['steps']) > body_len(case) and len(extras) < 400 and not case.get('_extra'):
                for pos in range(body_len(case), len(obs['steps'])):
                    for cls in ('OSError', 'RuntimeError'):
                        extras.append(dict(case, _extra=True, fault={'pos': pos, 'cls': cls, 'ident': 5000 + len(extras), 'part': 0}))
                ctx.count('calls-with-more-effects-than-the-modelled-body')
            ctx.count('old:' + ('absent' if case['old'] is None else 'empty' if case['old'] == '' else 'present'))
            ctx.count('write:' + ('passthrough' if case['cuts'] is None else '%d-pieces' % (len(case['cuts']) + 1)))
            reqs.append(request_single(case, obs))
        else:
            obs = run_two(case)
            oracle_two(ctx, case, obs)
            ctx.case(('two', str(case['regs']), case['old'], obs['executed'], str(case.get('faults'))),
                     {'scenario': describe(case), 'executed': obs['executed'],
                      'trace': [(s['who'], s['kind'], s['path']) for s in obs['log']]} if case['schedule'].startswith('1212112') else None)
            if len(case['regs']) != 2:
                # three and more writers: the oracle on the real code only (the model side is the theorem writers_never_partial)
                ctx.count('%d-writers' % len(case['regs']) + ('' if not any(case.get('faults') or []) else ':one-faulted'))
                continue
            ctx.count('two-writers' + ('' if not any(case.get('faults') or []) else ':one-faulted'))
            reqs.append(request_two(case, obs))
        pend.append((case, obs))
    replies = ctx.driver.run(reqs)
    if replies is None:
        return
    for (case, obs), rep in zip(pend, replies):
        if case['kind'] == 'single':
            compare_single(ctx, case, obs, rep)
        else:
            compare_two(ctx, case, obs, rep)


def check_skeleton(ctx):
    """the compiled generated skeleton as the driver sees it — recorded in the evidence"""
    rep = ctx.driver.run(['c18 skeleton'])
    if rep:
        ctx.extra['compiled_skeleton'] = rep[0]


def run(ctx):
    ctx.rule = ('single calls: registries of 0,1,2,3 small collectors and one ~11 kB registry × previous target absent / present / present-and-empty × '
                'f.write passed through to the real buffered writer or split into 1–4 pieces with every flush-at-write / flush-at-close choice × '
                '(no fault | one fault at EVERY step: open, each collector, each piece, close, rename; Exception classes rotated, all five on a subset; '
                'partial work 0/1/7 bytes; natural UnicodeEncodeError from a lone surrogate; BaseException classes for the documented limit F16; '
                "os.name='nt' branch on a subset); every step is a cut point with a reader snapshot. Two writers: ALL C(12,6)=924 interleavings of two "
                '6-step calls, plus random schedules of longer calls with one writer faulted. A case is non-trivial when it has a fault, a previous '
                'target or a split write. Two PROCESSES: a helper that has imported the library forks, parent and child (equal thread idents) write the '
                'same target overlapping between open and rename (temporary names must differ). HISTORIES in which the identity of the caller changes AFTER earlier '
                'successful writes: write; os.fork() / new thread (also from a thread, also grandchildren, threads created before and after the fork); then 2–4 of '
                'these actors write the same target, every effect step of every process parked and granted by the harness (nested schedules: one whole call '
                'inside another after k steps; random schedules), target and directory snapshotted after each step. Distinct by (registry, previous target, split, fault position/class/part) resp. (registries, executed order).')
    wide = bool(ctx.broken) or ctx.tier == 'thorough'
    regs = list(REGS_QUICK)
    if wide:
        regs = regs[:4] + [[(1, 0)] * 6, [(2, 2), (0, 0), (5, 1), (1, 9)]] + regs[4:]
    if ctx.tier == 'thorough':
        regs.append([(2000, 20)])
    check_skeleton(ctx)
    quick = ctx.tier != 'thorough'
    t_start = time.time()
    ctx.extra['phase_s'] = {'extract+lake build+axiom audit (includes waiting for the shared build lock)': round(t_start - ctx.t0, 1)}
    eval_cases(ctx, single_cases(ctx, regs, wide and not quick), time.time() + (15 if ctx.broken else 20) if quick else None)
    eval_cases(ctx, two_cases(ctx, wide), time.time() + (10 if ctx.broken else 20) if quick else None)
    if not quick:
        eval_cases(ctx, three_cases(ctx))
    ctx.extra['two_writer_interleavings_of_two_6_step_calls_run'] = '%d of 924' % min(924, ctx.dist.get('two-writers', 0))
    ctx.extra['exhaustive_parts'] = ('unless `cases-not-run-for-lack-of-time` appears in the distribution: ''all fault positions of every listed single-call scenario; all 924 interleavings of two 6-step calls '
                                     '(the space of registries and contents itself is unbounded and is covered by the theorems, not enumerated)')
    t_mid = time.time()
    fork_trials(ctx)
    t_fork0 = time.time()
    hist_trials(ctx, hist_cases(ctx, wide), time.time() + 12 if quick else None)
    ctx.extra['phase_s']['histories: writes, then fork/thread, then interleaved writers in several processes'] = round(time.time() - t_fork0, 1)
    t_fork = time.time()
    kill_trials(ctx, 150 if ctx.tier == 'thorough' else 3)
    ctx.extra['phase_s']['real code + model driver, single calls and two writers'] = round(t_mid - t_start, 1)
    ctx.extra['phase_s']['two forked processes on one target'] = round(t_fork0 - t_mid, 1)
    ctx.extra['phase_s']['SIGKILL trials'] = round(time.time() - t_fork, 1)
    ctx.extra.setdefault('documented_limits', {})
    flush_deferred(ctx)


def flush_deferred(ctx):
    for sig, what, case in ctx.extra.pop('_deferred', []):
        ctx.fail(sig, what, case)


def replay(ctx, case):
    c = case.get('case', {})
    print('REPLAY', describe(c) if c.get('kind') in ('single', 'two', 'hist') else c)
    if c.get('kind') == 'fork':
        fork_trials(ctx, olds=(unhex(c.get('old')),), sizes=tuple(c.get('sizes', (40, 5))))
    elif c.get('kind') == 'hist':
        hist_trials(ctx, [c])
    elif c.get('kind') == 'kill':
        kill_trials(ctx, max(50, int(c.get('trials', 50))), tuple(c.get('sizes', (400, 3000))))
    else:
        eval_cases(ctx, [c])
    flush_deferred(ctx)
    for f in ctx.failures:
        print('REPLAY-FAIL', f['sig'], f['what'])
    for f in ctx.divergences:
        print('REPLAY-DIVERGE', f['what'])
    return 1 if ctx.failures or ctx.divergences else 0
