"""C03 — text exposition parses back to exactly the exposed series.

Real code: registries are built from declarative specs (instrumentation classes, every *MetricFamily helper through a
custom collector, raw Metric + add_sample), exposed with exposition.generate_latest and parsed back with
parser.text_string_to_metric_families.

Oracle on the real code (written from the property text, independent of the Lean model):
  * the parsed samples, flattened, are the exposed samples in exposition order (per family: the samples that are not
    family+_created/_gsum/_gcount in their order, then those, grouped per suffix in sorted suffix order): same name,
    same label dict, numerically the same value (NaN = NaN), time stamp to the millisecond (int(float(ts)*1000)/1000);
  * families: counter -> name without the `_total` put on the wire, type counter; info -> name_info, gauge;
    stateset -> gauge; gaugehistogram -> histogram; unknown -> (untyped ->) unknown; gauge/summary/histogram unchanged;
    _created/_gsum/_gcount samples -> trailing gauge families named family+suffix with the same help; help equal up to
    surrounding white space; a family without samples is still a family.  Compared for the longest prefix of
    "regular" families (sample names within the type's suffix set); skipped when two adjacent families share a wire name
    (the property tolerates their merge).
T2: `expo text` of the driver must give the same bytes, `c03 parse` the same families (or error class), on the real
exposition text and on a malformed stream (mutated expositions, grammar documents, noise).

Two further dimensions of every registry spec:
  * "unusual but legal Python types": a string the application supplies (label value, `le`, Info value, state, help; label
    name / custom-collector metric name where the exposition quotes it) may be an instance of a `str` SUBCLASS whose
    `__str__`, `__format__` and `__repr__` differ from its character data (str-mixin Enum member, masking string, tagged
    string; alphanumeric data as well as data needing escapes).  In a spec such a string is `{'sub': kind, 's': data}`.
    The reference is the character data of whatever string the collected Sample / Metric carries (`chardata`): that is what
    "the exposed series" are; the driver request encodes the character data too.
  * `spec['created']` — the process-wide created-series switch (`disable_created_metrics()` / `enable_created_metrics()`) in
    effect at scrape time (collect + generate_latest).  The switch only stops the instrumentation classes from producing
    `_created`; a custom collector that still yields `_created` samples must get them split into the trailing gauge family
    whatever the switch says (the property's mapping does not depend on it).

Signatures: C03:name-trailing-newline (F2 class: a legacy-looking metric, sample or label name ending in '\\n'),
C03:label-name-unvalidated:<source> (a label name the library itself would reject reached the exposition through a
path that does not validate it), else C03:<what differs>.
"""
import itertools
import math
import re
import time

import corecheck
import famcodec
import lib
from props import c14text

# ------------------------------------------------------------------------------------------------- alphabets
ADV = ['\\', '"', '\n', '\r', ',', '=', '{', '}', '#', ' ', '\t', '\xa0', ' ', 'é', '\U0001F600', 'a', 'n', '_', ':', '1']
HOT = ['\\', '"', '\n', 'n', ' ']
EXH = ['\\', '"', '\n', 'n', ',', ' ', '}', 'a']
TRICKY = ['\\', '\\\\', '\\"', '"', '\\n', '\n', 'a\\', '\\\\"', '\\\\\\"', '\\\\\\\\"', '}', '{', ',', '="', '" ', ' # ', '# HELP a b',
          '"}', '",', '\\n\\', 'n\\\\n', '\r\n', ' ', '\xa0', '\\\n', '\n\\', '""', 'a="b"', '{a="b"} 1', '\\x', "'", '\x1c', '\x85']
LEGACY_NAMES = ['m', 'x_y', 'a:b', '_u', 'A9', 'ns_sub_name', 'http_requests', 'x_total', 'y_created', 'z_info', 'q_sum', ':c',
                'w_count', 'v_bucket', 'g_gsum', 'HELP', 'TYPE', 'nan', 'inf', 'le', '__dunder']
LEGACY_LABELS = ['l', 'a_1', 'L', '_x', 'job', 'instance', 'code', 'le', 'quantile', 'name', 'x9']
LEG_METRIC = re.compile(r'[a-zA-Z_:][a-zA-Z0-9_:]*')          # the documented legacy alphabets (used with fullmatch /
LEG_LABEL = re.compile(r'[a-zA-Z_][a-zA-Z0-9_]*')               # with a trailing '\n' for the F2 class)
TYPES = ['counter', 'gauge', 'summary', 'histogram', 'gaugehistogram', 'unknown', 'info', 'stateset']
HELPERS = ['CounterMetricFamily', 'GaugeMetricFamily', 'SummaryMetricFamily', 'HistogramMetricFamily',
           'GaugeHistogramMetricFamily', 'InfoMetricFamily', 'StateSetMetricFamily', 'UnknownMetricFamily']
CLASSES = ['Counter', 'Gauge', 'Summary', 'Histogram', 'Info', 'Enum']

# the documented mapping, from the property text: exposed type -> (suffix of the family name on the wire, parsed type,
# suffix of the parsed family name)
MAPPING = {
    'counter': ('_total', 'counter', ''),
    'gauge': ('', 'gauge', ''),
    'summary': ('', 'summary', ''),
    'histogram': ('', 'histogram', ''),
    'gaugehistogram': ('', 'histogram', ''),
    'info': ('_info', 'gauge', '_info'),
    'stateset': ('', 'gauge', ''),
    'unknown': ('', 'unknown', ''),
}
TRAILING = ('_created', '_gsum', '_gcount')
MAIN_SUFFIXES = {'counter': ['_total'], 'gauge': [''], 'summary': ['', '_count', '_sum'], 'histogram': ['_bucket', '_count', '_sum'],
                 'gaugehistogram': ['_bucket'], 'info': ['_info'], 'stateset': [''], 'unknown': ['']}
TRAILING_OK = {'counter': ['_created'], 'summary': ['_created'], 'histogram': ['_created'], 'gaugehistogram': ['_gcount', '_gsum']}


# ------------------------------------------------------------------------------------------------- spec -> registry
def num(v):
    if 'i' in v:
        return int(v['i'])
    return lib.from_bits(int(v['b']))


def tsval(t):
    from prometheus_client.samples import Timestamp
    if t is None:
        return None
    if 'i' in t:
        return int(t['i'])
    if 'f' in t:
        return lib.from_bits(int(t['f']))
    return Timestamp(t['s'][0], t['s'][1])


class _Coll:
    """a custom collector (no describe(): the registry does not inspect it)"""

    def __init__(self, metrics):
        self._metrics = metrics

    def collect(self):
        return list(self._metrics)


def build_class(reg, f):
    import prometheus_client as pc
    cls = f['src'].split(':')[1]
    kw = {}
    if cls == 'Histogram' and f.get('buckets') is not None:
        kw['buckets'] = [num(b) for b in f['buckets']]
    if cls == 'Enum':
        kw['states'] = list(f.get('states') or [])
    m = getattr(pc, cls)(f['name'], f['help'], list(f['labelnames']), registry=reg, **kw)
    for ch in f['children']:
        c = m.labels(*ch['lv']) if f['labelnames'] else m
        if cls == 'Counter':
            for v in ch.get('inc', []):
                c.inc(num(v))
        elif cls == 'Gauge':
            if ch.get('set') is not None:
                c.set(num(ch['set']))
        elif cls in ('Summary', 'Histogram'):
            for v in ch.get('obs', []):
                c.observe(num(v))
        elif cls == 'Info':
            if ch.get('info') is not None:
                c.info(dict((k, v) for k, v in ch['info']))
        elif cls == 'Enum':
            if ch.get('state') is not None:
                c.state(ch['state'])


def build_helper(f):
    from prometheus_client import metrics_core as mc
    cls = f['src'].split(':')[1]
    K = getattr(mc, cls)
    adds = f['adds']
    if f.get('direct'):
        a = adds[0]
        if cls == 'CounterMetricFamily':
            return K(f['name'], f['help'], value=num(a['value']), created=None if a.get('created') is None else num(a['created']))
        if cls in ('GaugeMetricFamily', 'UnknownMetricFamily'):
            return K(f['name'], f['help'], value=num(a['value']))
        if cls == 'SummaryMetricFamily':
            return K(f['name'], f['help'], count_value=num(a['count']), sum_value=num(a['sum']))
        if cls == 'HistogramMetricFamily':
            return K(f['name'], f['help'], buckets=[(le, num(v)) for le, v in a['buckets']],
                     sum_value=None if a.get('sum') is None else num(a['sum']))
        if cls == 'GaugeHistogramMetricFamily':
            return K(f['name'], f['help'], buckets=[(le, num(v)) for le, v in a['buckets']], gsum_value=num(a['gsum']))
        if cls == 'InfoMetricFamily':
            return K(f['name'], f['help'], value=dict((k, v) for k, v in a['value']))
        if cls == 'StateSetMetricFamily':
            return K(f['name'], f['help'], value=dict((k, bool(v)) for k, v in a['value']))
    m = K(f['name'], f['help'], labels=list(f['labels']))
    for a in adds:
        ts = tsval(a.get('ts'))
        if cls == 'CounterMetricFamily':
            m.add_metric(a['lv'], num(a['value']), created=None if a.get('created') is None else num(a['created']), timestamp=ts)
        elif cls in ('GaugeMetricFamily', 'UnknownMetricFamily'):
            m.add_metric(a['lv'], num(a['value']), timestamp=ts)
        elif cls == 'SummaryMetricFamily':
            m.add_metric(a['lv'], num(a['count']), num(a['sum']), timestamp=ts)
        elif cls == 'HistogramMetricFamily':
            m.add_metric(a['lv'], [(le, num(v)) for le, v in a['buckets']], None if a.get('sum') is None else num(a['sum']),
                         timestamp=ts)
        elif cls == 'GaugeHistogramMetricFamily':
            m.add_metric(a['lv'], [(le, num(v)) for le, v in a['buckets']], num(a['gsum']), timestamp=ts)
        elif cls == 'InfoMetricFamily':
            m.add_metric(a['lv'], dict((k, v) for k, v in a['value']), timestamp=ts)
        elif cls == 'StateSetMetricFamily':
            m.add_metric(a['lv'], dict((k, bool(v)) for k, v in a['value']), timestamp=ts)
    return m


def build_raw(f):
    from prometheus_client.metrics_core import Metric
    m = Metric(f['name'], f['help'], f['type'], f.get('unit', ''))
    for s in f['samples']:
        m.add_sample(s['name'], dict((k, v) for k, v in s['labels']), num(s['value']), tsval(s.get('ts')))
    return m


# ---- str subclasses whose __str__/__format__/__repr__ differ from their character data
SUB_KINDS = ['enum', 'mask', 'tag']


class MaskedStr(str):
    """a secret-masking string: prints as stars, is the real text"""

    def __str__(self):
        return '***'

    def __format__(self, fmt):
        return '***'

    def __repr__(self):
        return '<masked>'


class TaggedStr(str):
    """a markup string: str()/format() add a tag (with characters that need escaping) around the data"""

    def __str__(self):
        return 'tag:"' + str.__str__(self) + '"'

    def __format__(self, fmt):
        return '<b>' + str.__str__(self) + '</b>\\'

    def __repr__(self):
        return 'TaggedStr()'


def make_sub(kind, data):
    if kind == 'enum':
        import enum
        return enum.Enum('Color', {'MEMBER': data}, type=str).MEMBER      # str(x) == format(x) == 'Color.MEMBER', x == data
    if kind == 'mask':
        return MaskedStr(data)
    if kind == 'tag':
        return TaggedStr(data)
    raise ValueError('unknown str subclass kind %r' % (kind,))


def is_sub(x):
    return isinstance(x, dict) and set(x) == {'sub', 's'}


def realise(x):
    """a spec with every {'sub': kind, 's': data} replaced by the str-subclass instance"""
    if is_sub(x):
        return make_sub(x['sub'], x['s'])
    if isinstance(x, dict):
        return {k: realise(v) for k, v in x.items()}
    if isinstance(x, list):
        return [realise(v) for v in x]
    return x


def data_of(x):
    """character data of a spec string (plain or marked)"""
    return x['s'] if is_sub(x) else x


def chardata(x):
    """the character data of a str (of any subclass) as an exact str — what `str.__str__` of the base class yields"""
    return str.__str__(x) if isinstance(x, str) and type(x) is not str else x


def plain_metrics(metrics):
    """copies of the collected families with every application string reduced to its character data"""
    import copy
    out = []
    for m in metrics:
        if (type(m.name) is str and type(m.documentation) is str and
                all(type(s.name) is str and all(type(k) is str and type(v) is str for k, v in s.labels.items()) for s in m.samples)):
            out.append(m)
            continue
        m2 = copy.copy(m)
        m2.name = chardata(m.name)
        m2.documentation = chardata(m.documentation)
        m2.samples = [s._replace(name=chardata(s.name), labels={chardata(k): chardata(v) for k, v in s.labels.items()}) for s in m.samples]
        out.append(m2)
    return out


class created_switch:
    """the created-series switch in the state the spec asks for (None: leave it), restored afterwards"""

    def __init__(self, want):
        self.want = want

    def __enter__(self):
        from prometheus_client import metrics as M
        self.was = bool(M._use_created)
        if self.want is not None:
            (M.enable_created_metrics if self.want else M.disable_created_metrics)()

    def __exit__(self, *a):
        from prometheus_client import metrics as M
        (M.enable_created_metrics if self.was else M.disable_created_metrics)()
        return False


def build(spec):
    from prometheus_client import CollectorRegistry
    reg = CollectorRegistry()
    for f in realise(spec['families']):
        src = f['src']
        if src.startswith('class:'):
            build_class(reg, f)
        elif src.startswith('helper:'):
            reg.register(_Coll([build_helper(f)]))
        else:
            reg.register(_Coll([build_raw(f)]))
    return reg


# ------------------------------------------------------------------------------------------------- the oracle
def exposition_order(m):
    """(samples that stay with the family, [(suffix, samples)] of the trailing gauges in sorted suffix order)"""
    main, trailing = [], {}
    for s in m.samples:
        for suf in TRAILING:
            if s.name == m.name + suf:
                trailing.setdefault(suf, []).append(s)
                break
        else:
            main.append(s)
    return main, [(suf, trailing[suf]) for suf in sorted(trailing)]


def is_regular(m):
    ok = {m.name + s for s in MAIN_SUFFIXES[m.type]} | {m.name + s for s in TRAILING_OK.get(m.type, [])}
    return all(s.name in ok for s in m.samples)


def expected_families(metrics):
    """documented families for the longest regular prefix: [(wire name, parsed name, parsed type, help stripped,
    number of samples)], all_regular"""
    out = []
    for m in metrics:
        if not is_regular(m):
            return out, False
        wsuf, ptype, psuf = MAPPING[m.type]
        main, trailing = exposition_order(m)
        out.append((m.name + wsuf, m.name + psuf, ptype, m.documentation.strip(), len(main)))
        for suf, ss in trailing:
            out.append((m.name + suf, m.name + suf, 'gauge', m.documentation.strip(), len(ss)))
    return out, True


def wire_names(metrics):
    """family names as written on the HELP/TYPE lines, in order, for every family (regular or not)"""
    out = []
    for m in metrics:
        out.append(m.name + MAPPING[m.type][0])
        out += [m.name + suf for suf, _ in exposition_order(m)[1]]
    return out


def same_value(a, b):
    try:
        fa, fb = float(a), float(b)
    except (TypeError, ValueError, OverflowError):
        return False
    if fa == 0 and fb == 0:
        return math.copysign(1.0, fa) == math.copysign(1.0, fb)      # -0.0 and +0.0 are different values
    return (fa != fa and fb != fb) or fa == fb


def expected_ts(ts):
    if ts is None:
        return None
    return int(float(ts) * 1000) / 1000


def independent_ms(ts):
    """the exposed timestamp in milliseconds as an exact rational, computed WITHOUT the library's expression
    `int(float(ts) * 1000)`: ints (ts * 1000), Timestamp objects (sec * 1000 + signed nsec / 10**6), floats whose repr has at
    most three fractional digits (Decimal(repr) * 1000).  None where no exact independent value is available."""
    from decimal import Decimal
    from fractions import Fraction
    from prometheus_client.samples import Timestamp
    if ts is None or isinstance(ts, bool):
        return None
    if isinstance(ts, int):
        ms = Fraction(ts) * 1000
    elif isinstance(ts, Timestamp):
        ms = Fraction(ts.sec) * 1000 + Fraction(ts.nsec, 10 ** 6)
    elif isinstance(ts, float):
        if ts != ts or ts in (math.inf, -math.inf):
            return None
        r = repr(ts)
        if 'e' in r or 'E' in r or len(r.partition('.')[2]) > 3:
            return None
        ms = Fraction(Decimal(r)) * 1000
    else:
        return None
    return ms if abs(ms) < 2 ** 46 else None      # beyond that a double cannot hold the instant to a fraction of a ms


def independent_ts_ok(ts, parsed):
    """"to the millisecond", judged against the independent value: the parsed timestamp (seconds) lies less than one
    millisecond from the exposed instant and is a whole number of milliseconds away from zero in the same direction
    (the exposition truncates, so 1.001 s may legitimately come back as 1.0 s, never as 1.002 s or 1001 s)"""
    from fractions import Fraction
    ms = independent_ms(ts)
    if ms is None:
        return None
    if parsed is None or isinstance(parsed, bool) or not isinstance(parsed, (int, float)) or parsed != parsed:
        return False
    got = Fraction(parsed) * 1000
    eps = max(Fraction(1, 10 ** 6), abs(ms) / 2 ** 50)      # representation error of the parsed double (and of a float input)
    d = (ms - got) if ms >= 0 else (got - ms)      # how far the parsed instant lies towards zero from the exposed one
    return -eps <= d <= 1 + eps


def same_ts(parsed, exp):
    if parsed is None or exp is None:
        return parsed is None and exp is None
    if isinstance(parsed, bool) or not isinstance(parsed, (int, float)):
        return False
    return float(parsed) == exp


def skey(name, labels, value, ts):
    v = float(value)
    return (name, tuple(sorted(labels.items())), 'nan' if v != v else repr(v), ts)


def f2_names(metrics):
    """legacy-looking names ending in a newline that the library itself still classifies as legacy names, i.e. writes bare
    (F2 class; once the patterns end in \\Z this finds nothing)"""
    from prometheus_client import validation as V
    hits = []
    for m in metrics:
        cands = [('metric', m.name)] + [('sample', s.name) for s in m.samples]
        for kind, x in cands:
            if x.endswith('\n') and LEG_METRIC.fullmatch(x[:-1]) and V._is_valid_legacy_metric_name(x):
                hits.append((kind, x))
        for s in m.samples:
            for k in s.labels:
                if k.endswith('\n') and LEG_LABEL.fullmatch(k[:-1]) and V._is_valid_legacy_labelname(k):
                    hits.append(('label', k))
    return hits


def bad_label_source(spec, metrics, legacy):
    """source kind of the first family carrying a label name the library's own rule rejects (reserved `__` prefix;
    outside the legacy alphabet under legacy validation)"""
    for f, m in zip(spec['families'], metrics) if len(spec['families']) == len(metrics) else []:
        for s in m.samples:
            for k in s.labels:
                if k.startswith('__') or (legacy and not LEG_LABEL.fullmatch(k)):
                    return f['src']
    for m in metrics:
        for s in m.samples:
            for k in s.labels:
                if k.startswith('__') or (legacy and not LEG_LABEL.fullmatch(k)):
                    return 'unknown-source'
    return None


def is_bad_label(k, legacy):
    return k.startswith('__') or (legacy and not LEG_LABEL.fullmatch(k))


def rename_bad_labels(metrics, legacy):
    """copies of the families with every label name the library's own rule rejects replaced by a benign legacy name
    (everything else — names, values, label values, time stamps, order — kept)"""
    import copy
    used = {k for m in metrics for s in m.samples for k in s.labels}
    ren = {}
    out = []
    for m in metrics:
        m2 = copy.copy(m)
        m2.samples = []
        for s in m.samples:
            labels = {}
            for k, v in s.labels.items():
                if is_bad_label(k, legacy):
                    if k not in ren:
                        i = len(ren)
                        while 'zzl%d' % i in used:
                            i += 1000
                        ren[k] = 'zzl%d' % i
                        used.add(ren[k])
                    k = ren[k]
                labels[k] = v
            m2.samples.append(s._replace(labels=labels))
        out.append(m2)
    return out, ren


def f20_is_cause(metrics, legacy):
    """counterfactual: with the rejected label names replaced by benign ones the same registry must pass the whole
    oracle; only then is the rejected label name the cause of the failure.  -> (bool, failures of the renamed registry)"""
    from prometheus_client import CollectorRegistry, exposition
    from prometheus_client import validation as V
    renamed, ren = rename_bad_labels(metrics, legacy)
    if not ren:
        return False, []
    legacy0 = V.get_legacy_validation()
    c14text.set_legacy(V, legacy)
    try:
        reg = CollectorRegistry(auto_describe=False)
        reg.register(_Coll(renamed))
        try:
            text = exposition.generate_latest(reg).decode('utf-8')
        except Exception as e:  # noqa
            return False, [('expose-raises-' + type(e).__name__, 'after renaming the rejected label names generate_latest raised %s' % type(e).__name__)]
    finally:
        c14text.set_legacy(V, legacy0)
    outcome = c14text.real_parse(text, legacy, limit=5.0)
    rest = [(c, w) for c, w in oracle(renamed, outcome) if not c.startswith('~')]
    return (not rest), rest


def show_sample(name, labels, value, ts):
    return '%r %r %r ts=%r' % (name, dict(labels), value, ts)


def oracle(metrics, outcome):
    """-> list of (class, what) — the property's requirements on the real parse of the real exposition"""
    if outcome[0] == 'timeout':
        return [('parse-timeout', 'parsing the exposition did not finish within the watchdog')]
    if outcome[0] == 'err':
        return [('parse-raises-' + outcome[1], 'parsing the exposition raised %s (in %s); expected the exposed families' % (outcome[1], outcome[2]))]
    parsed = outcome[1]
    fails = []
    exposed = []
    for m in metrics:
        main, trailing = exposition_order(m)
        exposed += main
        for _, ss in trailing:
            exposed += ss
    got = [s for f in parsed for s in f.samples]
    if len(got) != len(exposed):
        fails.append(('sample-mismatch', 'exposed %d samples, parsed %d: exposed %s / parsed %s' % (
            len(exposed), len(got), [s.name for s in exposed][:8], [s.name for s in got][:8])))
    else:
        for i, (e, g) in enumerate(zip(exposed, got)):
            ets = expected_ts(e.timestamp)
            what = 'sample #%d: exposed %s, parsed %s' % (i, show_sample(e.name, e.labels, e.value, ets),
                                                           show_sample(g.name, g.labels, g.value, g.timestamp))
            if g.name != e.name:
                try:
                    perm = sorted(skey(s.name, s.labels, s.value, expected_ts(s.timestamp)) for s in exposed) == \
                        sorted(skey(s.name, s.labels, s.value, s.timestamp) for s in got)
                except Exception:  # noqa
                    perm = False
                fails.append(('order' if perm else 'sample-mismatch', what))
                break
            if dict(g.labels) != dict(e.labels):
                fails.append(('labels', what))
                break
            if not same_value(g.value, e.value):
                fails.append(('value', what))
                break
            if not same_ts(g.timestamp, ets):
                fails.append(('timestamp', what))
                break
            if independent_ts_ok(e.timestamp, g.timestamp) is False:
                fails.append(('timestamp-independent', what + ' — independently computed instant: %s ms' % independent_ms(e.timestamp)))
                break
    exp, all_regular = expected_families(metrics)
    wires = wire_names(metrics)
    if any(wires[i] == wires[i + 1] for i in range(len(wires) - 1)):
        # two consecutive blocks with one written name are read as one family (tolerated by the property; the
        # flattened-sample comparison above still applies)
        return fails + [('~merge', '')]
    fails.append(('~full' if all_regular else '~prefix%d' % min(len(exp), 3), ''))
    if len(parsed) < len(exp) or (all_regular and len(parsed) != len(exp)):
        fails.append(('family-count', 'expected %s%d families %s, parsed %d: %s' % (
            '' if all_regular else 'at least ', len(exp), [(e[1], e[2]) for e in exp][:8], len(parsed), [(f.name, f.type) for f in parsed][:8])))
        return fails
    for (wire, pname, ptype, phelp, n), f in zip(exp, parsed):
        if f.name != pname:
            fails.append(('family-name', 'family written as %r parsed with name %r, documented mapping gives %r' % (wire, f.name, pname)))
            break
        if f.type != ptype:
            fails.append(('family-type', 'family %r parsed with type %r, documented mapping gives %r' % (pname, f.type, ptype)))
            break
        if f.documentation.strip() != phelp:
            fails.append(('family-help', 'family %r parsed with help %r, exposed help %r' % (pname, f.documentation, phelp)))
            break
        if len(f.samples) != n:
            fails.append(('family-grouping', 'family %r parsed with %d samples, exposed with %d' % (pname, len(f.samples), n)))
            break
    return fails


def evaluate(spec):
    """build, expose, parse, judge.  Pure (no ctx).  -> dict"""
    from prometheus_client import exposition
    from prometheus_client import validation as V
    legacy = bool(spec['legacy'])
    legacy0 = V.get_legacy_validation()
    c14text.set_legacy(V, legacy)
    sw = created_switch(spec.get('created'))
    sw.__enter__()
    try:
        try:
            reg = build(spec)
        except (ValueError, TypeError, KeyError, IndexError, AttributeError, OverflowError) as e:
            return {'skip': type(e).__name__}
        metrics = plain_metrics(reg.collect())
        # outside "expressible through the public API": a sample name that Metric() itself rejects under the active
        # validation can only come from Metric.add_sample, which validates nothing (the parser rebuilds such a sample
        # as a family of its own through Metric() and must raise ValueError)
        for m in metrics:
            for smp in m.samples:
                try:
                    V._validate_metric_name(smp.name)
                except ValueError:
                    return {'skip': 'sample-name-rejected-by-Metric'}
        try:
            text = exposition.generate_latest(reg).decode('utf-8')
        except Exception as e:  # noqa
            return {'metrics': metrics, 'text': None, 'fails': [
                ('C03:expose-raises-' + type(e).__name__, 'generate_latest raised %s: %s' % (type(e).__name__, str(e)[:200]))]}
    finally:
        sw.__exit__()
        c14text.set_legacy(V, legacy0)
    outcome = c14text.real_parse(text, legacy, limit=5.0)
    raw = oracle(metrics, outcome)
    famlevel = [c[1:] for c, _ in raw if c.startswith('~')]
    raw = [(c, w) for c, w in raw if not c.startswith('~')]
    fails = []
    if raw:
        f2 = f2_names(metrics)
        bad = None if f2 else bad_label_source(spec, metrics, legacy)
        cause, rest = f20_is_cause(metrics, legacy) if bad else (False, [])
        if f2:
            for c, w in raw:
                fails.append(('C03:name-trailing-newline', '%s; the input has the %s name %r (matches the legacy pattern because `$` '
                              'accepts a final newline) — %s' % (c, f2[0][0], f2[0][1], w)))
        elif bad and cause:
            # the known finding, confirmed by the counterfactual: the same registry with benign label names round-trips
            for c, w in raw:
                fails.append(('C03:label-name-unvalidated:' + bad, '%s; a label name the library rejects elsewhere was exposed without '
                              'validation (with that name replaced by a benign one the registry round-trips) — %s' % (c, w)))
        elif bad:
            # a rejected label name is present but NOT the (only) cause: report what still fails without it
            for c, w in rest:
                fails.append(('C03:' + c, 'persists after replacing the rejected label names by benign ones — %s' % w))
        else:
            for c, w in raw:
                fails.append(('C03:' + c, w))
    return {'metrics': metrics, 'text': text, 'outcome': outcome, 'fails': fails, 'famlevel': famlevel[0] if famlevel else 'not-reached'}


# ------------------------------------------------------------------------------------------------- generators
def adv_text(rng, maxlen=12):
    n = rng.choice([0, 1, 1, 2, 2, 3, 3, 4, 5, 6, 8, maxlen])
    return ''.join(rng.choice(ADV if rng.random() < 0.65 else HOT) for _ in range(n))


def gen_lvalue(rng):
    r = rng.random()
    if r < 0.45:
        return adv_text(rng)
    if r < 0.65:
        return rng.choice(TRICKY)
    if r < 0.75:
        return ''
    if r < 0.85:
        return rng.choice(TRICKY) + rng.choice(TRICKY)
    return rng.choice(['v', 'x y', '200', 'GET', '/path?q=1', 'é', '+Inf', '0.5'])


def gen_help(rng):
    r = rng.random()
    if r < 0.4:
        return adv_text(rng, 16)
    if r < 0.6:
        return rng.choice(TRICKY)
    if r < 0.7:
        return ''
    return rng.choice(['help', 'Some help text.', ' leading', 'trailing ', 'two  spaces', 'multi\nline', 'back\\slash', 'q"uote"',
                       'é \U0001F600', '\xa0x\xa0', '# TYPE a counter', '"a b" c'])


def gen_name(rng, legacy, idx, adversarial=None):
    if adversarial is None:
        adversarial = rng.random() < (0.03 if legacy else 0.4)     # under legacy validation the constructors reject these
    if not adversarial:
        base = rng.choice(LEGACY_NAMES)
        return 'f%d_%s' % (idx, base) if rng.random() < 0.85 else base
    t = adv_text(rng, 8) or rng.choice(ADV)
    return ('f%d' % idx) + t if rng.random() < 0.7 else t


def gen_labelnames(rng, legacy, k, exclude=()):
    out = []
    tries = 0
    while len(out) < k and tries < 40:
        tries += 1
        if legacy or rng.random() < 0.6:
            n = rng.choice(LEGACY_LABELS)
        else:
            n = adv_text(rng, 6)
            if n.startswith('__'):
                continue
        if n in out or n in exclude:
            continue
        out.append(n)
    return out


VALUE_CLASSES = ['zero', 'negzero', 'one', 'int-small', 'int-neg', 'int-big', 'int-huge', 'float', 'float-neg', 'frac', 'go-exp',
                 'big-float', 'tiny', '+inf', '-inf', 'nan', 'bits']


def gen_value(rng, nonneg=False):
    """-> (class, spec)"""
    c = rng.choice(VALUE_CLASSES)
    if nonneg and c in ('negzero', 'int-neg', 'float-neg', '-inf', 'bits'):
        c = rng.choice(['one', 'float', 'int-big', '+inf', 'nan', 'zero'])

    def fb(x):
        return {'b': lib.bits_of(x)}
    if c == 'zero':
        return c, fb(0.0)
    if c == 'negzero':
        return c, fb(-0.0)
    if c == 'one':
        return c, rng.choice([{'i': 1}, fb(1.0)])
    if c == 'int-small':
        return c, {'i': rng.randrange(0, 100000)}
    if c == 'int-neg':
        return c, {'i': -rng.randrange(1, 10 ** 9)}
    if c == 'int-big':
        return c, {'i': 2 ** 53 + rng.choice([1, 3, 2 ** 20 + 1, rng.randrange(1, 2 ** 53)])}
    if c == 'int-huge':
        return c, {'i': rng.randrange(2 ** 64, 2 ** 900)}
    if c == 'float':
        return c, fb(rng.uniform(0, 1000))
    if c == 'float-neg':
        return c, fb(-rng.uniform(0, 1e6))
    if c == 'frac':
        return c, fb(rng.choice([0.1, 1 / 3, 0.30000000000000004, 1e-7, 123456.789]))
    if c == 'go-exp':
        return c, fb(rng.choice([1e6, 1234567.0, 1.5e10, 1e15, 1e16, 1e21, 1e22, 9999999.999, 1.7907391110223694e9]))
    if c == 'big-float':
        return c, fb(rng.choice([1.5e300, 1.7976931348623157e308, 2.0 ** 70]))
    if c == 'tiny':
        return c, fb(rng.choice([5e-324, 2.2250738585072014e-308, 1e-300]))
    if c == '+inf':
        return c, fb(math.inf)
    if c == '-inf':
        return c, fb(-math.inf)
    if c == 'nan':
        return c, fb(math.nan)
    x = lib.from_bits(rng.getrandbits(64))
    return c, fb(x)


TS_CLASSES = ['none'] * 10 + ['int', 'int-neg', 'zero', 'float-frac-ms', 'float-neg', 'float-now', 'float-huge', 'stamp', 'stamp-neg', 'bits']


def gen_ts(rng):
    c = rng.choice(TS_CLASSES)
    if c == 'none':
        return c, None
    if c == 'int':
        return c, {'i': rng.choice([1, 1500, 1700000000, rng.randrange(0, 2 ** 40)])}
    if c == 'int-neg':
        return c, {'i': -rng.randrange(1, 10 ** 10)}
    if c == 'zero':
        return c, rng.choice([{'i': 0}, {'f': lib.bits_of(0.0)}, {'f': lib.bits_of(-0.0)}])
    if c == 'float-frac-ms':
        return c, {'f': lib.bits_of(rng.choice([1.0005, 1234.5678, 0.0005, 0.0015, 1.0015, 2.675, 1e-9, 1700000000.1234567]))}
    if c == 'float-neg':
        return c, {'f': lib.bits_of(-rng.choice([1.5, 0.0005, 1234.5678, 1e9 + 0.25]))}
    if c == 'float-now':
        return c, {'f': lib.bits_of(1.7e9 + rng.random() * 1e8)}
    if c == 'float-huge':
        return c, {'f': lib.bits_of(rng.choice([1e300, 2.0 ** 60, 1e18 + 0.5]))}
    if c == 'stamp':
        return c, {'s': [rng.randrange(0, 2 ** 33), rng.choice([0, 1, 500000, 999999999, rng.randrange(0, 10 ** 9)])]}
    if c == 'stamp-neg':
        return c, {'s': [-rng.randrange(1, 10 ** 6), rng.choice([0, 500000000, 999999999])]}
    x = lib.from_bits(rng.getrandbits(64))
    if x != x or abs(x) > 1e300:
        x = 12.5
    return c, {'f': lib.bits_of(x)}


def gen_class_family(rng, legacy, idx, note):
    cls = rng.choice(CLASSES)
    name = gen_name(rng, legacy, idx)
    k = rng.choice([0, 0, 1, 1, 2, 3])
    lnames = gen_labelnames(rng, legacy, k, exclude=('le', 'quantile', name))
    f = {'src': 'class:' + cls, 'name': name, 'help': gen_help(rng), 'labelnames': lnames, 'children': []}
    if cls == 'Histogram' and rng.random() < 0.5:
        bs = sorted(set(rng.choice([-1.0, 0.0, 0.5, 1.0, 2.5, 1e6, 1e21]) for _ in range(3)))
        f['buckets'] = [{'b': lib.bits_of(b)} for b in bs]
    if cls == 'Enum':
        f['states'] = list(dict.fromkeys(gen_lvalue(rng) for _ in range(rng.choice([1, 2, 3]))))
    nch = 1 if not lnames else rng.choice([0, 1, 1, 2, 3, 4])
    seen = set()
    for _ in range(nch):
        lv = [gen_lvalue(rng) for _ in lnames]
        if tuple(lv) in seen:
            continue
        seen.add(tuple(lv))
        ch = {'lv': lv}
        if cls == 'Counter':
            ch['inc'] = []
            for _ in range(rng.choice([0, 1, 2])):
                vc, v = gen_value(rng, nonneg=True)
                note('value:' + vc)
                ch['inc'].append(v)
        elif cls == 'Gauge':
            if rng.random() < 0.85:
                vc, v = gen_value(rng)
                note('value:' + vc)
                ch['set'] = v
        elif cls in ('Summary', 'Histogram'):
            ch['obs'] = []
            for _ in range(rng.choice([0, 1, 3])):
                vc, v = gen_value(rng)
                note('value:' + vc)
                ch['obs'].append(v)
        elif cls == 'Info':
            if rng.random() < 0.85:
                keys = gen_labelnames(rng, legacy, rng.choice([0, 1, 2]), exclude=lnames)
                ch['info'] = [[kk, gen_lvalue(rng)] for kk in keys]
        elif cls == 'Enum':
            if rng.random() < 0.7:
                ch['state'] = rng.choice(f['states'])
        f['children'].append(ch)
        for x in lv:
            note('lvlen:%s' % (len(x) if len(x) < 4 else '4+'))
    return f


def gen_buckets(rng, note):
    les = rng.choice([['+Inf'], ['1.0', '+Inf'], ['0.5', '2.5', '+Inf'], ['-1.0', '1.0', '+Inf'], ['1e+06', '+Inf'], ['0.0', gen_lvalue(rng), '+Inf']])
    out = []
    for le in les:
        vc, v = gen_value(rng)
        note('value:' + vc)
        out.append([le, v])
    return out


def gen_helper_family(rng, legacy, idx, note, cls=None):
    cls = cls or rng.choice(HELPERS)
    name = gen_name(rng, legacy, idx)
    k = rng.choice([0, 0, 1, 1, 2, 3])
    lnames = gen_labelnames(rng, legacy, k, exclude=('le', name))
    f = {'src': 'helper:' + cls, 'name': name, 'help': gen_help(rng), 'labels': lnames, 'adds': []}
    nadd = rng.choice([0, 1, 1, 2, 3]) if lnames else rng.choice([0, 1, 1])
    seen = set()
    for _ in range(nadd):
        lv = [gen_lvalue(rng) for _ in lnames]
        if tuple(lv) in seen:
            continue
        seen.add(tuple(lv))
        tc, ts = gen_ts(rng)
        note('ts:' + tc)
        a = {'lv': lv, 'ts': ts}
        for x in lv:
            note('lvlen:%s' % (len(x) if len(x) < 4 else '4+'))

        def val():
            vc, v = gen_value(rng)
            note('value:' + vc)
            return v
        if cls == 'CounterMetricFamily':
            a['value'] = val()
            a['created'] = val() if rng.random() < 0.5 else None
        elif cls in ('GaugeMetricFamily', 'UnknownMetricFamily'):
            a['value'] = val()
        elif cls == 'SummaryMetricFamily':
            a['count'], a['sum'] = val(), val()
        elif cls == 'HistogramMetricFamily':
            a['buckets'] = gen_buckets(rng, note)
            a['sum'] = val() if rng.random() < 0.7 else None
        elif cls == 'GaugeHistogramMetricFamily':
            a['buckets'] = gen_buckets(rng, note)
            a['gsum'] = val()
        elif cls == 'InfoMetricFamily':
            keys = gen_labelnames(rng, legacy, rng.choice([0, 1, 2]), exclude=lnames)
            a['value'] = [[kk, gen_lvalue(rng)] for kk in keys]
        elif cls == 'StateSetMetricFamily':
            a['value'] = [[s, rng.random() < 0.5] for s in dict.fromkeys(gen_lvalue(rng) for _ in range(rng.choice([1, 2, 3])))]
        f['adds'].append(a)
    if not lnames and len(f['adds']) == 1 and f['adds'][0]['ts'] is None and rng.random() < 0.5:
        f['direct'] = True
    return f


def gen_raw_family(rng, legacy, idx, note, irregular):
    typ = rng.choice(TYPES)
    name = gen_name(rng, legacy, idx)
    f = {'src': 'raw', 'name': name, 'help': gen_help(rng), 'type': typ, 'unit': '', 'samples': []}
    regular = MAIN_SUFFIXES[typ] + TRAILING_OK.get(typ, [])
    for _ in range(rng.choice([0, 1, 2, 3, 5])):
        if irregular and rng.random() < 0.6:
            r = rng.random()
            if r < 0.5:
                sname = name + rng.choice(['', '_total', '_created', '_gsum', '_gcount', '_bucket', '_count', '_sum', '_info', '_x'])
            elif r < 0.8:
                sname = gen_name(rng, legacy, idx + 50, adversarial=False if legacy else None)
            else:
                sname = gen_name(rng, legacy, idx + 50, adversarial=not legacy)
        else:
            sname = name + rng.choice(regular)
        k = rng.choice([0, 1, 1, 2, 3])
        lnames = gen_labelnames(rng, legacy, k)
        vc, v = gen_value(rng)
        tc, ts = gen_ts(rng)
        note('value:' + vc)
        note('ts:' + tc)
        labels = [[ln, gen_lvalue(rng)] for ln in lnames]
        for _, x in labels:
            note('lvlen:%s' % (len(x) if len(x) < 4 else '4+'))
        f['samples'].append({'name': sname, 'labels': labels, 'value': v, 'ts': ts})
    return f


def gen_registry(rng, legacy, note):
    fams = []
    irregular = rng.random() < 0.3
    for idx in range(rng.choice([1, 1, 2, 3, 4])):
        r = rng.random()
        if r < 0.35:
            fams.append(gen_class_family(rng, legacy, idx, note))
        elif r < 0.7:
            fams.append(gen_helper_family(rng, legacy, idx, note))
        else:
            fams.append(gen_raw_family(rng, legacy, idx, note, irregular))
    spec = {'kind': 'registry', 'legacy': legacy, 'families': fams}
    r = rng.random()
    if r < 0.3:
        spec['created'] = False          # created series switched off at scrape time (custom collectors still yield them)
    elif r < 0.4:
        spec['created'] = True
    note('created-switch:%s' % spec.get('created', 'default'))
    if rng.random() < 0.3:
        wrap_strings(rng, spec, note)
    return spec


ALNUM_DATA = ['red', 'GET', '200', 'v', 'é', 'a1', 'ǅ', '٣', 'x9Z']


def wrap_strings(rng, spec, note=lambda k: None, p=0.5):
    """the "unusual but legal Python types" dimension: replace application-supplied strings of the spec by str-subclass
    instances (markers) of a random kind, keeping the character data or (to have alphanumeric data as often as data that
    needs escaping) replacing it by an alphanumeric token.  Positions: every label value (children, add_metric, `le`, Info
    values, StateSet / Enum states, raw samples) and help; label names and custom-collector metric names only where their
    data is outside the legacy alphabet (a name inside it is interpolated as is, before and after any quoting)."""
    legacy = spec['legacy']
    used = set()

    def w(x, pos, name=False, keep=False):
        if is_sub(x) or rng.random() >= p:
            return x
        d = x
        if name:
            if legacy or not d or LEG_METRIC.fullmatch(d) or LEG_LABEL.fullmatch(d) or d.endswith('\n'):
                return x
        elif not keep and rng.random() < 0.4:
            d = rng.choice(ALNUM_DATA)
        kind = rng.choice(SUB_KINDS)
        note('sub:%s:%s:%s' % (pos, kind, 'alnum' if d.isalnum() else 'empty' if not d else 'other'))
        used.add(kind)
        return {'sub': kind, 's': d}

    for f in spec['families']:
        src = f['src']
        f['help'] = w(f['help'], 'help')
        if src.startswith('helper:'):
            f['name'] = w(f['name'], 'metric-name', name=True)
            f['labels'] = [w(x, 'label-name', name=True) for x in f['labels']]
            seen = set()
            for a in f['adds']:
                lv = [w(x, 'label-value') for x in a['lv']]
                if tuple(data_of(x) for x in lv) not in seen:
                    a['lv'] = lv
                seen.add(tuple(data_of(x) for x in a['lv']))
                if 'buckets' in a:
                    a['buckets'] = [[w(le, 'le', keep=True), v] for le, v in a['buckets']]
                if src == 'helper:InfoMetricFamily':
                    a['value'] = [[w(k, 'label-name', name=True), w(v, 'info-value')] for k, v in a['value']]
                if src == 'helper:StateSetMetricFamily':
                    a['value'] = [[w(k, 'state', keep=True), v] for k, v in a['value']]
        elif src == 'raw':
            f['name'] = w(f['name'], 'metric-name', name=True)
            for smp in f['samples']:
                # (raw samples keep their data — the samples of one label group must go on sharing it: only the type changes)
                smp['labels'] = [[w(k, 'label-name', name=True), w(v, 'label-value', keep=True)] for k, v in smp['labels']]
                if smp.get('ex') is not None:          # (C04 shape) exemplar label values
                    smp['ex']['labels'] = [[k, w(v, 'exemplar-value', keep=True)] for k, v in smp['ex']['labels']]
        else:
            f['labelnames'] = [w(x, 'label-name', name=True) for x in f['labelnames']]
            for ch in f['children']:
                ch['lv'] = [w(x, 'label-value:labels()') for x in ch['lv']]
                if ch.get('info') is not None:
                    ch['info'] = [[w(k, 'label-name', name=True), w(v, 'info-value')] for k, v in ch['info']]
                for op in ch.get('ops', []):           # (C04 shape) info() values and exemplar label values of inc()/observe()
                    if op.get('info') is not None:
                        op['info'] = [[w(k, 'label-name', name=True), w(v, 'info-value')] for k, v in op['info']]
                    if op.get('ex') is not None:
                        op['ex'] = [[k, w(v, 'exemplar-value', keep=True)] for k, v in op['ex']]
            if f.get('states'):
                f['states'] = [w(x, 'state', keep=True) for x in f['states']]
    return used


def exh_strings(maxlen, alphabet=EXH):
    out = ['']
    for n in range(1, maxlen + 1):
        out += [''.join(t) for t in itertools.product(alphabet, repeat=n)]
    return out


ONE = {'b': lib.bits_of(1.0)}


def is_f2_name(x):
    return x.endswith('\n') and LEG_METRIC.fullmatch(x[:-1]) is not None


def exhaustive_specs(legacy, maxlen_val, maxlen_name, batch=40):
    """every short string in every position: label value (class Gauge child; raw sample with a quoted name, followed by a
    second label; Info value), help (main family and trailing _created family), and — without legacy validation — metric
    name and label name"""
    specs = []
    vals = exh_strings(maxlen_val)
    for i in range(0, len(vals), batch):
        chunk = vals[i:i + batch]
        specs.append(('exh:label-value:class', {'kind': 'registry', 'legacy': legacy, 'families': [
            {'src': 'class:Gauge', 'name': 'g', 'help': 'h', 'labelnames': ['l'], 'children': [{'lv': [v], 'set': ONE} for v in chunk]}]}))
        qname = 'q' if legacy else 'q "n\\'
        specs.append(('exh:label-value:raw', {'kind': 'registry', 'legacy': legacy, 'families': [
            {'src': 'raw', 'name': qname, 'help': 'h', 'type': 'gauge', 'unit': '', 'samples': [
                {'name': qname, 'labels': [['a', v], ['b', v[::-1]]], 'value': ONE, 'ts': {'i': 1}} for v in chunk]}]}))
        specs.append(('exh:label-value:info', {'kind': 'registry', 'legacy': legacy, 'families': [
            {'src': 'helper:InfoMetricFamily', 'name': 'i', 'help': 'h', 'labels': ['l'], 'adds': [
                {'lv': [v], 'value': [['k', v]], 'ts': None} for v in chunk]}]}))
        specs.append(('exh:help', {'kind': 'registry', 'legacy': legacy, 'families': [
            {'src': 'helper:GaugeMetricFamily', 'name': 'g%d' % j, 'help': v, 'labels': [], 'adds': [{'lv': [], 'value': ONE, 'ts': None}]}
            for j, v in enumerate(chunk)]}))
        specs.append(('exh:help:trailing', {'kind': 'registry', 'legacy': legacy, 'families': [
            {'src': 'helper:CounterMetricFamily', 'name': 'c%d' % j, 'help': v, 'labels': [], 'adds': [{'lv': [], 'value': ONE, 'created': ONE, 'ts': None}]}
            for j, v in enumerate(chunk)]}))
    if not legacy:
        names = [s for s in exh_strings(maxlen_name) if s]
        plain = [s for s in names if not is_f2_name(s)]
        f2 = [s for s in names if is_f2_name(s)]
        for i in range(0, len(plain), batch):
            chunk = plain[i:i + batch]
            specs.append(('exh:metric-name', {'kind': 'registry', 'legacy': legacy, 'families': [
                {'src': 'helper:GaugeMetricFamily', 'name': v, 'help': 'h', 'labels': ['l'], 'adds': [{'lv': ['v'], 'value': ONE, 'ts': None},
                                                                                                    {'lv': [v], 'value': ONE, 'ts': {'i': 2}}]}
                for v in chunk]}))
            specs.append(('exh:metric-name:counter', {'kind': 'registry', 'legacy': legacy, 'families': [
                {'src': 'class:Counter', 'name': v, 'help': v, 'labelnames': [], 'children': []} for v in chunk]}))
            for j in range(0, len(chunk), 8):
                sub = chunk[j:j + 8]
                specs.append(('exh:label-name', {'kind': 'registry', 'legacy': legacy, 'families': [
                    {'src': 'class:Gauge', 'name': 'g', 'help': 'h', 'labelnames': ['a'] + sub, 'children': [{'lv': ['x'] + sub, 'set': ONE}]}]}))
        for v in f2:      # the F2 class on its own so that it cannot mask its neighbours
            specs.append(('exh:metric-name:f2', {'kind': 'registry', 'legacy': legacy, 'families': [
                {'src': 'helper:GaugeMetricFamily', 'name': v, 'help': 'h', 'labels': [], 'adds': [{'lv': [], 'value': ONE, 'ts': None}]}]}))
            specs.append(('exh:label-name:f2', {'kind': 'registry', 'legacy': legacy, 'families': [
                {'src': 'class:Gauge', 'name': 'g', 'help': 'h', 'labelnames': [v], 'children': [{'lv': ['x'], 'set': ONE}]}]}))
    return specs


def corpus_specs():
    """known witnesses and hand-picked adjacency cases, under both settings"""
    out = []
    G = lambda name, help_, lnames, children: {'src': 'class:Gauge', 'name': name, 'help': help_, 'labelnames': lnames, 'children': children}
    PZ, NZ = {'b': lib.bits_of(0.0)}, {'b': lib.bits_of(-0.0)}

    def zeros(legacy, vals):
        return {'kind': 'registry', 'legacy': legacy, 'families': [{'src': 'raw', 'name': 'z', 'help': 'signed zeros', 'type': 'gauge',
                'unit': '', 'samples': [{'name': 'z', 'labels': [['i', str(i)]], 'value': v, 'ts': None} for i, v in enumerate(vals)]}]}
    # signed zeros, first of all (a rendering that depends on what was rendered earlier in the process shows here):
    # -0.0 alone, then +0.0 alone, then both in one registry in both orders, then -0.0 alone again; also an int 0
    for vals in ([NZ], [PZ], [PZ, NZ], [NZ, PZ], [NZ], [{'i': 0}, NZ], [PZ]):
        out.append(('corpus:signed-zero', zeros(False, vals)))
    out.append(('corpus:signed-zero', {'kind': 'registry', 'legacy': False, 'families': [
        {'src': 'class:Gauge', 'name': 'gz', 'help': 'h', 'labelnames': ['l'], 'children': [{'lv': ['p'], 'set': PZ}, {'lv': ['n'], 'set': NZ}]}]}))
    for legacy in (True, False):
        R = lambda fams: {'kind': 'registry', 'legacy': legacy, 'families': fams}
        # F2: accepted even under legacy validation, written bare
        out.append(('corpus:f2', R([G('a\n', 'help', ['l\n'], [{'lv': ['v'], 'set': ONE}])])))
        out.append(('corpus:f2', R([G('a\n', 'help', [], [{'lv': [], 'set': ONE}])])))
        out.append(('corpus:f2', R([G('a', 'help', ['l\n'], [{'lv': ['v'], 'set': ONE}])])))
        out.append(('corpus:f2', R([{'src': 'raw', 'name': 'a', 'help': 'h', 'type': 'gauge', 'unit': '', 'samples': [
            {'name': 'a\n', 'labels': [], 'value': ONE, 'ts': None}]}])))
        out.append(('corpus:f2', R([{'src': 'class:Counter', 'name': 'c\n', 'help': 'h', 'labelnames': [], 'children': []}])))
        # label names that reach the exposition without validation
        out.append(('corpus:unvalidated-label', R([{'src': 'class:Enum', 'name': '__e', 'help': 'h', 'labelnames': [], 'states': ['a', 'b'],
                                                    'children': []}])))
        out.append(('corpus:unvalidated-label', R([{'src': 'class:Enum', 'name': 'a:b', 'help': 'h', 'labelnames': [], 'states': ['a'],
                                                    'children': []}])))
        out.append(('corpus:unvalidated-label', R([{'src': 'class:Info', 'name': 'i', 'help': 'h', 'labelnames': [],
                                                    'children': [{'lv': [], 'info': [['__k', 'v']]}]}])))
        out.append(('corpus:unvalidated-label', R([{'src': 'class:Info', 'name': 'i', 'help': 'h', 'labelnames': [],
                                                    'children': [{'lv': [], 'info': [['a b', 'v']]}]}])))
        out.append(('corpus:unvalidated-label', R([{'src': 'helper:GaugeMetricFamily', 'name': 'g', 'help': 'h', 'labels': ['__x'],
                                                    'adds': [{'lv': ['v'], 'value': ONE, 'ts': None}]}])))
        out.append(('corpus:unvalidated-label', R([{'src': 'helper:StateSetMetricFamily', 'name': '__s', 'help': 'h', 'labels': [],
                                                    'adds': [{'lv': [], 'value': [['on', True]], 'ts': None}]}])))
        # adjacency: backslashes before the closing quote, 'n' after an escaped backslash, separators in quoted names
        vals = ['\\', '\\\\', '\\\\\\', '\\"', '\\\\"', '\\\\\\"', '"\\', 'n\\n', '\\n', '\\\\n', '\n', 'a\\', '",', '"}', '} 1', '{', ' # ']
        out.append(('corpus:adjacency', R([G('g', 'h', ['l'], [{'lv': [v], 'set': ONE} for v in vals])])))
        out.append(('corpus:adjacency', R([{'src': 'helper:GaugeMetricFamily', 'name': 'h%d' % i, 'help': v, 'labels': [],
                                            'adds': [{'lv': [], 'value': ONE, 'ts': None}]} for i, v in enumerate(vals)])))
        # fractional milliseconds, Timestamp objects, negative time stamps
        tss = [{'f': lib.bits_of(1.0005)}, {'f': lib.bits_of(1234.5678)}, {'f': lib.bits_of(-1.5)}, {'i': 1500}, {'i': -3}, {'i': 0},
               {'s': [1, 500000]}, {'s': [-2, 500000000]}, {'f': lib.bits_of(1e300)}, None]
        out.append(('corpus:timestamps', R([{'src': 'helper:GaugeMetricFamily', 'name': 't', 'help': 'h', 'labels': ['i'], 'adds': [
            {'lv': [str(i)], 'value': ONE, 'ts': t} for i, t in enumerate(tss)]}])))
        # every family type with no sample at all
        out.append(('corpus:empty-families', R([{'src': 'raw', 'name': 'e%d' % i, 'help': 'h %s' % t, 'type': t, 'unit': '', 'samples': []}
                                                for i, t in enumerate(TYPES)])))
        # names equal to family+suffix; names outside any suffix set
        out.append(('corpus:suffix-names', R([{'src': 'raw', 'name': 'r', 'help': 'h', 'type': t, 'unit': '', 'samples': [
            {'name': 'r' + s, 'labels': [['l', 'v']], 'value': ONE, 'ts': None}
            for s in ['', '_total', '_created', '_gsum', '_gcount', '_bucket', '_count', '_sum', '_info', '_x']]} for t in TYPES[:1]])))
        for t in TYPES:
            out.append(('corpus:suffix-names', R([{'src': 'raw', 'name': 'r', 'help': 'h', 'type': t, 'unit': '', 'samples': [
                {'name': 'r' + s, 'labels': [['l', 'v']], 'value': ONE, 'ts': None}
                for s in ['_gsum', '', '_created', '_total', '_gcount', '_bucket', '_created', '_count', '_sum', '_info', '_x', '_gsum']]}])))
    out += typed_corpus_specs()
    # UTF-8 names (constructors accept them only without legacy validation)
    R = lambda fams: {'kind': 'registry', 'legacy': False, 'families': fams}
    for nm in ['a b', 'é', '\U0001F600', 'a"b', 'a\\', 'a\\"', 'a\nb', '{', '}', 'a,b', 'a=b', '#', ' ', '\xa0', 'a{l="v"} 1', '"', '""',
               'a\\n', '\\', '1a', 'a b_total', ' a ', '\t', ' ', 'a\r']:
        out.append(('corpus:utf8-names', R([
            G(nm, 'help ' + nm, [nm + 'l', 'z'], [{'lv': [nm, 'v'], 'set': ONE}]),
            {'src': 'class:Counter', 'name': nm + '2', 'help': nm, 'labelnames': [], 'children': [{'lv': [], 'inc': [ONE]}]},
            {'src': 'class:Enum', 'name': nm + '3', 'help': nm, 'labelnames': [], 'states': [nm, 'b'], 'children': []},
            {'src': 'helper:InfoMetricFamily', 'name': nm + '4', 'help': nm, 'labels': [], 'adds': [{'lv': [], 'value': [[nm + 'k', nm]], 'ts': {'i': 7}}]},
        ])))
    return out


def typed_corpus_specs():
    """str-subclass instances in every application-string position (each kind; alphanumeric data, data needing escapes,
    empty); custom collectors yielding _created samples under both states of the created-series switch"""
    out = []
    datas = ['red', '200', 'é', '', 'a"b', 'a\\', 'x\ny', 'x y']
    for legacy in (True, False):
        for kind in SUB_KINDS:
            S = lambda d: {'sub': kind, 's': d}
            R = lambda fams: {'kind': 'registry', 'legacy': legacy, 'families': fams}
            out.append(('corpus:str-subclass', R([
                {'src': 'helper:GaugeMetricFamily', 'name': 'g', 'help': S('help ' + datas[0]), 'labels': ['l', 'm'],
                 'adds': [{'lv': [S(d), 'p' + d], 'value': ONE, 'ts': None} for d in datas]},
                {'src': 'helper:CounterMetricFamily', 'name': 'c', 'help': S('help'), 'labels': ['l'],
                 'adds': [{'lv': [S(d)], 'value': ONE, 'created': ONE, 'ts': {'i': 3}} for d in datas[:3]]}])))
            out.append(('corpus:str-subclass', R([
                {'src': 'helper:InfoMetricFamily', 'name': 'i', 'help': 'h', 'labels': ['l'],
                 'adds': [{'lv': [S(d)], 'value': [['k', S(d)]], 'ts': None} for d in datas]},
                {'src': 'helper:StateSetMetricFamily', 'name': 's', 'help': S('a\\nb'), 'labels': [],
                 'adds': [{'lv': [], 'value': [[S(d), True] for d in datas], 'ts': None}]},
                {'src': 'helper:HistogramMetricFamily', 'name': 'h', 'help': S('Help'), 'labels': ['l'],
                 'adds': [{'lv': [S('GET')], 'buckets': [[S('1'), ONE], [S('+Inf'), ONE]], 'sum': ONE, 'ts': None}]}])))
            out.append(('corpus:str-subclass', R([
                {'src': 'raw', 'name': 'r', 'help': S(d), 'type': 'gauge', 'unit': '', 'samples': [
                    {'name': 'r', 'labels': [['a', S(d)], ['b', S(d[::-1])]], 'value': ONE, 'ts': None}]} for d in datas][:1] + [
                {'src': 'raw', 'name': 'r%d' % j, 'help': S(d), 'type': 'gauge', 'unit': '', 'samples': [
                    {'name': 'r%d' % j, 'labels': [['a', S(d)], ['b', S(d[::-1])]], 'value': ONE, 'ts': None}]} for j, d in enumerate(datas)])))
            out.append(('corpus:str-subclass', R([
                {'src': 'class:Gauge', 'name': 'cg', 'help': S('help'), 'labelnames': ['l'], 'children': [{'lv': [S(d)], 'set': ONE} for d in datas]},
                {'src': 'class:Info', 'name': 'ci', 'help': S('x'), 'labelnames': [], 'children': [{'lv': [], 'info': [['k', S(d)] for d in datas[:1]]}]},
                {'src': 'class:Info', 'name': 'cj', 'help': S(''), 'labelnames': ['l'], 'children': [{'lv': [S(d)], 'info': [['k', S(d)]]} for d in datas]},
                {'src': 'class:Enum', 'name': 'ce', 'help': 'h', 'labelnames': [], 'states': [S(d) for d in datas], 'children': [{'lv': [], 'state': 'é'}]}])))
            if not legacy:
                for nm in ['é', 'a b', '1a', 'a"b', '٣']:
                    out.append(('corpus:str-subclass:quoted-names', R([
                        {'src': 'helper:GaugeMetricFamily', 'name': S(nm), 'help': S(nm), 'labels': [S(nm + 'l')],
                         'adds': [{'lv': [S(nm)], 'value': ONE, 'ts': None}]},
                        {'src': 'raw', 'name': S(nm + '2'), 'help': 'h', 'type': 'counter', 'unit': '', 'samples': [
                            {'name': S(nm + '2_total'), 'labels': [[S(nm), S(nm)]], 'value': ONE, 'ts': None}]},
                        {'src': 'class:Gauge', 'name': 'g', 'help': 'h', 'labelnames': [S(nm)], 'children': [{'lv': [S(nm)], 'set': ONE}]}])))
        # the created-series switch at scrape time x collectors that yield _created themselves
        for created in (False, True):
            R = lambda fams: {'kind': 'registry', 'legacy': legacy, 'created': created, 'families': fams}
            cre = lambda name, typ, sufs: {'src': 'raw', 'name': name, 'help': 'h ' + typ, 'type': typ, 'unit': '', 'samples': [
                {'name': name + suf, 'labels': [['l', lv]], 'value': ONE, 'ts': None} for lv in ('a', 'b') for suf in sufs]}
            out.append(('corpus:created-switch', R([
                {'src': 'helper:CounterMetricFamily', 'name': 'jobs', 'help': 'Jobs.', 'labels': ['q'],
                 'adds': [{'lv': ['a'], 'value': ONE, 'created': {'i': 1700000000}, 'ts': None},
                          {'lv': ['b'], 'value': ONE, 'created': {'b': lib.bits_of(1.5e9)}, 'ts': None}]},
                {'src': 'class:Counter', 'name': 'local', 'help': 'Local.', 'labelnames': [], 'children': [{'lv': [], 'inc': [ONE]}]}])))
            out.append(('corpus:created-switch', R([
                {'src': 'helper:CounterMetricFamily', 'name': 'one', 'help': 'One.', 'labels': [], 'direct': True,
                 'adds': [{'lv': [], 'value': ONE, 'created': ONE, 'ts': None}]},
                cre('s', 'summary', ['_count', '_sum', '_created']),
                cre('h', 'histogram', ['_bucket', '_count', '_sum', '_created']),
                cre('gh', 'gaugehistogram', ['_bucket', '_gcount', '_gsum']),
                {'src': 'class:Summary', 'name': 'cs', 'help': 'h', 'labelnames': ['l'], 'children': [{'lv': ['x'], 'obs': [ONE]}]},
                {'src': 'class:Histogram', 'name': 'ch', 'help': 'h', 'labelnames': [], 'children': [{'lv': [], 'obs': [ONE]}]}])))
    return out


# ------------------------------------------------------------------------------------------------- running cases
def mutate_text(rng, text):
    r = rng.random()
    if not text:
        return rng.choice(ADV)
    p = rng.randrange(len(text))
    if r < 0.3:
        return text[:p] + text[p + 1:]
    if r < 0.6:
        return text[:p] + rng.choice(ADV + ['\x1c', '٣', '_total', '# HELP ', '# TYPE ']) + text[p:]
    if r < 0.8:
        return text[:p] + rng.choice(ADV) + text[p + 1:]
    if r < 0.9:
        return text[:p]
    lines = text.split('\n')
    i = rng.randrange(len(lines))
    j = rng.randrange(len(lines))
    lines[i], lines[j] = lines[j], lines[i]
    return '\n'.join(lines)


def shrink_spec(spec, sig, budget_s=4.0):
    """smaller registry spec that still fails with the same signature"""
    t0 = time.time()
    legacy = spec['legacy']
    extra = {k: spec[k] for k in ('created',) if k in spec}

    def fails(fams):
        if time.time() - t0 > budget_s:
            return False
        r = evaluate(dict(extra, kind='registry', legacy=legacy, families=fams))
        return any(s == sig for s, _ in r.get('fails', []))
    fams = list(spec['families'])
    if len(fams) > 1:
        for f in fams:
            if fails([f]):
                fams = [f]
                break
        else:
            fams = lib.shrink_list(fams, fails)
    for key in ('children', 'adds', 'samples'):
        for i in range(len(fams)):
            f = fams[i]
            if key in f and len(f[key]) > 1:
                def inner(xs, i=i, key=key):
                    g = dict(fams[i])
                    g[key] = xs
                    return fails(fams[:i] + [g] + fams[i + 1:])
                single = [x for x in f[key] if inner([x])]
                xs = [single[0]] if single else lib.shrink_list(f[key], inner)
                g = dict(f)
                g[key] = xs
                fams[i] = g
    return dict(extra, kind='registry', legacy=legacy, families=fams)


NUMTOK = re.compile(r'[0-9e.+\-InfNa]+')
TS_OVERFLOW = (2 ** 1024 - 2 ** 970) * 1000


def check_number_laws(metrics):
    """re-validate, on every generated sample, the facts the theorem `sample_line_roundtrip` takes as hypotheses about numbers.
    CPython's own part (repr/float/int/str, independent of the library) is trusted base: a violation is an infrastructure
    error.  The library's part (what `floatToGoString` renders) is the code under test: a violation is an oracle failure,
    returned as [(signature, what)] — the exposed value would not be read back as the same value."""
    from prometheus_client.utils import floatToGoString
    fails = []
    for m in metrics:
        for s in m.samples:
            v = float(s.value)
            if v == v and lib.bits_of(float(repr(v))) != lib.bits_of(v):
                raise lib.Infra('trusted number law violated by CPython: float(repr(%r)) != %r' % (v, v))
            tok = floatToGoString(s.value)
            what = None
            if not isinstance(tok, str) or not NUMTOK.fullmatch(tok):
                what = 'floatToGoString(%r) = %r is not a number token' % (s.value, tok)
            else:
                try:
                    int(tok)
                    what = 'floatToGoString(%r) = %r is read back by int()' % (s.value, tok)
                except ValueError:
                    back = float(tok)
                    if not (v != v and back != back) and lib.bits_of(back) != lib.bits_of(v):
                        what = 'exposed value %r of sample %r is rendered %r, which is read back as %r' % (v, s.name, tok, back)
            if what and len(fails) < 3:
                fails.append(('C03:value', what))
            if s.timestamp is not None:
                ms = int(float(s.timestamp) * 1000)
                if int(str(ms)) != ms:
                    raise lib.Infra('trusted number law violated by CPython: int(str(%r))' % ms)
                if abs(ms) >= TS_OVERFLOW:
                    raise lib.Infra('generator produced a millisecond count beyond the int/1000 bound: %r' % ms)
    return fails


class Runner:
    def __init__(self, ctx):
        self.ctx = ctx
        self.reqs = []
        self.handlers = []
        self.sigs = {}
        self.fail_records = []
        self.seen_text = set()

    def note(self, k):
        self.ctx.count(k)

    def request(self, line, handler):
        self.reqs.append(line)
        self.handlers.append(handler)

    def run_spec(self, stream, spec):
        ctx = self.ctx
        res = evaluate(spec)
        ctx.count('stream:' + stream)
        ctx.count('legacy:%s' % ('on' if spec['legacy'] else 'off'))
        if 'skip' in res:
            ctx.count('skip:' + res['skip'])
            return res
        metrics = res['metrics']
        for f in spec['families']:
            ctx.count('src:' + f['src'])
        for m in metrics:
            ctx.count('type:' + m.type)
        text = res['text']
        for sig, what in res['fails']:
            self.sigs[sig] = self.sigs.get(sig, 0) + 1
            self.fail_records.append((sig, what, spec, len(text or '')))
        if text is None:
            ctx.case(None, None)
            return res
        ctx.count('family-level:' + res.get('famlevel', '?'))
        for sig, what in check_number_laws(metrics):
            if not any(fs == sig for fs, _ in res['fails']):        # not already reported by the round-trip oracle
                self.sigs[sig] = self.sigs.get(sig, 0) + 1
                self.fail_records.append((sig, what, spec, len(text or '')))
        nontrivial = ('\\' in text or any(s.timestamp is not None for m in metrics for s in m.samples)
                      or any(not LEG_METRIC.fullmatch(x) for m in metrics for x in [m.name] + [s.name for s in m.samples]))
        key = c14text.doc_key(text) + ('L' if spec['legacy'] else 'U')
        ctx.case(key if nontrivial else None, {'legacy': spec['legacy'], 'families': [(f['src'], f['name']) for f in spec['families']][:4],
                                               'exposition': text[:300]})
        if key in self.seen_text:
            return res
        self.seen_text.add(key)
        case = spec
        legacy = int(bool(spec['legacy']))
        try:
            enc = famcodec.enc_families(metrics)
        except Exception as e:  # noqa
            enc = None
            ctx.count('codec-skip:' + type(e).__name__)
        if enc is not None:
            def h_expo(rep, text=text, case=case):
                ctx.traces += 1
                t = rep.split(' ')
                if t[0] != 'ok' or len(t) != 2:
                    ctx.diverge('expo text: model replied %r for an exposition the real code produced' % rep[:200], case)
                    return
                model = lib.unhx(t[1])
                if model != text:
                    i = next((k for k in range(min(len(model), len(text))) if model[k] != text[k]), min(len(model), len(text)))
                    ctx.diverge('expo text differs at offset %d: real %r model %r' % (i, text[max(0, i - 30):i + 30], model[max(0, i - 30):i + 30]), case)
            self.request('expo text ' + enc, h_expo)
        creal = c14text.canon_real(res['outcome'])

        def h_parse(rep, creal=creal, case=case, text=text):
            ctx.traces += 1
            why = c14text.disagree(creal, rep)
            if why:
                ctx.diverge('parse of the real exposition: %s (text %r)' % (why, text[:200]), case)
        self.request('c03 parse %d %s' % (legacy, lib.hx(text)), h_parse)
        return res

    def run_doc(self, stream, doc, legacy):
        """malformed stream: only the correspondence model <-> real is judged here (totality is C14's business)"""
        ctx = self.ctx
        try:
            doc.encode('utf-8')
        except UnicodeEncodeError:
            return
        key = ('doc', doc, legacy)
        if key in self.seen_text:
            return
        self.seen_text.add(key)
        o = c14text.real_parse(doc, legacy)
        creal = c14text.canon_real(o)
        ctx.count('malformed:' + stream)
        ctx.count('malformed-outcome:' + ('ok' if o[0] == 'ok' else 'Timeout' if o[0] == 'timeout' else o[1]))
        case = {'kind': 'doc', 'doc': doc.encode('utf-8').hex(), 'legacy': bool(legacy)}
        ctx.case(None, None)

        def h(rep, creal=creal, case=case, doc=doc):
            ctx.traces += 1
            why = c14text.disagree(creal, rep)
            if why:
                ctx.diverge('malformed document: %s on %r' % (why, doc[:200]), case)
        self.request('c03 parse %d %s' % (int(bool(legacy)), lib.hx(doc)), h)

    def flush(self):
        if not self.reqs:
            return
        replies = c14text.drv_run(self.ctx, self.reqs)
        if replies is not None:
            for rep, h in zip(replies, self.handlers):
                h(rep)
        self.reqs, self.handlers = [], []

    def report(self):
        """minimise one witness per signature and hand the failures to ctx (unexpected classes first)"""
        ctx = self.ctx
        by_sig = {}
        for sig, what, spec, tlen in self.fail_records:
            by_sig.setdefault(sig, []).append((what, spec, tlen))
        known_first = lambda s: (s.startswith('C03:name-trailing-newline') or s.startswith('C03:label-name-unvalidated'), s)
        witnesses = {}
        for sig in sorted(by_sig, key=known_first):
            recs = sorted(by_sig[sig], key=lambda r: (r[2], len(repr(r[1]))))[:3]
            for n, (what, spec, _) in enumerate(recs):
                if n == 0:
                    small = shrink_spec(spec, sig)
                    r = evaluate(small)
                    w2 = [w for s, w in r.get('fails', []) if s == sig]
                    if w2:
                        spec, what = small, w2[0]
                    else:
                        r = evaluate(spec)
                    witnesses[sig] = {'case': spec, 'what': what[:600], 'exposition': (r.get('text') or '')[:300],
                                      'count': self.sigs[sig]}
                ctx.fail(sig, what, spec)
        ctx.extra['c03_signatures'] = {k: v['count'] for k, v in witnesses.items()}
        ctx.extra['c03_witnesses'] = witnesses
        print('C03 signatures: %s' % dict(sorted(self.sigs.items())))
        for sig, w in witnesses.items():
            print('  %s\n    witness %s\n    exposition %r\n    %s' % (sig, compact(w['case']), w['exposition'], w['what'][:400]))


def compact(spec):
    fams = []
    for f in spec['families']:
        g = {k: v for k, v in f.items() if v not in ([], '', None)}
        fams.append(g)
    return 'legacy=%s%s %s' % (spec['legacy'], ' created-series-switch=%s' % spec['created'] if 'created' in spec else '', fams)


def run(ctx):
    corecheck.run(ctx)
    rng = ctx.rng
    t0 = time.time()
    quick = ctx.tier == 'quick'
    n_random = 4000 if quick else 40000
    n_malformed = 6000 if quick else 60000
    maxlen_val, maxlen_name = (4, 2) if quick else (5, 3)
    budget = 40 if quick else 420
    if ctx.broken:
        n_random *= 3
        n_malformed *= 3
        budget *= 2
    R = Runner(ctx)
    texts = []
    for stream, spec in corpus_specs():
        res = R.run_spec(stream, spec)
        if res.get('text'):
            texts.append((res['text'], spec['legacy']))
    for legacy in (True, False):
        for stream, spec in exhaustive_specs(legacy, maxlen_val, maxlen_name):
            res = R.run_spec(stream, spec)
            if res.get('text') and rng.random() < 0.1:
                texts.append((res['text'][:600], spec['legacy']))
    R.flush()
    phases = {'corpus+exhaustive': round(time.time() - t0, 1)}
    t1 = time.time()
    for i in range(n_random):
        legacy = rng.random() < 0.4
        spec = gen_registry(rng, legacy, R.note)
        res = R.run_spec('random', spec)
        if res.get('text'):
            texts.append((res['text'], legacy))
        if i % 500 == 499:
            R.flush()
            if time.time() - t0 > budget * 0.7:
                ctx.count('budget-stop:random')
                break
    R.flush()
    phases['random'] = round(time.time() - t1, 1)
    t1 = time.time()
    # malformed stream
    pool = c14text.token_pool()
    for i in range(n_malformed):
        r = rng.random()
        legacy = rng.random() < 0.5
        if r < 0.6 and texts:
            t, legacy = rng.choice(texts)
            d = mutate_text(rng, t[:1500])
            if rng.random() < 0.3:
                d = mutate_text(rng, d)
            R.run_doc('mutated-exposition', d, legacy)
        elif r < 0.8:
            R.run_doc('grammar-mutation', c14text.render(c14text.mutate_once(rng, c14text.gen_doc(rng), pool)), legacy)
        else:
            R.run_doc('noise', c14text.noise(rng), legacy)
        if i % 1000 == 999 and time.time() - t0 > budget:
            ctx.count('budget-stop:malformed')
            break
    R.flush()
    phases['malformed'] = round(time.time() - t1, 1)
    t1 = time.time()
    R.report()
    phases['report+shrink'] = round(time.time() - t1, 1)
    ctx.extra['c03_phase_s'] = phases
    print('C03 phases (s): %s' % phases)
    ctx.rule = ('registries from declarative specs: instrumentation classes, every *MetricFamily helper and raw Metric.add_sample '
                'through custom collectors, both legacy settings; corpus of known witnesses and adjacency cases; every string of '
                'length <= %d over {\\ " \\n n , space } a} as label value (three placements) and as help (family and trailing '
                'family), every string of length <= %d as metric name and label name (UTF-8 mode); random registries over the '
                'adversarial alphabet with all value and time stamp classes; plus a malformed stream for the model '
                'correspondence.  A case is non-trivial when its exposition has an escape, a quoted name or a time stamp; '
                'distinct by hash of the exposition text and legacy flag' % (maxlen_val, maxlen_name))


def replay(ctx, case):
    c = case.get('case')
    if not c and case.get('divergences'):
        c = case['divergences'][0].get('case')
    if not c:
        print('REPLAY: no case in the replay file')
        return 0
    R = Runner(ctx)
    if 'families' in c:
        spec = {'kind': 'registry', 'legacy': bool(c['legacy']), 'families': c['families']}
        if 'created' in c:
            spec['created'] = c['created']
        # the run starts with the signed-zero corpus; a failure that depends on what the process rendered earlier
        # (state carried across registries) is reproduced only in the same order, so replay starts the same way
        for tag, prime in corpus_specs():
            if tag == 'corpus:signed-zero':
                R.run_spec('replay-prime', prime)
        print('REPLAY registry', compact(spec))
        res = R.run_spec('replay', spec)
        if 'skip' in res:
            print('REPLAY: the constructors now reject this input (%s)' % res['skip'])
        else:
            print('REPLAY exposition %r' % (res['text'],))
            if res.get('outcome'):
                print('REPLAY parse outcome %s' % c14text.canon_real(res['outcome'])[:60])
                if res['outcome'][0] == 'ok':
                    for f in res['outcome'][1]:
                        print('   ', f.name, f.type, repr(f.documentation), [tuple(s)[:4] for s in f.samples][:6])
        R.flush()
        for sig, what, _, _ in R.fail_records:
            print('REPLAY-FAIL', sig, what)
        for d in ctx.divergences:
            print('REPLAY-DIVERGE', d['what'])
        return 1 if R.fail_records or ctx.divergences else 0
    if 'doc' in c:
        doc = bytes.fromhex(c['doc']).decode('utf-8')
        print('REPLAY document (legacy=%s) %r' % (c.get('legacy'), doc[:400]))
        R.run_doc('replay', doc, bool(c.get('legacy')))
        R.flush()
        for d in ctx.divergences:
            print('REPLAY-DIVERGE', d['what'])
        return 1 if ctx.divergences else 0
    if 'request' in c:
        print('REPLAY function-level request %r (recorded real=%r model=%r); re-running the function-level suite' % (
            c['request'][:200], c.get('real'), c.get('model')))
        rep = c14text.drv_run(ctx, [c['request']])
        print('REPLAY model now replies %r' % (rep[0] if rep else None))
        bad = corecheck.run(ctx)
        for d in ctx.divergences[:10]:
            print('REPLAY-DIVERGE', d['what'])
        return 1 if bad or (rep and rep[0] != c.get('real')) else 0
    print('REPLAY: unknown case shape')
    return 0
