"""C06 (frame clause, two more ways a call can fail to "leave the registry exactly as it was") — oracle streams on the real code.

(1) REJECTED CONSTRUCTORS (by the class's own argument checks, by a clash, or by the environment: the value store
    cannot be allocated — OSError from the value class, as with a missing multiprocess directory).  The built-in metric classes register themselves from inside their constructor ("including the
    built-in metric classes registering themselves" in the quantifier).  A constructor call that raises — for whatever reason:
    a clash, or arguments the class rejects — must leave the registry exactly as it was: same registered collectors, same
    name map, same target info, and collect() / both expositions still work.  Every class x every argument shape the class
    rejects (and the accepted neighbours) x registries pre-populated by a short random history.
    signature C06:rejected-constructor-left-registered

(2) CALLER-OWNED TARGET-INFO DICT.  set_target_info(d) followed by the CALLER mutating d (clear, add, change, delete), or
    mutating the dict get_target_info() handed out, or the labels dict of a collected target_info sample, is not a registry
    call: the registry must be exactly as it was — in particular `target_info` stays claimed iff target info is configured,
    so that clearing it afterwards releases the name and a later set / register behaves as the reference says.
    signature C06:target-info-aliases-caller-dict

The Lean side: Props.C06.ctor_rejected_is_frame / caller_dict_mutation_is_frame are discharged from the T1 flags
Generated.Registry.{enumValidatesBeforeRegister, targetInfoStoredCopied, targetInfoHandedOutCopied}; these streams are the
oracle that produces the concrete failing input when one of them breaks.
"""
import lib

SIG_CTOR = 'C06:rejected-constructor-left-registered'
SIG_ALIAS = 'C06:target-info-aliases-caller-dict'

# (class, kwargs) — shapes each class rejects, plus accepted neighbours.  `name` is filled in per case.
CTOR_SHAPES = [
    ('Enum', {}),                                            # no states
    ('Enum', {'states': []}),
    ('Enum', {'states': ['a', 'b'], 'labelnames': ['NAME']}),  # label named like the metric ("Overlapping labels")
    ('Enum', {'states': ['a', 'b']}),                        # accepted
    ('Enum', {'states': ['a'], 'unit': 's'}),                # Enum cannot have a unit
    ('Enum', {'states': ['a'], 'labelnames': ['a-b']}),      # invalid legacy label name (accepted under UTF-8 validation)
    ('Histogram', {'buckets': [2, 1]}),
    ('Histogram', {'buckets': []}),
    ('Histogram', {'buckets': [1]}),                         # accepted (+Inf appended) or rejected — whatever the class says
    ('Histogram', {'labelnames': ['le']}),
    ('Histogram', {'buckets': ['x']}),
    ('Histogram', {}),
    ('Summary', {'labelnames': ['quantile']}),
    ('Summary', {}),
    ('Gauge', {'multiprocess_mode': 'nope'}),
    ('Gauge', {}),
    ('Info', {'unit': 's'}),
    ('Info', {}),
    ('Counter', {'labelnames': ['__reserved']}),
    ('Counter', {'labelnames': ['a', 'a']}),
    ('Counter', {'unit': 'total'}),
    ('Counter', {}),
]
NAMES = ['x', 'x_total', 'x_created', 'target', 'target_info', 'y', '', 'bad name', 'é']


def _snapshot(reg):
    with reg._lock:
        cols = [id(c) for c in reg._collector_to_names]
        c2n = sorted((cols.index(id(c)), tuple(ns)) for c, ns in reg._collector_to_names.items())
        names = sorted((n, cols.index(id(c)) if id(c) in cols else -1) for n, c in reg._names_to_collectors.items())
        ti = None if reg._target_info is None else tuple(sorted(reg._target_info.items()))
    return (tuple(c2n), tuple(names), ti)


def _collect_ok(reg):
    """-> (None, encoded output) or (error text, None)"""
    from prometheus_client import exposition
    from prometheus_client.openmetrics import exposition as om
    try:
        fams = list(reg.collect())
        out = [(m.name, m.type, m.documentation, m.unit, [(s.name, tuple(sorted(s.labels.items())), None if s.name.endswith('_created') else repr(s.value)) for s in m.samples])
               for m in fams]
        exposition.generate_latest(reg)
        om.generate_latest(reg)
        return None, out
    except Exception as e:       # noqa: any exception here is the failure being looked for
        return '%s: %s' % (type(e).__name__, e), None


def _populate(reg, pre):
    import prometheus_client as pc
    made = []
    for cls, name in pre:
        kw = {'registry': reg}
        if cls == 'Enum':
            kw['states'] = ['s1', 's2']
        try:
            made.append(getattr(pc, cls)(name, 'pre ' + name, **kw))
        except ValueError:
            pass
    return made


def run_ctor_case(case):
    """case: {'pre': [[cls, name]…], 'ti': labels|None, 'cls', 'name', 'kw'} -> list of (sig, what)"""
    import prometheus_client as pc
    reg = pc.CollectorRegistry(auto_describe=bool(case.get('ad')))
    if case.get('ti'):
        reg.set_target_info(dict(case['ti']))
    _populate(reg, case['pre'])
    before = _snapshot(reg)
    err0, out0 = _collect_ok(reg)
    kw = {k: (list(v) if isinstance(v, list) else v) for k, v in case['kw'].items()}
    if 'labelnames' in kw:
        kw['labelnames'] = [case['name'] if l == 'NAME' else l for l in kw['labelnames']]
    raised = None
    from prometheus_client import values as pv
    saved_vc = pv.ValueClass
    if case.get('alloc_fails'):
        # the ENVIRONMENT rejects the construction: allocating the metric's value fails (multiprocess directory missing or
        # unwritable, out of file space) — the constructor raises OSError; the caller catches it.  Same frame obligation.
        def failing_value(*a, **k):
            raise OSError(2, 'No such file or directory (injected: value store cannot be allocated)')
        pv.ValueClass = failing_value
    try:
        getattr(pc, case['cls'])(case['name'], 'help', registry=reg, **kw)
    except Exception as e:       # noqa
        raised = type(e).__name__
    finally:
        pv.ValueClass = saved_vc
    fails = []
    if raised is not None:
        after = _snapshot(reg)
        if after != before:
            fails.append((SIG_CTOR, '%s(%r, %s) raised %s but the registry changed: collectors/names before %s after %s'
                          % (case['cls'], case['name'], case['kw'], raised, before[:2], after[:2])))
        err1, out1 = _collect_ok(reg)
        if err0 is None and (err1 is not None or out1 != out0):
            fails.append((SIG_CTOR, 'after %s(%r, %s) raised %s, collecting the registry %s'
                          % (case['cls'], case['name'], case['kw'], raised,
                             'raises ' + err1 if err1 else 'yields different families')))
    else:
        err1, _ = _collect_ok(reg)
        if err0 is None and err1 is not None:
            fails.append((SIG_CTOR, 'after the accepted %s(%r, %s) collecting the registry raises %s' % (case['cls'], case['name'], case['kw'], err1)))
    return raised, fails


MUTATIONS = ['clear', 'add', 'change', 'del', 'got-clear', 'got-add', 'sample-clear', 'sample-add']


def run_alias_case(case):
    """case: {'labels': {...}, 'mut': one of MUTATIONS, 'then': [follow-up ops]} ; reference: the registry as if the caller had
    passed a private copy.  -> list of (sig, what)"""
    import prometheus_client as pc
    fails = []
    regs = []
    for aliased in (True, False):
        reg = pc.CollectorRegistry()
        d = dict(case['labels'])
        reg.set_target_info(d if aliased else dict(d))
        if aliased:
            victim = d
            if case['mut'].startswith('got-'):
                victim = reg.get_target_info()
            elif case['mut'].startswith('sample-'):
                fams = [m for m in reg.collect() if m.name == 'target']
                victim = fams[0].samples[0].labels if fams else {}
            m = case['mut'].split('-')[-1]
            if m == 'clear':
                victim.clear()
            elif m == 'add':
                victim['zz_new'] = 'v'
            elif m == 'change':
                for k in list(victim)[:1]:
                    victim[k] = 'changed'
            elif m == 'del':
                for k in list(victim)[:1]:
                    del victim[k]
        trace = []
        for op in case['then']:
            try:
                if op[0] == 'set':
                    reg.set_target_info(dict(op[1]) if op[1] is not None else None)
                    trace.append('ok')
                elif op[0] == 'reg':
                    getattr(pc, op[1])(op[2], 'h', registry=reg)
                    trace.append('ok')
                elif op[0] == 'collect':
                    err, out = _collect_ok(reg)
                    trace.append(err or out)
            except Exception as e:       # noqa
                trace.append(type(e).__name__)
            snap = _snapshot(reg)
            trace.append((snap[1], snap[2]))
        err, out = _collect_ok(reg)
        regs.append((_snapshot(reg)[1:], trace, err or out, reg.get_target_info()))
    if regs[0] != regs[1]:
        what = None
        for i, (a, b) in enumerate(zip(regs[0][1], regs[1][1])):
            if a != b:
                what = 'follow-up #%d %s: %r, with a private copy %r' % (i // 2, case['then'][i // 2], a, b)
                break
        if what is None:
            what = 'final state %r, with a private copy %r' % (regs[0][0], regs[1][0])
        fails.append((SIG_ALIAS, 'set_target_info(%r) then the caller does %s on its dict: %s' % (case['labels'], case['mut'], what)))
    return fails


CTOR_CORPUS = [
    {'pre': [], 'ti': None, 'cls': 'Enum', 'name': 'e', 'kw': {}},
    {'pre': [['Counter', 'x']], 'ti': {'a': 'b'}, 'cls': 'Enum', 'name': 'e', 'kw': {'states': ['a'], 'labelnames': ['NAME']}},
    {'pre': [], 'ti': None, 'cls': 'Counter', 'name': 'y', 'kw': {}, 'alloc_fails': True},
    {'pre': [['Gauge', 'x']], 'ti': None, 'cls': 'Histogram', 'name': 'y', 'kw': {}, 'alloc_fails': True},
]
ALIAS_CORPUS = [
    {'labels': {'a': 'b'}, 'mut': 'clear', 'then': [['set', {}], ['reg', 'Gauge', 'target_info'], ['set', {'x': 'y'}], ['collect']]},
    {'labels': {'a': 'b'}, 'mut': 'got-clear', 'then': [['set', None], ['reg', 'Gauge', 'target_info']]},
    {'labels': {'a': 'b'}, 'mut': 'sample-add', 'then': [['collect']]},
]


def run(ctx):
    rng = ctx.rng
    n_ctor = n_alias = 0
    seen_sig = {}

    def report(sig, what, case):
        seen_sig[sig] = seen_sig.get(sig, 0) + 1
        if seen_sig[sig] <= 3:
            ctx.fail(sig, what, case)

    cases = list(CTOR_CORPUS)
    for cls, kw in CTOR_SHAPES:
        for name in NAMES:
            cases.append({'pre': [], 'ti': None, 'cls': cls, 'name': name, 'kw': kw})
    nrand = 300 if ctx.tier == 'quick' else 4000
    if ctx.broken:
        nrand *= 3
    for _ in range(nrand):
        cls, kw = rng.choice(CTOR_SHAPES)
        pre = [[rng.choice(['Counter', 'Gauge', 'Summary', 'Histogram', 'Info', 'Enum']), rng.choice(NAMES[:6])] for _ in range(rng.randrange(4))]
        cases.append({'pre': pre, 'ti': rng.choice([None, None, {'a': 'b'}]), 'ad': rng.random() < 0.3,
                      'cls': cls, 'name': rng.choice(NAMES), 'kw': kw})
    # every ACCEPTED shape again with a value store that cannot be allocated (error path of the environment)
    for c in [c for c in cases if c['cls'] in ('Counter', 'Gauge', 'Summary', 'Histogram')][:]:
        if rng.random() < 0.5 or not c['pre']:
            cases.append(dict(c, alloc_fails=True))
    for case in cases:
        raised, fails = run_ctor_case(case)
        n_ctor += 1
        ctx.count('c06frame:ctor-raised' if raised else 'c06frame:ctor-accepted')
        if raised:
            ctx.case(('ctor', case['cls'], raised, bool(case['pre']), bool(case['ti'])), case)
        for sig, what in fails:
            report(sig, what, {'frame': 'ctor', 'case': case})
    acases = list(ALIAS_CORPUS)
    label_pool = [{'a': 'b'}, {'a': 'b', 'c': 'd'}, {'k': ''}, {'é': 'ü'}]
    follow = [['set', {}], ['set', None], ['set', {'x': 'y'}], ['reg', 'Gauge', 'target_info'], ['reg', 'Info', 'target'],
              ['reg', 'Counter', 'x'], ['collect']]
    for labels in label_pool:
        for mut in MUTATIONS:
            for f1 in follow:
                acases.append({'labels': labels, 'mut': mut, 'then': [f1]})
    for _ in range(150 if ctx.tier == 'quick' else 3000):
        acases.append({'labels': rng.choice(label_pool), 'mut': rng.choice(MUTATIONS),
                       'then': [rng.choice(follow) for _ in range(rng.randrange(1, 5))]})
    for case in acases:
        fails = run_alias_case(case)
        n_alias += 1
        ctx.case(('alias', case['mut'], len(case['then'])), case)
        for sig, what in fails:
            report(sig, what, {'frame': 'alias', 'case': case})
    ctx.extra['frame_streams'] = {'constructor_cases': n_ctor, 'caller_dict_cases': n_alias,
                                  'note': 'oracle on the real code only (registry snapshot before/after a raising constructor; '
                                          'aliased vs private-copy registries after caller-side mutation)'}


def replay(ctx, case):
    if case['frame'] == 'ctor':
        raised, fails = run_ctor_case(case['case'])
        print('constructor case', case['case'], '-> raised', raised)
    else:
        fails = run_alias_case(case['case'])
        print('caller-dict case', case['case'])
    for sig, what in fails:
        print('REPLAY-FAIL', sig, what)
    return 1 if fails else 0
