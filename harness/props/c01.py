"""C01 — collected values equal a reference model for every operation history.

Per history (one metric in its own fresh CollectorRegistry):
  * REAL: construct the metric from /repo, apply every call, and after EVERY step observe the raised exception class
    (or ok) and the sorted list of (sample name, sorted labels, value bits) of registry.collect(), `_created` excluded.
  * ORACLE (independent of the Lean model): `Ref`, a plain Python reference written from the property text, indexed by
    histories: counter/summary totals = left-to-right float sums of the accepted amounts, bucket le=b = number of
    observations o <= b, +Inf bucket = _count, gauge = its operations in order, enum = current state at 1; the four
    rejected shapes raise ValueError and change nothing; positional / keyword / non-string label values that stringify
    equally address one child; remove/clear delete exactly the addressed children, which restart from zero.
    -> ctx.fail("C01:<class>", …) with the history shrunk by lib.shrink_list.
  * "unusual but legal Python types": a label value may be an instance of a `str` SUBCLASS whose `__str__`/`__format__`/
    `__repr__` differ from its character data (str-mixin Enum member, masking string, tagged string) — tagged value
    ['u', kind, data].  By the property ("values that stringify equally address the same child") and by `labels()` /
    `remove()` of the unchanged code it addresses the child named str(value), NOT the child named by its character data;
    the reference does exactly that (`str(py_of(v))`), the model receives the str() text (as for floats and sequences), and
    the observation reads the CHARACTER DATA of whatever string object a collected sample carries (str(x) of a leaked
    subclass instance would hide it).
  * T2: the same history goes to the driver (`c01 run …`); the model's observation after every step is compared
    verbatim with the real one, and the spec's observation (second reply field) with the model's.
"""
import itertools
import json
import math

import lib

F7_RESET = 'C01:reset-on-labelled-parent-attributeerror'
F7_INFO = 'C01:info-on-labelled-parent-attributeerror'
INT_SUM = 'C01:int-sum-after-reset'
INT_BUCKET = 'C01:int-observation-bucket'

KINDS = ('counter', 'gauge', 'summary', 'histogram', 'info', 'enum')
METHODS = {'counter': ('inc', 'reset'), 'gauge': ('inc', 'dec', 'set'), 'summary': ('observe',),
           'histogram': ('observe',), 'info': ('info',), 'enum': ('state',)}
INF = float('inf')


# ------------------------------------------------------------------------------------------------ tagged values
def py_of(v):
    """tagged JSON value -> Python object.  ['s',text] ['i',n] ['b',bool] ['n'] ['f',bits] ['t',[items]] tuple ['l',[items]] list"""
    t = v[0]
    if t == 's': return v[1]
    if t == 'i': return int(v[1])
    if t == 'b': return bool(v[1])
    if t == 'n': return None
    if t == 'f': return lib.from_bits(int(v[1]))
    if t == 't': return tuple(py_of(x) for x in v[1])
    if t == 'l': return [py_of(x) for x in v[1]]
    if t == 'u': return make_sub(v[1], v[2])
    raise ValueError(v)


class MaskedStr(str):
    """a secret-masking string: prints as stars, is the real text"""

    def __str__(self):
        return '***'

    def __format__(self, fmt):
        return '***'

    def __repr__(self):
        return '<masked>'


class TaggedStr(str):
    """a markup string: str() / format() put a tag around the data"""

    def __str__(self):
        return 'tag:' + str.__str__(self)

    def __format__(self, fmt):
        return '<b>' + str.__str__(self) + '</b>'

    def __repr__(self):
        return 'TaggedStr()'


def make_sub(kind, data):
    """['u', kind, data]: an instance of a str subclass with character data `data`"""
    if kind == 'enum':
        import enum
        return enum.Enum('Color', {'MEMBER': data}, type=str).MEMBER      # str(x) == format(x) == 'Color.MEMBER', x == data
    if kind == 'mask':
        return MaskedStr(data)
    if kind == 'tag':
        return TaggedStr(data)
    raise ValueError(kind)


def chardata(x):
    """what a collected sample carries, as text: the character data of a str of any subclass (never its __str__), str(x) else"""
    return str.__str__(x) if isinstance(x, str) else str(x)


def F(x):
    return ['f', lib.bits_of(x)] if x == x else ['f', lib.CANON_NAN]


def kw_dict(kws):
    """keyword arguments are a dict: a repeated name cannot be expressed in a call (the last one written wins here)"""
    return {k: v for k, v in kws}


def wire_pyval(v):
    t = v[0]
    if t == 's': return 's' + lib.hx(v[1])
    if t == 'i': return 'i%d' % int(v[1])
    if t == 'b': return 'bT' if v[1] else 'bF'
    if t == 'n': return 'N'
    if t == 'f': return 'f' + lib.hx(str(py_of(v)))
    if t in ('t', 'l'): return t + lib.hx(str(py_of(v)))      # a sequence is ONE label value: its str() text
    if t == 'u': return 's' + lib.hx(str(py_of(v)))           # a str-subclass instance is stringified like any other object
    raise ValueError(v)


def wire_list(xs, sep=','):
    return sep.join(xs) if xs else '.'


def wire_op(op):
    if op[0] == 'mutate':
        # not a library call.  The model answers through Model.Metrics.afterCallerMutation (T1: was the object copied?);
        # the labelnames tuple is built in validation.py and has no flag: a plain no-op
        return 'mutate/' + op[1] if op[1] in ('info', 'states', 'buckets') else 'call/-/-/touch/-'
    if op[0] == 'clear':
        return 'clear'
    if op[0] == 'remove':
        return 'remove/' + wire_list([wire_pyval(v) for v in op[1]])
    _, args, kws, act, arg = op
    if args is None:
        a, k = '-', '-'
    else:
        a = wire_list([wire_pyval(v) for v in args])
        k = wire_list([lib.hx(kk) + '=' + wire_pyval(vv) for kk, vv in kw_dict(kws).items()])
    if act in ('inc', 'dec', 'set', 'observe'):
        w = lib.fbits(float(py_of(arg)))
    elif act == 'state':
        w = lib.hx(arg)
    elif act == 'info':
        w = wire_list([lib.hx(k2) + '~' + ('N' if v2 is None else lib.hx(v2)) for k2, v2 in kw_dict(arg).items()])
    else:
        w = '-'
    return 'call/%s/%s/%s/%s' % (a, k, act, w)


def wire_spec(spec):
    kind = spec['kind']
    if kind == 'histogram':
        extra = wire_list(['%s~%s' % (lib.fbits(float(py_of(b))), lib.hx(repr(float(py_of(b))))) for b in spec['buckets']])
    elif kind == 'enum':
        extra = wire_list([lib.hx(s) for s in spec['states']])
    else:
        extra = '.'
    return '%d %s %s %s %s' % (1 if spec['legacy'] else 0, kind, lib.hx(spec['name']),
                               wire_list([lib.hx(l) for l in spec['labelnames']]), extra)


def wire_line(spec, ops):
    return 'c01 run %s %s' % (wire_spec(spec), wire_list([wire_op(o) for o in ops], ';'))


# ------------------------------------------------------------------------------------------------ real code
def observe(reg):
    """-> (sorted list of (sample name, sorted labels, value bits), the (name, labels) sequence in collect order)"""
    out = []
    for fam in reg.collect():
        for s in fam.samples:
            if s.name.endswith('_created'):
                continue
            out.append((chardata(s.name), tuple(sorted((chardata(k), chardata(v)) for k, v in s.labels.items())), lib.bits_of(s.value)))
    seq = [(n, l) for n, l, _ in out]
    out.sort()
    return out, seq


ALIAS_SIG = {'info': 'C01:info-dict-aliased', 'states': 'C01:enum-states-aliased', 'buckets': 'C01:histogram-buckets-aliased',
             'labelnames': 'C01:labelnames-aliased'}


def build_real(spec, reg, env):
    """construct the metric; `env` keeps the caller-owned argument objects (labelnames / buckets / states lists, and
    later every dict passed to info()) so that a history can mutate them AFTER the call"""
    import prometheus_client as pc
    cls = {'counter': pc.Counter, 'gauge': pc.Gauge, 'summary': pc.Summary, 'histogram': pc.Histogram,
           'info': pc.Info, 'enum': pc.Enum}[spec['kind']]
    kw = {}
    env['labelnames'] = list(spec['labelnames'])
    env['info'] = []
    if spec['kind'] == 'histogram':
        kw['buckets'] = env['buckets'] = [py_of(b) for b in spec['buckets']]
    if spec['kind'] == 'enum':
        kw['states'] = env['states'] = list(spec['states'])
    return cls(spec['name'], 'doc', labelnames=env['labelnames'], registry=reg, **kw)


def do_mutate(env, op):
    """['mutate', target, k, how, key, value]: the CALLER changes an object it passed to the library earlier"""
    _, target, k, how, key, value = op
    if target == 'info':
        if not env['info']:
            return
        d = env['info'][k % len(env['info'])] if k >= 0 else env['info'][-1]
        if how == 'set': d[key] = value
        elif how == 'pop': d.pop(key, None)
        elif how == 'clear': d.clear()
        return
    lst = env.get(target)
    if lst is None:
        return
    if how == 'append': lst.append(py_of(value) if target == 'buckets' else value)
    elif how == 'pop':
        if lst: lst.pop()
    elif how == 'clear': del lst[:]
    elif how == 'reverse': lst.reverse()
    elif how == 'set0':
        if lst: lst[0] = py_of(value) if target == 'buckets' else value


def do_real(m, op, env):
    if op[0] == 'mutate':
        return do_mutate(env, op)
    if op[0] == 'clear':
        return m.clear()
    if op[0] == 'remove':
        return m.remove(*[py_of(v) for v in op[1]])
    _, args, kws, act, arg = op
    d = None
    if act == 'info':
        d = {k: v for k, v in arg}
        env['info'].append(d)                  # the caller keeps its dict, whatever becomes of the call
    target = m
    if args is not None:
        target = m.labels(*[py_of(v) for v in args], **{k: py_of(v) for k, v in kw_dict(kws).items()})
    if act == 'touch':
        return None
    meth = getattr(target, act)
    if act in ('inc', 'dec', 'set', 'observe'):
        return meth(py_of(arg))
    if act == 'state':
        return meth(arg)
    if act == 'info':
        return meth(d)
    return meth()


def run_real(spec, ops):
    """-> ('err', class) | ('ok', [(out, observation) per step, step 0 = construction], [sample sequence per step])"""
    from prometheus_client import validation
    from prometheus_client.registry import CollectorRegistry
    old = validation._legacy_validation
    validation._legacy_validation = bool(spec['legacy'])
    try:
        reg = CollectorRegistry()
        try:
            env = {}
            m = build_real(spec, reg, env)
        except Exception as e:
            return ('err', type(e).__name__)
        obs, seq = observe(reg)
        steps = [('ok', obs)]
        seqs = [seq]
        for op in ops:
            try:
                do_real(m, op, env)
                out = 'ok'
            except Exception as e:
                out = type(e).__name__
            obs, seq = observe(reg)
            steps.append((out, obs))
            seqs.append(seq)
        return ('ok', steps, seqs)
    finally:
        validation._legacy_validation = old


# ------------------------------------------------------------------------------------------------ reference (oracle)
def go_label(d):
    """the `le` label text, computed WITHOUT the library's floatToGoString: Go's spelling of the bound — +Inf/-Inf/NaN,
    repr(d) below one million and wherever repr already uses an exponent, and for plain reprs from one million up the
    canonical mantissa/exponent form derived from the exact decimal expansion (as harness/props/c13.py go_expected)"""
    from decimal import Decimal
    if d != d:
        return 'NaN'
    if d == INF:
        return '+Inf'
    if d == -INF:
        return '-Inf'
    r = repr(d)
    if d >= 1e6 and 'e' not in r:
        sign, digits, exp = Decimal(r).as_tuple()
        ds = ''.join(map(str, digits)).rstrip('0') or '0'
        e10 = len(digits) + exp - 1
        return '%se+%02d' % (ds[0] + ('.' + ds[1:] if len(ds) > 1 else ''), e10)
    return r


class Ref:
    """The property text as a program.  Cells are HISTORIES; values are read off them on demand."""

    def __init__(self, spec):
        self.kind = spec['kind']
        self.name = spec['name']
        self.labelnames = list(spec['labelnames'])
        if self.kind == 'histogram':
            bs = [float(py_of(b)) for b in spec['buckets']]
            if bs[-1] != INF:
                bs.append(INF)
            self.bounds = bs
        self.states = list(spec.get('states') or [])
        self.single = []                 # accepted calls on the unlabelled metric
        self.table = {}                  # key -> accepted calls since the child was (re)created; dict keeps creation order

    # -- expected outcome of a call: 'ok' | 'ValueError' | None (the statement does not classify the call)
    def key_of(self, args, kws):
        kws = list(kw_dict(kws).items())
        if args and kws:
            return None, None                      # unclassified
        if kws:
            if sorted(k for k, _ in kws) != sorted(self.labelnames):
                return 'ValueError', None          # wrong label names
            d = dict((k, v) for k, v in kws)
            return 'ok', tuple(str(py_of(d[l])) for l in self.labelnames)     # declaration order
        if len(args) != len(self.labelnames):
            return 'ValueError', None              # wrong label count
        if not self.labelnames:
            return None, None                      # labels() on a metric declared without labels: unclassified
        return 'ok', tuple(str(py_of(v)) for v in args)

    def method_outcome(self, act, arg, on_parent):
        if act == 'touch':
            return 'ok'
        if act not in METHODS[self.kind]:
            return None                            # no such method: not a call of the statement
        if on_parent:
            return 'ValueError'                    # updating a labelled parent without labels
        if self.kind == 'counter' and act == 'inc' and py_of(arg) < 0:
            return 'ValueError'                    # negative counter increment
        if self.kind == 'enum' and arg not in self.states:
            return 'ValueError'                    # unknown enum state
        if self.kind == 'info' and any(k in self.labelnames or v is None for k, v in kw_dict(arg).items()):
            return None                            # overlapping / None info labels: unclassified
        return 'ok'

    def apply(self, op, real_out):
        """-> (expected outcome or None, note).  Updates the histories by the calls that are accepted; for an
        unclassified call the real outcome decides whether it counts as accepted."""
        if op[0] == 'mutate':
            return 'ok', 'the caller mutates an object it passed earlier (the library holds copies)'
        if op[0] == 'clear':
            if not self.labelnames:
                return None, 'clear() on a metric declared without labels'
            self.table = {}
            return 'ok', ''
        if op[0] == 'remove':
            if len(op[1]) != len(self.labelnames):
                return 'ValueError', 'remove with a wrong label count'
            if not self.labelnames:
                return None, 'remove() on a metric declared without labels'
            self.table.pop(tuple(str(py_of(v)) for v in op[1]), None)
            return 'ok', ''
        _, args, kws, act, arg = op
        if args is None:
            exp = self.method_outcome(act, arg, bool(self.labelnames))
            if exp == 'ok' or (exp is None and real_out == 'ok'):
                self.single.append((act, arg))
            return exp, 'method on the metric object'
        exp, key = self.key_of(args, kws)
        if exp is None:
            return None, 'labels() call the statement does not classify'
        if exp != 'ok':
            return exp, 'labels() with wrong count or names'
        hist = self.table.setdefault(key, [])      # labels() is an accepted call: the child exists from here on
        exp = self.method_outcome(act, arg, False)
        if exp == 'ok' or (exp is None and real_out == 'ok'):
            hist.append((act, arg))
        return exp, 'method on a child'

    # -- values
    def series(self, hist):
        k = self.kind
        if k == 'counter':
            total = 0.0
            for act, arg in hist:
                if act == 'reset':
                    total = 0.0
                elif act == 'inc':
                    total = total + py_of(arg)
            return [('_total', {}, total)]
        if k == 'gauge':
            v = 0.0
            for act, arg in hist:
                if act == 'inc': v = v + py_of(arg)
                elif act == 'dec': v = v + (-py_of(arg))
                elif act == 'set': v = float(py_of(arg))
            return [('', {}, v)]
        obs = [py_of(arg) for act, arg in hist if act == 'observe']
        if k == 'summary':
            s = 0.0
            for o in obs:
                s = s + o
            return [('_count', {}, float(len(obs))), ('_sum', {}, s)]
        if k == 'histogram':
            out = []
            for b in self.bounds:
                out.append(('_bucket', {'le': go_label(b)}, float(sum(1 for o in obs if o <= b))))
            out.append(('_count', {}, float(sum(1 for o in obs if o <= INF))))
            if self.bounds[0] >= 0:
                s = 0.0
                for o in obs:
                    s = s + o
                out.append(('_sum', {}, s))
            return out
        if k == 'info':
            cur = {}
            for act, arg in hist:
                if act == 'info':
                    cur = dict((a, b) for a, b in arg)
            return [('_info', cur, 1.0)]
        if k == 'enum':
            cur = self.states[0] if self.states else None
            for act, arg in hist:
                if act == 'state':
                    cur = arg
            return [('', {self.name: s}, 1.0 if s == cur else 0.0) for s in self.states]
        raise ValueError(k)

    def observe(self):
        out = []
        if self.labelnames:
            for key, hist in self.table.items():
                base = dict(zip(self.labelnames, key))
                for suffix, labels, value in self.series(hist):
                    d = dict(base)
                    d.update(labels)
                    out.append((self.name + suffix, tuple(sorted((str(a), str(b)) for a, b in d.items())), lib.bits_of(value)))
        else:
            for suffix, labels, value in self.series(self.single):
                out.append((self.name + suffix, tuple(sorted((str(a), str(b)) for a, b in labels.items())), lib.bits_of(value)))
        self.seq = [(n, l) for n, l, _ in out]       # children in creation order, each child's samples in their fixed order
        out.sort()
        return out


def oracle(spec, ops, real, classify_alias=True):
    """-> list of (signature, description, step index) of oracle failures on the real code's run"""
    fails = []
    if real[0] != 'ok':
        return fails
    ref = Ref(spec)
    steps = real[1]
    if steps[0][1] != ref.observe():
        fails.append(('C01:initial-samples', 'fresh metric exposes %r, reference %r' % (steps[0][1], ref.observe()), 0))
    elif real[2][0] != ref.seq:
        fails.append(('C01:sample-order', 'fresh metric yields its samples in the order %r, reference %r' % (real[2][0][:6], ref.seq[:6]), 0))
    prev = steps[0][1]
    for i, op in enumerate(ops):
        out, obs = steps[i + 1]
        before = ref.observe()
        exp, note = ref.apply(op, out)
        want = ref.observe()
        if exp is not None and out != exp:
            parent_call = op[0] == 'call' and op[1] is None and bool(spec['labelnames'])
            if out == 'AttributeError' and exp == 'ValueError' and parent_call and spec['kind'] == 'counter' and op[3] == 'reset':
                fails.append((F7_RESET, 'Counter(labelnames=%r).reset() on the labelled parent raised AttributeError, '
                              'the statement requires ValueError' % (spec['labelnames'],), i + 1))
            elif out == 'AttributeError' and exp == 'ValueError' and parent_call and spec['kind'] == 'info' and op[3] == 'info':
                fails.append((F7_INFO, 'Info(labelnames=%r).info(...) on the labelled parent raised AttributeError, '
                              'the statement requires ValueError' % (spec['labelnames'],), i + 1))
            elif exp == 'ValueError' and out == 'ok':
                fails.append(('C01:not-rejected', 'step %d %r (%s) returned, the statement requires ValueError' % (i, op, note), i + 1))
            elif exp == 'ok':
                fails.append(('C01:accepted-call-raised', 'step %d %r (%s) raised %s' % (i, op, note, out), i + 1))
            else:
                fails.append(('C01:wrong-exception', 'step %d %r (%s) raised %s, expected %s' % (i, op, note, out, exp), i + 1))
        if obs == want and real[2][i + 1] != ref.seq:
            fails.append(('C01:sample-order', 'after step %d %r collect yields the samples in the order %r, the reference '
                          '(children in creation order, samples of a child in their fixed order) %r'
                          % (i, op, real[2][i + 1][:6], ref.seq[:6]), i + 1))
        if obs != want:
            if out != 'ok' and want == before:
                fails.append(('C01:rejected-call-mutated', 'step %d %r raised %s and changed the exposed samples: %s'
                              % (i, op, out, diff(obs, want)), i + 1))
            else:
                sig = (INT_SUM if int_after_reset(spec, ops[:i + 1]) else
                       INT_BUCKET if int_obs_on_boundary(spec, ops[:i + 1]) else 'C01:value-mismatch')
                fails.append((sig, 'after step %d %r collect differs from the reference (left-to-right floating-point sums): %s'
                              % (i, op, diff(obs, want)), i + 1))
        prev = obs
        if fails:
            break                                   # later steps depend on the diverged state
    if fails and classify_alias:
        targets = [op[1] for op in ops[:fails[0][2]] if op[0] == 'mutate']
        if targets:
            # does the failure need the caller's mutation?  (the same history without the mutations of one kind of object)
            for tgt in dict.fromkeys(reversed(targets)):
                plain = [op for op in ops if not (op[0] == 'mutate' and op[1] == tgt)]
                if not oracle(spec, plain, run_real(spec, plain), classify_alias=False):
                    fails = [(ALIAS_SIG[tgt], 'the caller mutated the %s object it had passed to the library and the exposed '
                              'samples / outcomes changed with no call on the metric: %s' % (tgt, w), st) for _, w, st in fails]
                    break
    return fails


def int_after_reset(spec, ops):
    """a counter history in which an int amount follows a reset()"""
    if spec['kind'] != 'counter':
        return False
    seen_reset = False
    for op in ops:
        if op[0] != 'call':
            continue
        if op[3] == 'reset':
            seen_reset = True
        elif op[3] == 'inc' and seen_reset and op[4][0] in ('i', 'b'):
            return True
    return False


def inexact_down(n):
    """an int whose nearest double lies BELOW it: float(n) <= b does not decide n <= b for the bound b == float(n)"""
    return isinstance(n, int) and not isinstance(n, bool) and abs(n) < 2 ** 1000 and float(n) < n


def prepared_bounds(spec):
    bs = [float(py_of(b)) for b in spec.get('buckets', [])]
    if bs and bs[-1] != INF:
        bs.append(INF)
    return bs


def int_obs_on_boundary(spec, ops):
    """a histogram history with an int observation that is no double"""
    if spec['kind'] != 'histogram':
        return False
    return any(op[0] == 'call' and op[3] == 'observe' and op[4][0] == 'i' and float(int(op[4][1])) != int(op[4][1]) for op in ops)


def model_blind(spec, ops):
    """The Lean model receives float(amount).  Python compares an int observation with a float bound EXACTLY; the two agree
    for every bound except b == float(n) when float(n) < n (n rounds DOWN onto the bound).  Such histories are judged by
    the oracle (exact comparison) only and are not sent to the model."""
    if spec['kind'] != 'histogram':
        return False
    bs = None
    for op in ops:
        if op[0] == 'call' and op[3] == 'observe' and op[4][0] == 'i' and inexact_down(int(op[4][1])):
            bs = prepared_bounds(spec) if bs is None else bs
            if float(int(op[4][1])) in bs:
                return True
    return False


def diff(obs, want):
    a = [x for x in obs if x not in want]
    b = [x for x in want if x not in obs]
    def show(x):
        return '%s%s=%r' % (x[0], dict(x[1]), lib.from_bits(x[2]))
    return 'real-only [%s] / reference-only [%s]' % (', '.join(map(show, a[:4])), ', '.join(map(show, b[:4])))


# ------------------------------------------------------------------------------------------------ model reply
def parse_obs_list(field, seqs=None):
    steps = []
    for part in field.split(';'):
        out, _, ss = part.partition('@')
        obs = []
        if ss != '.':
            for s in ss.split(','):
                name, labels, val = s.split('!')
                d = {}
                if labels != '.':
                    for kv in labels.split('+'):
                        k, v = kv.split('=')
                        d[lib.unhx(k)] = lib.unhx(v)          # dict(): a later duplicate key wins, as in _multi_samples
                obs.append((lib.unhx(name), tuple(sorted(d.items())), int(val[2:])))
        if seqs is not None:
            seqs.append([(n, l) for n, l, _ in obs])
        obs.sort()
        steps.append((out, obs))
    return steps


# ------------------------------------------------------------------------------------------------ generators
ORDINARY = [0.5, 1.0, 2.25, 100.125, 0.1, 3.0, 1e-3, 7.0, 0.0]
HUGE = [2.0 ** 53 + 2, 1e300, 1.7976931348623157e308, 9.007199254740993e15, 1e22]
TINY = [5e-324, 1e-300, 2.2250738585072014e-308, 1e-17]
NEG = [-1.0, -0.5, -1e300, -5e-324, -0.0, -2.0 ** 53]
SPECIAL = [INF, -INF, float('nan')]
INTS = [0, 1, 2, 7, 2 ** 53, 2 ** 60, -3, -1, 1000000]
# ints that are NOT exactly representable as a double: float + int and float(int) round them to the nearest double, which
# is what the model receives.  In Histogram.observe `amount <= bound` compares the int with the float bound exactly: the oracle
# does the same; see model_blind() for the one case the float(n) model cannot express.
INTS_INEXACT = [2 ** 53 + 1, 10 ** 17 + 1, -(2 ** 60) + 3, 2 ** 53 + 3, 3 * 2 ** 53 + 1, 10 ** 22 + 7, -(2 ** 53) - 1, 1]
BOOLS = [True, False]

LEGACY_NAMES = ['l', 'a', 'b', 'method', 'code_2', '_x', 'Le', 'path']
UTF8_NAMES = ['é', 'a.b', 'x y', '温度', 'l-1', 'ünï', '0a', 'a"b', '']
SEQ_VALUES = [['t', [['s', 'a']]], ['l', [['s', 'a']]], ['t', [['s', 'a'], ['s', 'b']]], ['l', [['s', 'a'], ['s', 'b']]], ['t', []],
              ['t', [['i', 1], ['s', 'x']]], ['l', [['n'], ['b', True]]], ['s', "('a',)"], ['s', "['a', 'b']"], ['s', "('a', 'b')"]]
LABEL_VALUES = [['s', 'a'], ['s', 'b'], ['s', ''], ['s', '1'], ['i', 1], ['s', 'True'], ['b', True], ['b', False],
                ['s', 'None'], ['n'], ['s', '1.0'], F(1.0), F(0.1), ['s', '0.1'], ['i', 0], ['i', -5], ['s', '-5'],
                ['i', 10 ** 20], ['s', 'é ü'], ['s', 'x\ny'], ['s', 'a"b\\'], F(INF), ['s', 'inf'], F(float('nan')),
                ['s', 'nan'], F(1e16), F(-0.0), ['s', '温'], ['s', 'a'], ['s', 'b'], ['s', 'c']]
# str-subclass label values (C01's own run only) and the plain strings they collide with: str(x) / their character data
SUB_VALUES = [['u', 'enum', 'a'], ['u', 'mask', 'a'], ['u', 'tag', 'b'], ['u', 'enum', 'red'], ['u', 'mask', 'x\ny'], ['u', 'tag', ''],
              ['u', 'enum', 'Color.MEMBER'], ['s', 'Color.MEMBER'], ['s', '***'], ['s', 'tag:b'], ['s', 'red'], ['s', 'tag:']]
BOUND_POOL = [-10.0, -2.5, -1.0, -0.0, 0.0, 5e-324, 0.005, 0.1, 0.5, 1.0, 2.5, 10.0, 1e6, 1e16, 2.0 ** 53, 1e17, 1e22, 1e300,
              -(2.0 ** 53), 2.0 ** 53, 1e17]


def tag_amount(x):
    if isinstance(x, bool): return ['b', x]
    if isinstance(x, int): return ['i', x]
    return F(x)


def gen_amount(rng, bounds=None, for_dec=False, inexact=False, bound_ints=False):
    r = rng.random()
    if bounds and r < 0.3:
        x = rng.choice(bounds)
        if bound_ints and math.isfinite(x) and abs(x) >= 2.0 ** 53 and abs(x) < 1e30 and rng.random() < 0.6:
            # an INT around a bound that ints no longer fill: 2**53 +- k, 10**17 +- k, 10**22 +- k.  Python compares it with
            # the float bound exactly, and adds float(n) to the sum
            return ['i', int(x) + rng.choice([-17, -3, -2, -1, 0, 1, 2, 3, 9, 17, 1025])]
        if rng.random() < 0.3:
            x = math.nextafter(x, rng.choice([INF, -INF]))
        return F(x)
    pool = rng.choice([ORDINARY, ORDINARY, ORDINARY, HUGE, TINY, NEG, SPECIAL, INTS, BOOLS] + ([INTS_INEXACT, INTS_INEXACT] if inexact else []))
    x = rng.choice(pool)
    if for_dec and not isinstance(x, float) and x == 0:
        x = 0.0          # `-0` is the int 0 while `-0.0` is a negative zero: an int zero has no float stand-in under `dec`
    return tag_amount(x)


def gen_spec(rng, kind=None, nlabels=None):
    kind = kind or rng.choice(KINDS)
    legacy = rng.random() < 0.4
    n = rng.choice([0, 1, 1, 2, 2, 3]) if nlabels is None else nlabels
    pool = list(LEGACY_NAMES) if (legacy or rng.random() < 0.5) else LEGACY_NAMES + UTF8_NAMES
    if rng.random() < 0.06:
        pool = pool + ['__r', 'le', 'quantile', 'é', 'm']          # sometimes rejected by the constructor
    names = rng.sample(pool, n)
    spec = {'kind': kind, 'name': rng.choice(['m', 'req_x', 'h1']), 'labelnames': names, 'legacy': legacy}
    if kind == 'histogram':
        r = rng.random()
        if r < 0.05:
            bs = rng.choice([[], [INF], [1.0, 0.5], [2.0]])
        else:
            k = rng.choice([1, 2, 3, 3, 4, 6])
            bs = sorted(rng.choice(BOUND_POOL) for _ in range(k))
            if rng.random() < 0.3:
                bs.append(INF)
        spec['buckets'] = [tag_amount(int(b)) if (math.isfinite(b) and b == int(b) and abs(b) < 2 ** 53 and b != 0 and rng.random() < 0.2)
                           else F(b) for b in bs]
    if kind == 'enum':
        k = rng.choice([1, 2, 3, 4]) if rng.random() > 0.04 else 0
        spec['states'] = rng.sample(['starting', 'running', 'stopped', 'é', '', 'a b', 'x'], k)
    return spec


def spec_bounds(spec):
    if spec['kind'] != 'histogram':
        return None
    return [float(py_of(b)) for b in spec['buckets']] or None


def gen_args(rng, spec, live, extended=False):
    """a labels() argument pair (args, kws); mostly well-formed, mostly addressing a few children"""
    names = spec['labelnames']
    n = len(names)
    r = rng.random()
    if live and r < 0.45:
        vals = list(rng.choice(live))             # re-address an existing child (by the values used before)
    else:
        vals = [rng.choice(LABEL_VALUES[-6:] if rng.random() < 0.6 else LABEL_VALUES) for _ in range(n)]
    if extended and rng.random() < 0.15:
        vals = [rng.choice(SUB_VALUES) if rng.random() < 0.7 else v for v in vals]      # str-subclass instances as label values
    if rng.random() < 0.12:
        vals = [rng.choice(SEQ_VALUES) if rng.random() < 0.6 else v for v in vals]     # tuples / lists as label VALUES
    if rng.random() < 0.5:
        # the same child through values that stringify equally
        vals = [restring(rng, v) for v in vals]
    r = rng.random()
    if rng.random() < 0.06:
        # all the values packed into ONE positional argument: one value, so a wrong count unless one label is declared
        return [[rng.choice(['t', 'l']), vals]], []
    if r < 0.05:
        return vals + [['s', 'extra']], []
    if r < 0.09 and n:
        return vals[:-1], []
    if r < 0.12 and n:
        return vals[:1], [[names[-1], vals[-1]]]
    if n and r < 0.5:
        kws = [[names[i], vals[i]] for i in range(n)]
        rng.shuffle(kws)
        q = rng.random()
        if q < 0.05:
            kws = kws[:-1]
        elif q < 0.1:
            kws.append(['zz', ['s', 'v']])
        elif q < 0.14:
            kws[0] = [kws[0][0] + 'x', kws[0][1]]
        return [], kws
    return vals, []


def restring(rng, v):
    s = str(py_of(v))
    alts = [['s', s]]
    if v[0] != 's':
        alts.append(v)
    if s in ('True', 'False'): alts.append(['b', s == 'True'])
    if s == 'None': alts.append(['n'])
    try:
        if str(int(s)) == s: alts.append(['i', int(s)])
    except ValueError:
        pass
    try:
        if str(float(s)) == s: alts.append(F(float(s)))
    except ValueError:
        pass
    if v[0] == 'u':
        alts += [v, v]
    for u in SUB_VALUES:                       # str-subclass instances with the same str() (only where one is in play already)
        if u[0] == 'u' and (v[0] == 'u' or s in ('Color.MEMBER', '***')) and str(py_of(u)) == s:
            alts.append(u)
    return rng.choice(alts)


def gen_action(rng, spec, extended=False):
    kind = spec['kind']
    if rng.random() < 0.03:
        act = rng.choice(['inc', 'dec', 'set', 'observe', 'reset', 'state', 'info'])     # maybe not a method of the class
    elif rng.random() < 0.06:
        return 'touch', None
    else:
        act = rng.choice(METHODS[kind])
        if kind == 'counter' and act == 'reset' and rng.random() < 0.5:
            act = 'inc'                              # reset about a quarter of the counter calls
    if act in ('inc', 'dec', 'set', 'observe'):
        hist = kind == 'histogram'
        return act, gen_amount(rng, spec_bounds(spec), for_dec=(act == 'dec'), inexact=(extended or not hist),
                               bound_ints=(extended and hist))
    if act == 'state':
        sts = spec.get('states') or ['x']
        return act, (rng.choice(sts) if rng.random() < 0.85 else rng.choice(['nope', '', 'Starting']))
    if act == 'info':
        k = rng.choice([0, 1, 2, 3])
        keys = rng.sample(['version', 'build', 'é', 'x y', 'host'] + (spec['labelnames'] if rng.random() < 0.15 else []), k)
        return act, [[kk, (None if rng.random() < 0.05 else rng.choice(['1.2.3', '', 'ü', 'a"b', 'x']))] for kk in keys]
    return act, None


# Objects the caller may go on mutating after handing them to the library: every one must have been COPIED on entry
# (`info` dicts; the `labelnames`, Enum `states` and Histogram `buckets` sequences given to the constructors).
def alias_targets(spec):
    ts = ['labelnames']
    if spec['kind'] == 'info':
        ts += ['info', 'info', 'info']
    if spec['kind'] == 'enum':
        ts += ['states', 'states', 'states']
    if spec['kind'] == 'histogram':
        ts += ['buckets', 'buckets', 'buckets']
    return ts


def gen_mutate(rng, spec):
    target = rng.choice(alias_targets(spec))
    if target == 'info':
        how = rng.choice(['set', 'set', 'pop', 'clear'])
        return ['mutate', 'info', rng.choice([-1, -1, 0, 1, 2]), how, rng.choice(['version', 'build', 'zz', 'é']),
                rng.choice(['9', '', 'x'])]
    how = rng.choice(['append', 'append', 'pop', 'clear', 'reverse', 'set0'])
    if target == 'buckets':
        value = F(rng.choice(BOUND_POOL))
    else:
        value = rng.choice(['zz', 'running', 'l', 'é'])
    return ['mutate', target, -1, how, None, value]


def gen_history(rng, spec, length, extended=False):
    """`extended` (C01's own run): also caller-side mutations of objects passed earlier (6-field 'mutate' ops) and int
    observations that are no doubles around histogram bounds; other properties that reuse this generator get neither"""
    ops = []
    live = []
    n = len(spec['labelnames'])
    p_mut = (0.12 if spec['kind'] == 'info' else 0.06 if spec['kind'] in ('enum', 'histogram') else 0.02) if extended else 0.0
    for _ in range(length):
        r = rng.random()
        if rng.random() < p_mut:
            ops.append(gen_mutate(rng, spec))
        elif r < 0.07:
            ops.append(['clear'])
        elif r < 0.2:
            if live and rng.random() < 0.7:
                vals = [restring(rng, v) for v in rng.choice(live)]
            else:
                vals = [rng.choice(LABEL_VALUES + SUB_VALUES if extended else LABEL_VALUES) for _ in range(n)]
            if rng.random() < 0.08:
                vals = vals + [['s', 'q']] if rng.random() < 0.5 else vals[:-1]
            elif rng.random() < 0.06:
                vals = [[rng.choice(['t', 'l']), vals]]
            ops.append(['remove', vals])
        else:
            act, arg = gen_action(rng, spec, extended)
            if (n == 0 and rng.random() < 0.9) or (n > 0 and rng.random() < 0.06):
                ops.append(['call', None, None, act, arg])
            else:
                args, kws = gen_args(rng, spec, live, extended)
                if len(args) == n and not kws:
                    live.append(args)
                    live[:] = live[-5:]
                ops.append(['call', args, kws, act, arg])
    return ops


def alphabet(kind, extended=False):
    """a 13-op alphabet on the fixed registry  <kind>('m', labelnames=['l','k'])  (two labels, so that keyword order,
    removal of one of two children sharing a label value, and stringification all matter)"""
    A = [['s', 'a'], ['s', '1']]            # child (a,1)
    A_kw = [['k', ['i', 1]], ['l', ['s', 'a']]]           # the same child: keyword, permuted, int value
    B = [['s', 'a'], ['s', '2']]            # shares the first label value with A
    def call(args, kws, act, arg): return ['call', args, kws, act, arg]
    if kind == 'counter':
        acts = [('inc', ['i', 1]), ('inc', ['i', 2 ** 53 + 1]), ('inc', F(-1.0)), ('reset', None)]
    elif kind == 'gauge':
        acts = [('inc', F(1.5)), ('dec', F(0.25)), ('set', F(-3.0)), ('set', F(float('nan')))]
    elif kind == 'summary':
        acts = [('observe', F(1.5)), ('observe', F(-2.0)), ('observe', F(2.0 ** 53)), ('observe', F(INF))]
    elif kind == 'histogram':
        acts = [('observe', F(0.0)), ('observe', F(1.0)), ('observe', F(1.0000000000000002)), ('observe', F(float('nan')))]
    elif kind == 'info':
        acts = [('info', [['v', '1']]), ('info', [['v', '2'], ['w', '']]), ('info', []), ('info', [['l', 'x']])]
    else:
        acts = [('state', 'run'), ('state', 'stop'), ('state', 'nope'), ('state', 'start')]
    ops = []
    ops.append(call(A, [], *acts[0]))
    ops.append(call([], A_kw, *acts[1]))
    ops.append(call(A, [], *acts[2]))
    ops.append(call(B, [], *acts[0]))
    ops.append(call(A, [], *acts[3]))
    ops.append(call([], [['l', ['s', '1']], ['k', ['s', 'a']]], *acts[0]))     # child (1,a): keyword, other values
    ops.append(call([['s', 'a']], [], *acts[0]))                            # wrong count
    ops.append(call([], [['l', ['s', 'a']], ['x', ['s', '1']]], *acts[0]))    # wrong names
    ops.append(call(None, None, *acts[0]))                                  # labelled parent without labels
    ops.append(['remove', [['s', 'a'], ['i', 1]]])
    ops.append(['clear'])
    ops.append(call(A, [], 'touch', None))
    ops.append(call([['t', A]], [], *acts[0]))                              # both values as ONE tuple: wrong count
    if kind == 'enum' and extended:
        ops.append(['mutate', 'states', -1, 'append', None, 'zz'])          # the caller goes on using its states list
    if kind == 'histogram' and extended:
        ops.append(['mutate', 'buckets', -1, 'append', None, F(0.5)])       # ... its buckets list (now unsorted)
    if kind == 'info' and extended:
        ops.append(['mutate', 'info', -1, 'set', 'zz', '9'])                # the caller reuses the dict it passed last
        ops.append(['mutate', 'info', 0, 'clear', None, None])              # ... or the one it passed first
    return ops


def fixed_spec(kind, labelnames):
    spec = {'kind': kind, 'name': 'm', 'labelnames': labelnames, 'legacy': True}
    if kind == 'histogram':
        spec['buckets'] = [F(0.0), F(1.0), F(2.5)]
    if kind == 'enum':
        spec['states'] = ['start', 'run', 'stop']
    return spec


def alphabet0(kind, extended=False):
    """alphabet on the unlabelled registry <kind>('m')"""
    ops = []
    for op in alphabet(kind)[:5]:
        ops.append(['call', None, None, op[3], op[4]])
    ops.append(['call', [], [], 'touch', None])
    ops.append(['call', [['s', 'a']], [], 'touch', None])
    ops.append(['remove', []])
    ops.append(['clear'])
    if kind == 'enum' and extended:
        ops.append(['mutate', 'states', -1, 'clear', None, None])
    if kind == 'histogram' and extended:
        ops.append(['mutate', 'buckets', -1, 'clear', None, None])
    if kind == 'info' and extended:
        ops.append(['mutate', 'info', -1, 'set', 'zz', '9'])
        ops.append(['mutate', 'info', 0, 'clear', None, None])
    return ops


CORPUS = [
    # F7 (repaired: both raise ValueError now)
    ({'kind': 'counter', 'name': 'm', 'labelnames': ['l'], 'legacy': True}, [['call', None, None, 'reset', None]]),
    ({'kind': 'info', 'name': 'm', 'labelnames': ['l'], 'legacy': True}, [['call', None, None, 'info', []]]),
    # inc(0), inc(-0.0), inc(nan) are accepted; inc(-5e-324) is not
    ({'kind': 'counter', 'name': 'm', 'labelnames': [], 'legacy': True},
     [['call', None, None, 'inc', ['i', 0]], ['call', None, None, 'inc', F(-0.0)], ['call', None, None, 'inc', F(float('nan'))],
      ['call', None, None, 'inc', F(-5e-324)], ['call', None, None, 'reset', None], ['call', None, None, 'inc', F(2.0)]]),
    # int amounts that are not doubles, also after reset(): the sums are floating-point sums (int-sum-after-reset)
    ({'kind': 'counter', 'name': 'm', 'labelnames': [], 'legacy': True},
     [['call', None, None, 'reset', None], ['call', None, None, 'inc', ['i', 2 ** 53 + 1]], ['call', None, None, 'inc', ['i', 1]],
      ['call', None, None, 'inc', ['i', 1]], ['call', None, None, 'reset', None], ['call', None, None, 'inc', ['i', 10 ** 17 + 1]],
      ['call', None, None, 'inc', ['i', 3]], ['call', None, None, 'inc', F(0.5)], ['call', None, None, 'inc', ['b', True]]]),
    ({'kind': 'counter', 'name': 'm', 'labelnames': ['l'], 'legacy': True},
     [['call', [['s', 'a']], [], 'inc', ['i', 2 ** 53 + 1]], ['call', [['s', 'a']], [], 'inc', ['i', 1]],
      ['call', [['s', 'a']], [], 'reset', None], ['call', [['s', 'a']], [], 'inc', ['i', 2 ** 53 + 1]],
      ['call', [['s', 'a']], [], 'inc', ['i', 1]], ['call', [['s', 'a']], [], 'inc', ['i', -(2 ** 60) + 3]]]),
    ({'kind': 'gauge', 'name': 'm', 'labelnames': [], 'legacy': True},
     [['call', None, None, 'set', ['i', 10 ** 17 + 1]], ['call', None, None, 'inc', ['i', 2 ** 53 + 1]],
      ['call', None, None, 'dec', ['i', -(2 ** 60) + 3]], ['call', None, None, 'dec', ['i', 2 ** 53 + 1]]]),
    ({'kind': 'summary', 'name': 'm', 'labelnames': [], 'legacy': True},
     [['call', None, None, 'observe', ['i', 2 ** 53 + 1]], ['call', None, None, 'observe', ['i', 1]],
      ['call', None, None, 'observe', ['i', -(2 ** 60) + 3]]]),
    # keyword labels in permuted order, non-string values
    ({'kind': 'gauge', 'name': 'm', 'labelnames': ['a', 'b', 'c'], 'legacy': True},
     [['call', [['s', 'x'], ['i', 1], ['b', True]], [], 'inc', F(1.0)],
      ['call', [], [['c', ['s', 'True']], ['a', ['s', 'x']], ['b', ['s', '1']]], 'inc', F(2.0)],
      ['call', [['s', 'True'], ['s', '1'], ['s', 'x']], [], 'dec', F(4.0)],
      ['remove', [['s', 'x'], ['s', '1'], ['s', 'True']]],
      ['call', [], [['b', ['i', 1]], ['c', ['b', True]], ['a', ['s', 'x']]], 'touch', None]]),
    # observation exactly on a bound, negative first bound, first bound exactly zero, NaN observation
    ({'kind': 'histogram', 'name': 'm', 'labelnames': [], 'legacy': True, 'buckets': [F(-1.0), F(0.0), F(1.0)]},
     [['call', None, None, 'observe', F(-1.0)], ['call', None, None, 'observe', F(0.0)], ['call', None, None, 'observe', F(-0.0)],
      ['call', None, None, 'observe', F(1.0)], ['call', None, None, 'observe', F(float('nan'))], ['call', None, None, 'observe', F(INF)]]),
    ({'kind': 'histogram', 'name': 'm', 'labelnames': [], 'legacy': True, 'buckets': [F(0.0), F(1.0)]},
     [['call', None, None, 'observe', F(0.0)], ['call', None, None, 'observe', F(5e-324)]]),
    ({'kind': 'histogram', 'name': 'm', 'labelnames': [], 'legacy': True, 'buckets': [F(-0.0), F(1.0)]},
     [['call', None, None, 'observe', F(0.5)]]),
    # remove one of two children sharing the first label value; clear twice; re-created child restarts from zero
    ({'kind': 'counter', 'name': 'm', 'labelnames': ['l', 'k'], 'legacy': True},
     [['call', [['s', 'a'], ['s', '1']], [], 'inc', F(1.0)], ['call', [['s', 'a'], ['s', '2']], [], 'inc', F(2.0)],
      ['remove', [['s', 'a'], ['s', '1']]], ['call', [['s', 'a'], ['s', '1']], [], 'inc', F(4.0)], ['clear'],
      ['call', [['s', 'a'], ['s', '2']], [], 'inc', F(8.0)], ['clear'], ['clear'],
      ['call', [['s', 'a'], ['s', '2']], [], 'inc', F(16.0)]]),
    # a tuple / list is ONE label value (its str() text), positionally, by keyword and in remove(); never unpacked
    ({'kind': 'counter', 'name': 'm', 'labelnames': ['l'], 'legacy': True},
     [['call', [['t', [['s', 'a']]]], [], 'inc', F(1.0)], ['call', [], [['l', ['t', [['s', 'a']]]]], 'inc', F(2.0)],
      ['call', [['s', "('a',)"]], [], 'inc', F(4.0)], ['call', [['s', 'a']], [], 'inc', F(8.0)],
      ['call', [['l', [['s', 'a']]]], [], 'inc', F(16.0)], ['remove', [['t', [['s', 'a']]]]],
      ['call', [['t', [['s', 'a']]]], [], 'touch', None], ['remove', [['s', 'a']]]]),
    ({'kind': 'gauge', 'name': 'm', 'labelnames': ['l', 'k'], 'legacy': True},
     [['call', [['t', [['s', 'a'], ['s', 'b']]]], [], 'inc', F(1.0)], ['call', [['l', [['s', 'a'], ['s', 'b']]]], [], 'inc', F(1.0)],
      ['call', [['t', [['s', 'a']]], ['l', [['s', 'b']]]], [], 'inc', F(2.0)],
      ['call', [], [['k', ['s', "['b']"]], ['l', ['s', "('a',)"]]], 'inc', F(4.0)],
      ['remove', [['t', [['s', 'a'], ['s', 'b']]]]], ['remove', [['s', "('a',)"], ['l', [['s', 'b']]]]]]),
    # the caller keeps mutating what it passed: info() installs a COPY, the constructors copy labelnames
    ({'kind': 'info', 'name': 'm', 'labelnames': [], 'legacy': True},
     [['call', None, None, 'info', [['a', '1']]], ['mutate', 'info', -1, 'set', 'b', '2'], ['mutate', 'info', -1, 'set', 'a', 'x'],
      ['mutate', 'info', -1, 'clear', None, None], ['call', None, None, 'info', [['c', '3']]], ['mutate', 'info', 0, 'set', 'q', '1'],
      ['mutate', 'info', 1, 'pop', 'c', None]]),
    ({'kind': 'info', 'name': 'm', 'labelnames': ['l'], 'legacy': True},
     [['call', [['s', 'x']], [], 'info', [['a', '1']]], ['mutate', 'info', -1, 'set', 'l', 'clash'], ['call', [['s', 'y']], [], 'info', [['a', '2']]],
      ['mutate', 'info', 0, 'clear', None, None], ['mutate', 'labelnames', -1, 'append', None, 'k'], ['call', [['s', 'z']], [], 'info', []]]),
    ({'kind': 'counter', 'name': 'm', 'labelnames': ['l'], 'legacy': True},
     [['mutate', 'labelnames', -1, 'append', None, 'k'], ['call', [['s', 'x']], [], 'inc', F(1.0)], ['mutate', 'labelnames', -1, 'clear', None, None],
      ['call', [], [['l', ['s', 'x']]], 'inc', F(1.0)]]),
    ({'kind': 'enum', 'name': 'm', 'labelnames': [], 'legacy': True, 'states': ['a', 'b']},
     [['mutate', 'states', -1, 'append', None, 'c'], ['call', None, None, 'state', 'c'], ['mutate', 'states', -1, 'clear', None, None],
      ['call', None, None, 'state', 'b']]),
    ({'kind': 'enum', 'name': 'm', 'labelnames': ['l'], 'legacy': True, 'states': ['a', 'b']},
     [['call', [['s', 'x']], [], 'state', 'b'], ['mutate', 'states', -1, 'clear', None, None], ['call', [['s', 'y']], [], 'touch', None],
      ['mutate', 'states', -1, 'append', None, 'c'], ['call', [['s', 'z']], [], 'state', 'c']]),
    ({'kind': 'histogram', 'name': 'm', 'labelnames': ['l'], 'legacy': True, 'buckets': [F(1.0), F(2.0)]},
     [['call', [['s', 'x']], [], 'observe', F(1.5)], ['mutate', 'buckets', -1, 'append', None, F(0.5)], ['call', [['s', 'y']], [], 'observe', F(0.7)],
      ['mutate', 'buckets', -1, 'pop', None, None], ['mutate', 'buckets', -1, 'append', None, F(3.0)], ['call', [['s', 'z']], [], 'observe', F(2.5)]]),
    ({'kind': 'histogram', 'name': 'm', 'labelnames': [], 'legacy': True, 'buckets': [F(1.0), F(2.0)]},
     [['mutate', 'buckets', -1, 'clear', None, None], ['call', None, None, 'observe', F(1.5)]]),
    # int observations that are no doubles, around bounds ints no longer fill: compared EXACTLY with the float bound
    ({'kind': 'histogram', 'name': 'm', 'labelnames': [], 'legacy': True, 'buckets': [F(2.0 ** 53), F(1e17), F(1e22)]},
     [['call', None, None, 'observe', ['i', 10 ** 17 + 3]], ['call', None, None, 'observe', ['i', 10 ** 17 - 3]],
      ['call', None, None, 'observe', ['i', 2 ** 53 + 1]], ['call', None, None, 'observe', ['i', 2 ** 53 - 1]],
      ['call', None, None, 'observe', ['i', 10 ** 22 + 7]], ['call', None, None, 'observe', ['i', 10 ** 22 - 7]],
      ['call', None, None, 'observe', ['i', 10 ** 17]], ['call', None, None, 'observe', ['i', 2 ** 53 + 2]]]),
    ({'kind': 'histogram', 'name': 'm', 'labelnames': ['l'], 'legacy': True, 'buckets': [F(1.0), F(1e17)]},
     [['call', [['s', 'a']], [], 'observe', ['i', 10 ** 17 + 3]], ['call', [['s', 'a']], [], 'observe', ['i', 10 ** 17 + 9]],
      ['call', [['s', 'a']], [], 'observe', F(1e17)]]),
    ({'kind': 'summary', 'name': 'm', 'labelnames': [], 'legacy': True},
     [['call', None, None, 'observe', ['i', 10 ** 17 + 3]], ['call', None, None, 'observe', ['i', 10 ** 22 + 7]]]),
    # str-subclass instances as label values (str-mixin Enum member, masking string, tagged string): the child addressed is
    # the one named str(value) — positionally, by keyword and in remove() — never the one named by the character data
    ({'kind': 'counter', 'name': 'm', 'labelnames': ['color'], 'legacy': True},
     [['call', [['u', 'enum', 'red']], [], 'inc', F(1.0)], ['call', [['s', 'Color.MEMBER']], [], 'inc', F(2.0)],
      ['call', [['s', 'red']], [], 'inc', F(4.0)], ['call', [], [['color', ['u', 'enum', 'red']]], 'inc', F(8.0)],
      ['remove', [['u', 'enum', 'red']]], ['call', [['u', 'enum', 'red']], [], 'touch', None], ['remove', [['s', 'red']]],
      ['call', [['u', 'enum', 'blue']], [], 'inc', F(16.0)]]),
    ({'kind': 'gauge', 'name': 'm', 'labelnames': ['kind', 'where'], 'legacy': True},
     [['call', [['i', 1], ['u', 'tag', 'attic']], [], 'inc', F(1.0)], ['call', [], [['where', ['s', 'attic']], ['kind', ['u', 'mask', '1']]], 'inc', F(2.0)],
      ['call', [['s', '***'], ['s', 'attic']], [], 'inc', F(4.0)], ['call', [['s', '1'], ['s', 'tag:attic']], [], 'inc', F(8.0)],
      ['remove', [['i', 1], ['u', 'tag', 'attic']]], ['call', [['s', '1'], ['u', 'tag', 'attic']], [], 'inc', F(16.0)],
      ['remove', [['u', 'mask', 'zz'], ['s', 'attic']]], ['call', [['u', 'mask', ''], ['u', 'enum', 'attic']], [], 'touch', None]]),
    ({'kind': 'histogram', 'name': 'm', 'labelnames': ['l'], 'legacy': False, 'buckets': [F(1.0)]},
     [['call', [['u', 'mask', 'x\ny']], [], 'observe', F(0.5)], ['call', [['s', 'x\ny']], [], 'observe', F(2.0)],
      ['call', [], [['l', ['u', 'tag', '']]], 'observe', F(1.0)], ['remove', [['s', 'tag:']]], ['call', [['s', '***']], [], 'observe', F(1.0)]]),
    # enum / info
    ({'kind': 'enum', 'name': 'm', 'labelnames': ['l'], 'legacy': True, 'states': ['a', 'b']},
     [['call', [['s', 'x']], [], 'state', 'b'], ['call', [['s', 'x']], [], 'state', 'zz'], ['call', None, None, 'state', 'a']]),
    ({'kind': 'info', 'name': 'm', 'labelnames': [], 'legacy': True},
     [['call', None, None, 'info', [['a', '1']]], ['call', None, None, 'info', [['a', None]]], ['clear'], ['clear']]),
    # UTF-8 label names, legacy validation off; duplicate label names
    ({'kind': 'summary', 'name': 'm', 'labelnames': ['é', 'a.b'], 'legacy': False},
     [['call', [], [['a.b', ['i', 1]], ['é', ['n']]], 'observe', F(0.1)], ['call', [['s', 'None'], ['s', '1']], [], 'observe', F(0.2)]]),
    ({'kind': 'summary', 'name': 'm', 'labelnames': ['é'], 'legacy': True}, []),
]


# ------------------------------------------------------------------------------------------------ running
def driver_run(ctx, lines):
    """ctx.driver.run, tolerant of the binary being re-linked by a concurrent build in the shared tree"""
    import time
    for attempt in range(8):
        try:
            return ctx.driver.run(lines)
        except (FileNotFoundError, PermissionError, OSError):
            time.sleep(3)
    raise lib.Infra('model driver binary unavailable (concurrent rebuild?)')


class Batch:
    def __init__(self, ctx):
        self.ctx = ctx
        self.cases = []
        self.nfail = {}
        self.ndiv = 0

    def add(self, spec, ops, label):
        ctx = self.ctx
        real = run_real(spec, ops)
        self.cases.append((spec, ops, real))
        ctx.count('kind:' + spec['kind'])
        ctx.count('labels:%d' % len(spec['labelnames']))
        ctx.count('src:' + label)
        if real[0] == 'err':
            ctx.count('constructor:' + real[1])
            ctx.case(None, None)
            return
        outs = [o for o, _ in real[1][1:]]
        for o in outs:
            ctx.count('out:' + o)
        ctx.count('len:%s' % ('0-4' if len(ops) < 5 else '5-49' if len(ops) < 50 else '50+'))
        changed = any(real[1][i][1] != real[1][i + 1][1] for i in range(len(ops)))
        ctx.case(json.dumps([spec, ops], sort_keys=True) if changed else None,
                 {'spec': spec, 'ops': ops[:6], 'outcomes': outs[:6]} if label != 'exhaustive' else None)
        fails = oracle(spec, ops, real)
        for sig, what, step in fails:
            ctx.count('oracle-fail:' + sig)
            self.nfail[sig] = self.nfail.get(sig, 0) + 1
            if self.nfail[sig] > 3:
                continue                            # three shrunk witnesses per signature are enough
            small = shrink(spec, ops[:step], sig)
            fs = oracle(spec, small, run_real(spec, small))
            what2 = next((w for s, w, _ in fs if s == sig), what)
            ctx.fail(sig, what2, {'spec': spec, 'ops': small})

    def flush(self):
        ctx = self.ctx
        cases, self.cases = self.cases, []
        blind = [c for c in cases if model_blind(c[0], c[1])]
        if blind:
            ctx.count('t2-skipped:int-observation-rounds-down-onto-a-bound', len(blind))
            cases = [c for c in cases if not model_blind(c[0], c[1])]
        replies = driver_run(ctx, [wire_line(spec, ops) for spec, ops, _ in cases])
        if replies is None:
            return
        for (spec, ops, real), rep in zip(cases, replies):
            ctx.traces += 1
            case = {'spec': spec, 'ops': ops}
            f = rep.split(' ')
            if real[0] == 'err':
                if f[0] != 'err' or f[1] != real[1]:
                    ctx.diverge('constructor raised %s, model says %r' % (real[1], rep[:80]), case)
                continue
            if f[0] != 'ok' or len(f) != 3:
                ctx.diverge('constructor succeeded, model says %r' % rep[:80], case)
                continue
            mseqs = []
            model = parse_obs_list(f[1], mseqs)
            spec_obs = parse_obs_list(f[2])
            if model != real[1]:
                k = next((i for i in range(min(len(model), len(real[1]))) if model[i] != real[1][i]), 0)
                self.ndiv += 1
                small = shrink_div(ctx, spec, ops[:k]) if (k and self.ndiv <= 3) else ops[:k]
                ctx.diverge('step %d (%r): implementation %s / %s, model %s / %s' % (
                    k - 1, ops[k - 1] if k else None, real[1][k][0], diff(real[1][k][1], model[k][1]), model[k][0], ''),
                    {'spec': spec, 'ops': small})
            elif mseqs != real[2]:
                k = next((i for i in range(min(len(mseqs), len(real[2]))) if mseqs[i] != real[2][i]), 0)
                ctx.diverge('step %d: sample order differs: implementation %r, model %r' % (k - 1, real[2][k][:6], mseqs[k][:6]),
                            {'spec': spec, 'ops': ops[:k]})
            if spec_obs != [('ok' if o == 'Aliased' else o, x) for o, x in model]:     # `Aliased` is the model's own verdict, not the spec's
                k = next((i for i in range(min(len(model), len(spec_obs))) if model[i] != spec_obs[i]), 0)
                if not hyp_violated(spec):
                    ctx.diverge('theorem collect_refines_spec fails at run time: step %d model %s spec %s' % (
                        k - 1, model[k][1][:3], spec_obs[k][1][:3]), {'spec': spec, 'ops': ops[:k]})


def hyp_violated(spec):
    """collect_refines_spec assumes distinct enum states (a duplicate state is exposed twice by the implementation)"""
    return spec['kind'] == 'enum' and len(set(spec['states'])) != len(spec['states'])


def shrink(spec, ops, sig):
    def still(cand):
        return any(s == sig for s, _, _ in oracle(spec, cand, run_real(spec, cand)))
    if not ops or not still(ops):
        return ops
    return lib.shrink_list(ops, still)


def shrink_div(ctx, spec, ops):
    def still(cand):
        real = run_real(spec, cand)
        rep = driver_run(ctx, [wire_line(spec, cand)])
        if rep is None or real[0] != 'ok':
            return False
        f = rep[0].split(' ')
        return f[0] == 'ok' and parse_obs_list(f[1]) != real[1]
    try:
        if len(ops) > 60 or not still(ops):
            return ops
        return lib.shrink_list(ops, still, max_rounds=40)
    except Exception:
        return ops


def run(ctx):
    ctx.rule = ('one history = one metric (six types x 0-3 labels x legacy/UTF-8 label names x arbitrary sorted buckets incl. '
                'negative/zero/duplicate bounds x enum states) in a fresh CollectorRegistry and a list of calls '
                '(inc/dec/set/observe/reset/info/state addressed directly, positionally or by keyword (label values: str, int, bool, None, float, tuple/list, str-subclass instances whose __str__ differs from their data), labels() alone, '
                'remove, clear; amounts ordinary, >2^53, tiny, negative, +-Inf, NaN, ints (also ints that are no doubles: 2^53+1, 10^17+1, …, '
                'before and after reset()), bools, on a bound and its neighbours); exhaustive = every word of length 3 (quick) / 4 (thorough) over a 13-call alphabet per type on a '
                'two-label metric and of length 3 over a 9-call alphabet on the unlabelled metric; random to length 200; '
                'observed after EVERY step (sorted samples with value bits, and the order-sensitive (name, labels) sequence); a history is non-trivial when some step changed the exposed samples; distinct by '
                '(metric, history)')
    rng = ctx.rng
    b = Batch(ctx)
    for spec, ops in CORPUS:
        b.add(spec, ops, 'corpus')
    b.flush()
    # exhaustive over the small alphabets
    depth = 4 if ctx.tier == 'thorough' else 3
    for kind in KINDS:
        al = alphabet(kind, extended=True)
        spec = fixed_spec(kind, ['l', 'k'])
        for word in itertools.product(range(len(al)), repeat=depth):
            b.add(spec, [al[i] for i in word], 'exhaustive')
        b.flush()
        al0 = alphabet0(kind, extended=True)
        spec0 = fixed_spec(kind, [])
        for word in itertools.product(range(len(al0)), repeat=3):
            b.add(spec0, [al0[i] for i in word], 'exhaustive')
        b.flush()
    ctx.exhaustive = True
    ctx.extra['exhaustive_depth'] = depth
    # random
    n_short, n_long = (900, 60) if ctx.tier == 'quick' else (20000, 1500)
    if ctx.broken:
        n_short, n_long = n_short * 3, n_long * 2
    for i in range(n_short):
        spec = gen_spec(rng)
        b.add(spec, gen_history(rng, spec, rng.choice([1, 2, 3, 5, 8, 12, 20]), extended=True), 'random-short')
        if len(b.cases) >= 500:
            b.flush()
    for i in range(n_long):
        spec = gen_spec(rng)
        b.add(spec, gen_history(rng, spec, rng.choice([50, 100, 200]), extended=True), 'random-long')
        if len(b.cases) >= 100:
            b.flush()
    b.flush()


def replay(ctx, case):
    c = case.get('case', {})
    spec, ops = c['spec'], c['ops']
    b = Batch(ctx)
    b.add(spec, ops, 'replay')
    b.flush()
    real = run_real(spec, ops)
    print('REPLAY', json.dumps(spec, ensure_ascii=False), json.dumps(ops, ensure_ascii=False))
    if real[0] == 'ok':
        for (out, obs), op in zip(real[1][1:], ops):
            print('  ', op, '->', out, [(n, dict(l), lib.from_bits(v)) for n, l, v in obs][:8])
    else:
        print('   constructor raised', real[1])
    for f in ctx.failures:
        print('REPLAY-FAIL', f['sig'], f['what'])
    for f in ctx.divergences:
        print('REPLAY-DIVERGE', f['what'])
    return 1 if ctx.failures or ctx.divergences else 0
