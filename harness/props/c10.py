"""C10 — the mmap store returns exactly what was written, across growth and reopen.

Case = (initial size, history) where a history is a list of operations on ONE store file of a fresh writer:
    ['w', key, value_bits, ts_bits]   write_value(key, value, timestamp)      (doubles given as raw u64 bit patterns)
    ['r', key]                        read_value(key)   (an absent key is created at 0.0, 0.0)
    ['o']                             close() and MmapedDict(filename) again
`key` is a str, or {'u': unit, 'n': count, 's': suffix} for unit*count+suffix (keeps the replay files of 300 KB keys small).

Oracle on the real code (independent of the Lean model): a plain Python reference — insertion ordered, every key once,
last (value bits, ts bits) per key, read of an absent key inserts (0, 0), reopen changes nothing.  After the constructor
and after every operation `read_all_values()` on the handle and `MmapedDict.read_all_values_from_file()` must both equal
the reference bit for bit, `read_value` must return the reference's pair, and nothing may raise.

T2: the same history goes to the model driver (`c10 hist`); per step both reader outputs, `_used`, `_capacity`, the raw file
bytes [0:used], the all-zero flag of the tail and the read_value result are compared, and the model's own spec column is
compared with the reference.  A malformed stream (truncated / corrupted valid files) compares only result or error class of
`read_all_values_from_file` and of the constructor (`c10 readfile`, `c10 open`) — model validation, no property oracle.

Every history is run with the real `_INITIAL_MMAP_SIZE` and with the module constant patched to 64 (growth is cheap to reach).

Several readers alive at once: read_all_values_from_file() returns a lazy iterator; several of them (same file, different
files) are opened and advanced interleaved in every order (two readers: exhaustively; three/four: seeded random); each must
yield what its own file holds (C10:concurrent-readers-mismatch, C10:concurrent-reader-raises).

Signatures: C10:reader-mismatch (read_all_values on the handle), C10:file-reader-mismatch (read_all_values_from_file),
C10:read-value-mismatch, C10:raises (an operation or the constructor raised), C10:reader-raises (a reader raised).
"""
import hashlib
import itertools
import mmap
import os
import shutil
import struct
import tempfile
import time

import lib

PAGE = mmap.PAGESIZE
SMALL = 64

_Q = struct.Struct('<Q')
_D = struct.Struct('<d')


# ------------------------------------------------------------------------------------------------- small codecs
def fb(x):
    """raw bit pattern of a float (NaN payloads kept)"""
    return _Q.unpack(_D.pack(x))[0]


def bf(n):
    return _D.unpack(_Q.pack(n))[0]


def kstr(k):
    if isinstance(k, str):
        return k
    return k['u'] * int(k['n']) + k.get('s', '')


class Hexer:
    """key -> hex of its UTF-8 encoding, memoised (the 300 KB keys are rendered many times)"""

    def __init__(self):
        self.c = {}

    def __call__(self, key):
        h = self.c.get(key)
        if h is None:
            if len(self.c) > 20000:
                self.c.clear()
            h = self.c[key] = key.encode('utf-8').hex()
        return h


HX = Hexer()


def triples_str(items):
    out = ['%s:%d:%d' % (HX(k), v, t) for k, v, t in items]
    return '+'.join(out) if out else '.'


def enc_op(op):
    if op[0] == 'w':
        return 'w,%s,%d,%d' % (HX(kstr(op[1])), op[2], op[3])
    if op[0] == 'r':
        return 'r,%s' % HX(kstr(op[1]))
    return 'o'


def enc_ops(ops):
    return ';'.join(enc_op(o) for o in ops) if ops else '.'


def hist_line(init, ops):
    return 'c10 hist %d %d %s' % (init, PAGE, enc_ops(ops))


def errname(e):
    if isinstance(e, struct.error):
        return 'struct.error'
    if isinstance(e, UnicodeDecodeError):
        return 'UnicodeError'
    return type(e).__name__


def short_key(k):
    s = kstr(k)
    if len(s) > 24:
        return '%r…(%d chars, %d bytes)' % (s[:10], len(s), len(s.encode('utf-8')))
    return repr(s)


def short_op(op):
    if op[0] == 'w':
        return 'w %s v=0x%016x t=0x%016x' % (short_key(op[1]), op[2], op[3])
    if op[0] == 'r':
        return 'r %s' % short_key(op[1])
    return 'reopen'


def short_ops(ops, n=12):
    s = '; '.join(short_op(o) for o in ops[:n])
    return s + ('; … (%d ops)' % len(ops) if len(ops) > n else '')


def short_triples(s, n=300):
    return s if len(s) <= n else s[:n] + '…(%d chars)' % len(s)


def case_key(init, ops):
    return hashlib.sha1(hist_line(init, ops).encode('ascii')).hexdigest()[:20]


# ------------------------------------------------------------------------------------------------- reference (the spec, in Python)
def ref_states(ops):
    """states[i] = tuple of (key, vbits, tbits) after the first i operations; rv[i] = expected read_value pair of op i"""
    st, idx = [], {}
    states, rvs = [tuple(st)], []
    for op in ops:
        rv = None
        if op[0] == 'w':
            k = kstr(op[1])
            if k in idx:
                st[idx[k]] = (k, op[2], op[3])
            else:
                idx[k] = len(st)
                st.append((k, op[2], op[3]))
        elif op[0] == 'r':
            k = kstr(op[1])
            if k not in idx:
                idx[k] = len(st)
                st.append((k, 0, 0))
            rv = (st[idx[k]][1], st[idx[k]][2])
        states.append(tuple(st))
        rvs.append(rv)
    return states, rvs


# ------------------------------------------------------------------------------------------------- the real code
def read_with(fn):
    """run one of the readers to the end; result in the driver's notation"""
    try:
        return triples_str((k, fb(v), fb(t)) for k, v, t in fn())
    except Exception as e:  # noqa: the class is the observation
        return '!' + errname(e)


def file_reader(md, path):
    return read_with(lambda: ((k, v, t) for k, v, t, _ in md.MmapedDict.read_all_values_from_file(path)))


def observe(md, d, path, rv):
    o = {'h': read_with(d.read_all_values), 'f': file_reader(md, path),
         'used': getattr(d, '_used', None), 'cap': getattr(d, '_capacity', None), 'rv': rv}
    with open(path, 'rb') as fp:
        raw = fp.read()
    o['size'] = len(raw)
    hdr = struct.unpack_from('<i', raw, 0)[0] if len(raw) >= 4 else -1
    o['hdr'] = hdr
    u = hdr if 0 <= hdr <= len(raw) else len(raw)
    o['x'] = 'x:' + raw[:u].hex()
    o['tail0'] = '0' if raw[u:].strip(b'\x00') else '1'
    return o


class Real:
    __slots__ = ('obs', 'err')

    def __init__(self):
        self.obs = []
        self.err = None     # (step index, class, text): the constructor is step 0, operation i is step i+1


def run_real(md, path, init, ops):
    saved = md._INITIAL_MMAP_SIZE
    md._INITIAL_MMAP_SIZE = init
    res = Real()
    d = None
    inherited = []
    try:
        if os.path.exists(path):
            os.unlink(path)
        try:
            d = md.MmapedDict(path)
            res.obs.append(observe(md, d, path, None))
            for k, op in enumerate(ops):
                rv = None
                # INHERITED HANDLES: a forked child holds a copy of the parent's handle (same file, same shared mapping, the
                # `_used` it had at the fork) and closes it when it re-binds to its own files, while the parent goes on writing.
                # Simulated in-process by a second MmapedDict on the same file opened at step k = 1 mod 4 and closed — never
                # written through — two steps later.  Opening and closing such a handle must not change the file: the
                # observation after the step is judged against the reference like any other (seeded change C09-16: close()
                # "persisting" its stale used-size header hides what the parent appended meanwhile).
                if len(ops) <= 60:
                    if k % 4 == 1 and os.path.getsize(path) > 0:
                        inherited.append(md.MmapedDict(path))
                    elif k % 4 == 3 and inherited:
                        inherited.pop(0).close()
                if op[0] == 'w':
                    d.write_value(kstr(op[1]), bf(op[2]), bf(op[3]))
                elif op[0] == 'r':
                    a, b = d.read_value(kstr(op[1]))
                    rv = '%d:%d' % (fb(a), fb(b))
                else:
                    d.close()
                    d = None
                    d = md.MmapedDict(path)
                res.obs.append(observe(md, d, path, rv))
        except Exception as e:  # noqa: any exception of the store is an oracle failure
            res.err = (len(res.obs), errname(e), ('%s: %s' % (type(e).__name__, e))[:200])
    finally:
        md._INITIAL_MMAP_SIZE = saved
        for h in [d] + inherited:
            if h is not None:
                try:
                    h.close()
                except Exception:  # noqa
                    pass
    return res


def step_name(ops, i):
    return 'the constructor' if i == 0 else 'op #%d (%s)' % (i, short_op(ops[i - 1]))


def oracle(init, ops, real):
    """None, or (signature, description) of the first violation of the property in this history"""
    states, rvs = ref_states(ops)
    head = 'initial size %d, history [%s]: ' % (init, short_ops(ops))
    for i, o in enumerate(real.obs):
        want = triples_str(states[i])
        if o['h'].startswith('!'):
            return 'C10:reader-raises', head + 'read_all_values() raised %s after %s' % (o['h'][1:], step_name(ops, i))
        if o['f'].startswith('!'):
            return 'C10:reader-raises', head + 'read_all_values_from_file() raised %s after %s' % (o['f'][1:], step_name(ops, i))
        if o['h'] != want:
            return 'C10:reader-mismatch', head + 'after %s read_all_values() gives %s, written was %s' % (
                step_name(ops, i), short_triples(o['h']), short_triples(want))
        if o['f'] != want:
            return 'C10:file-reader-mismatch', head + 'after %s read_all_values_from_file() gives %s, written was %s' % (
                step_name(ops, i), short_triples(o['f']), short_triples(want))
        if i > 0 and rvs[i - 1] is not None:
            wrv = '%d:%d' % rvs[i - 1]
            if o['rv'] != wrv:
                return 'C10:read-value-mismatch', head + '%s returned bits %s, written was %s' % (step_name(ops, i), o['rv'], wrv)
    if real.err is not None:
        i, cls, txt = real.err
        return 'C10:raises', head + '%s raised %s' % (step_name(ops, i), txt)
    return None


def failing(md, path, init, ops):
    return oracle(init, ops, run_real(md, path, init, ops))


def shrink_case(md, path, init, ops, sig):
    def still(cand):
        r = failing(md, path, init, cand)
        return r is not None and r[0] == sig
    if len(ops) < 2 or len(enc_ops(ops)) > 200000:
        return ops
    return lib.shrink_list(ops, still, max_rounds=120)


# ------------------------------------------------------------------------------------------------- correspondence with the model
def drv(ctx, lines):
    """ctx.driver.run, tolerating the short window in which a concurrent `lake build` relinks the driver binary"""
    for attempt in range(40):
        try:
            return ctx.driver.run(lines)
        except (FileNotFoundError, PermissionError, OSError) as e:
            last = e
            time.sleep(1.5)
    raise lib.Infra('model driver binary unavailable: %s' % last)


def compare_model(ctx, init, ops, real, reply, case):
    """per step comparison of the driver's `c10 hist` reply with the real run; True when everything agreed"""
    if not reply.startswith('ok '):
        ctx.diverge('driver error %r' % reply[:200], case)
        return False
    states, _ = ref_states(ops)
    parts = reply[3:].split(';')
    merr = None
    if parts and parts[-1].startswith('!') and ',' not in parts[-1]:
        merr = parts.pop()[1:]
    head = 'initial size %d, history [%s]: ' % (init, short_ops(ops))
    ok = True

    def bad(what):
        nonlocal ok
        if ok:
            ctx.diverge(head + what, case)
        ok = False

    if merr == 'Timeout':
        ctx.count('history-leaves-the-model')      # negative length field / header read from garbage: not modelled
    elif merr is not None or real.err is not None:
        ms = (len(parts), merr) if merr is not None else None
        rs = (real.err[0], real.err[1]) if real.err is not None else None
        if ms != rs:
            bad('model raises %s, implementation raises %s (step, class)' % (ms, rs))
    elif len(parts) != len(real.obs):
        bad('model has %d observations, implementation %d' % (len(parts), len(real.obs)))
    for i in range(min(len(parts), len(real.obs))):
        f = parts[i].split(',')
        o = real.obs[i]
        if len(f) != 8:
            bad('malformed observation %r' % parts[i][:120])
            break
        where = 'after %s ' % step_name(ops, i)
        if f[0] != o['h'] and f[0] != '!Timeout':
            bad(where + 'model read_all_values %s, implementation %s' % (short_triples(f[0]), short_triples(o['h'])))
        if f[1] != o['f'] and f[1] != '!Timeout':
            bad(where + 'model read_all_values_from_file %s, implementation %s' % (short_triples(f[1]), short_triples(o['f'])))
        if f[2] != triples_str(states[i]):
            bad(where + 'model spec store %s, Python reference %s' % (short_triples(f[2]), short_triples(triples_str(states[i]))))
        if o['used'] is not None and f[3] != str(o['used']):
            bad(where + 'model used %s, implementation _used %s' % (f[3], o['used']))
        if f[3] != str(o['hdr']):
            bad(where + 'model used %s, header in the file %s' % (f[3], o['hdr']))
        if o['cap'] is not None and f[4] != str(o['cap']):
            bad(where + 'model capacity %s, implementation _capacity %s' % (f[4], o['cap']))
        if f[4] != str(o['size']):
            bad(where + 'model capacity %s, file size %s' % (f[4], o['size']))
        if f[5] != o['x']:
            bad(where + 'file bytes [0:used] differ: model %s, implementation %s' % (short_triples(f[5], 200), short_triples(o['x'], 200)))
        if f[6] != o['tail0']:
            bad(where + 'tail-beyond-used all zero: model %s, implementation %s' % (f[6], o['tail0']))
        if f[7] != (o['rv'] if o['rv'] is not None else '-'):
            bad(where + 'read_value: model %s, implementation %s' % (f[7], o['rv']))
    return ok


# ------------------------------------------------------------------------------------------------- generators
ASCII = 'abcdefghijklmnopqrstuvwxyzABCXYZ0123456789_:{}[]",. \\/=-'
TWO = 'éЖ߿\u0080ßΩ'
THREE = '€ࠀ￿中퟿文'
FOUR = '\U0001f600\U00010000\U0010ffff\U0001d11e'

WITNESS_BITS = [
    ('+0', 0x0000000000000000), ('-0', 0x8000000000000000),
    ('qnan', 0x7ff8000000000000), ('qnan-payload', 0x7ff8000000000abc), ('qnan-neg-payload', 0xfff8dead0000beef),
    ('qnan-allones', 0x7fffffffffffffff), ('qnan-neg-allones', 0xffffffffffffffff),
    ('snan', 0x7ff0000000000001), ('snan-payload', 0x7ff4000000c0ffee), ('snan-neg', 0xfff0000000000001),
    ('snan-neg-payload', 0xfff7ffffffffffff),
    ('+inf', 0x7ff0000000000000), ('-inf', 0xfff0000000000000),
    ('min-subnormal', 0x0000000000000001), ('max-subnormal', 0x000fffffffffffff), ('neg-subnormal', 0x8000000000000001),
    ('neg-max-subnormal', 0x800fffffffffffff), ('min-normal', 0x0010000000000000), ('neg-min-normal', 0x8010000000000000),
    ('max-normal', 0x7fefffffffffffff), ('neg-max-normal', 0xffefffffffffffff),
    ('one', 0x3ff0000000000000), ('pi', 0x400921fb54442d18), ('unix-ts', fb(1727654400.123456)), ('neg', fb(-12345.6789)),
    ('bytes-20', 0x2020202020202020), ('bytes-low', 0x0000000100000000), ('int-min-pattern', 0x0000000080000000),
]


def bits_class(b):
    e = (b >> 52) & 0x7ff
    m = b & ((1 << 52) - 1)
    if e == 0x7ff:
        if m == 0:
            return 'inf'
        if m >> 51:
            return 'qnan-payload' if m & ((1 << 51) - 1) else 'qnan'
        return 'snan'
    if e == 0:
        return 'zero' if m == 0 else 'subnormal'
    return 'normal'


def gen_bits(rng):
    c = rng.randrange(12)
    sign = rng.getrandbits(1) << 63
    if c == 0:
        return sign | 0x7ff8000000000000 | rng.getrandbits(51)
    if c == 1:
        return sign | 0x7ff0000000000000 | rng.randrange(1, 1 << 51)
    if c == 2:
        return sign
    if c == 3:
        return sign | rng.randrange(1, 1 << 52)
    if c == 4:
        return sign | 0x7ff0000000000000
    if c == 5:
        return rng.choice(WITNESS_BITS)[1]
    if c in (6, 7, 8):
        return rng.getrandbits(64)
    if c == 9:
        return fb(rng.randrange(-10 ** 6, 10 ** 6) / 8.0)
    if c == 10:
        return fb(1.7e9 + rng.random() * 1e8)
    return sign | rng.choice((0x0010000000000000, 0x7fefffffffffffff))


def gen_key_of_len(rng, n, kind):
    """a key whose UTF-8 encoding has exactly n bytes; kind selects the character widths used"""
    out = []
    left = n
    while left > 0:
        w = kind if kind in (1, 2, 3, 4) else rng.choice((1, 1, 2, 3, 4))
        if w > left:
            w = 1 if kind != 0 else rng.choice([x for x in (1, 2, 3, 4) if x <= left])
        out.append(rng.choice((ASCII, TWO, THREE, FOUR)[w - 1]))
        left -= w
    rng.shuffle(out)
    return ''.join(out)


def gen_key(rng, init):
    r = rng.random()
    if r < 0.6:
        n = rng.randrange(0, 18)
    elif r < 0.87:
        n = rng.randrange(18, 120)
    elif r < 0.97:
        n = rng.randrange(120, 700)
    else:
        n = rng.randrange(700, 3000)
    kind = rng.choice((1, 1, 1, 2, 3, 4, 0, 0))
    return gen_key_of_len(rng, n, kind)


def gen_history(rng, init, maxlen):
    n = rng.choice((rng.randint(1, min(8, maxlen)), rng.randint(min(5, maxlen), min(25, maxlen)), rng.randint(min(20, maxlen), maxlen)))
    pool = [gen_key(rng, init) for _ in range(rng.randint(1, 8))]
    if rng.random() < 0.3:        # look-alikes: the same key with trailing blanks (the writer's pad byte)
        for _ in range(rng.randint(1, 3)):
            pool.append(rng.choice(pool) + ' ' * rng.choice((1, 1, 2, 3, 7, 8)))
    ops = []
    for _ in range(n):
        r = rng.random()
        if r < 0.08:
            pool.append(gen_key(rng, init))
            ops.append(['w', pool[-1], gen_bits(rng), gen_bits(rng)])
        elif r < 0.62:
            ops.append(['w', rng.choice(pool), gen_bits(rng), gen_bits(rng)])
        elif r < 0.80:
            ops.append(['r', rng.choice(pool)])
        else:
            ops.append(['o'])
    return ops


def corpus():
    """fixed witnesses; returns (small-and-real-size histories, real-size-only histories with huge keys)"""
    W = dict(WITNESS_BITS)
    v1, t1, v2, t2 = W['pi'], W['unix-ts'], W['qnan-neg-payload'], W['snan-payload']
    cs = []
    # every encoded key length 0..17 (all residues mod 8 twice), alone and all together
    allk = []
    for n in range(0, 18):
        k = 'k' * n
        allk.append(k)
        cs.append([['w', k, v1, t1], ['r', k], ['o'], ['r', k], ['w', k, v2, t2], ['o'], ['r', k]])
    cs.append([['w', k, v1 + i, t1 + i] for i, k in enumerate(allk)] + [['o']] +
              [['w', k, v2 - i, t2 - i] for i, k in enumerate(reversed(allk))] + [['o']] + [['r', k] for k in allk])
    # multi-byte keys
    mb = ['é', 'Ж' * 3, '€', '中文键', '\U0001f600', 'aé€\U0001f600', '\U0010ffff￿߿\u007f',
          'é' * 4 + 'x', '€' * 5, '\U0001f600' * 3 + 'ab', '퟿']
    for k in mb:
        cs.append([['w', k, v2, t1], ['o'], ['r', k], ['w', k, v1, t2], ['r', k]])
    cs.append([['w', k, v1, t1] for k in mb] + [['o']] + [['r', k] for k in mb] + [['w', mb[0], v2, t2], ['o']])
    # the empty key, blanks, NUL, a JSON key as the library builds them
    cs.append([['r', ''], ['w', '', v1, t1], ['o'], ['r', ''], ['w', '', v2, t2]])
    js = '["métric", "métric_total", {"l": "v€", "ü": "\\"q\\""}, "help \U0001f600"]'
    for k in (' ', 'a ', '  a  ', '\x00', 'a\x00b', '\n', '"', js, 'abcd', 'abc', 'abcde'):
        cs.append([['w', k, v1, t2], ['r', k], ['o'], ['w', k, v2, t1], ['o'], ['r', k]])
    cs.append([['w', 'a', v1, t1], ['w', 'a ', v2, t2], ['w', 'a  ', t1, v1], ['o'], ['r', 'a'], ['r', 'a '], ['r', 'a  ']])
    # keys that end in blanks next to their blank-less look-alikes (the pad byte is a blank, too): all distinct keys, written,
    # reopened, written again, reopened, read — in every order of creation, at every length residue
    for stem in ('k', 'abc', 'abcd', 'kéy', 'seven_b', ''):
        fam = [stem, stem + ' ', stem + '  ', stem + ' ' * 8]
        for order in (fam, fam[::-1], [fam[1], fam[0], fam[3], fam[2]]):
            cs.append([['w', k, v1 + i, t1 + i] for i, k in enumerate(order)] + [['o']] +
                      [['w', k, v2 + i, t2 + i] for i, k in enumerate(order)] + [['o']] + [['r', k] for k in fam] +
                      [['w', fam[1], t1, v1], ['o'], ['r', fam[0]], ['r', fam[1]]])
        cs.append([['w', fam[1], v1, t1], ['o'], ['w', fam[1], v2, t2], ['o'], ['r', fam[1]]])
        cs.append([['r', fam[2]], ['o'], ['r', fam[2]], ['w', fam[0], v1, t1], ['o'], ['w', fam[2], v2, t2], ['r', fam[0]]])
    # every witness bit pattern as value and as timestamp
    cs.append([['w', 'k%d' % i, b, WITNESS_BITS[-1 - i][1]] for i, (_, b) in enumerate(WITNESS_BITS)] + [['o']] +
              [['r', 'k%d' % i] for i in range(len(WITNESS_BITS))])
    ow = []
    for i, (_, b) in enumerate(WITNESS_BITS):
        ow += [['w', 'same', b, b ^ 0xffffffffffffffff], ['r', 'same']] + ([['o']] if i % 3 == 0 else [])
    cs.append(ow)
    # numerically equal, bitwise different: a write whose (value, timestamp) COMPARES equal to what is stored (+0.0 / -0.0 in
    # either slot, starting with the zero pair a fresh entry is created with) must still store its own bits — a writer that
    # skips "unchanged" pairs by float comparison loses the sign of zero (seeded change C10-15)
    Z = (0x0000000000000000, 0x8000000000000000)
    for a in Z:
        for b in Z:
            cs.append([['w', 'fresh-%x-%x' % (a >> 63, b >> 63), a, b], ['r', 'fresh-%x-%x' % (a >> 63, b >> 63)], ['o'],
                       ['r', 'fresh-%x-%x' % (a >> 63, b >> 63)]])
            for c in Z:
                for d in Z:
                    cs.append([['w', 'z', a, b], ['w', 'z', c, d], ['r', 'z'], ['o'], ['w', 'z', a, b], ['r', 'z']])
    for vv in (0x3ff0000000000000, 0x7ff0000000000000):
        cs.append([['w', 'z', vv, Z[0]], ['w', 'z', vv, Z[1]], ['r', 'z'], ['w', 'z', vv, Z[0]], ['r', 'z'], ['o'], ['r', 'z']])
    # growth (at size 64: one, two, five doublings by one key; at the real size none)
    for n in (40, 43, 150, 1000, 1001, 1004):
        k = 'g' * n
        cs.append([['w', 'abcd', v1, t1], ['w', k, v2, t2], ['o'], ['w', k, v1, t1], ['r', k], ['w', 'z', t1, v1], ['o'], ['r', 'abcd']])
        cs.append([['w', k, v2, t2], ['o'], ['w', 'abcd', v1, t1]])
    # fills the 64-byte file exactly, then grows
    cs.append([['w', 'abcd', v1, t1], ['r', ''], ['o'], ['w', 'kéy-7b', v2, t2], ['o'], ['w', 'abcd', v2, t1]])
    # overwrite after reopen, read of an absent key then write, reopen at once
    cs.append([['w', 'k', v1, t1], ['o'], ['w', 'k', v2, t2], ['o'], ['r', 'k']])
    cs.append([['w', 'k1', v1, t1], ['w', 'k2', v1, t1], ['o'], ['w', 'k1', v2, t2], ['w', 'k3', v2, t2], ['o'], ['w', 'k2', v2, v2],
               ['r', 'k1'], ['r', 'k3']])
    cs.append([['r', 'k'], ['o'], ['w', 'k', v1, t1], ['r', 'k']])
    cs.append([['o'], ['o'], ['w', 'k', v1, t1], ['o'], ['o'], ['r', 'k']])
    cs.append([])
    big = []
    b70 = {'u': 'a', 'n': 70000}                         # 65536 -> 131072: one doubling
    b140 = {'u': 'é', 'n': 70000, 's': 'xyz'}       # 140003 bytes: two doublings
    b300 = {'u': 'ab\U0001f600', 'n': 50000, 's': 'q'}   # 300001 bytes: three doublings
    big.append([['w', 'small', v1, t1], ['w', b70, v2, t2], ['o'], ['w', b70, v1, t1], ['r', b70], ['w', 'tail', t1, v1], ['o']])
    big.append([['w', b140, v2, t2], ['o'], ['w', 'small', v1, t1], ['w', b140, v1, t2]])
    big.append([['w', 'small', v1, t1], ['w', b300, v2, t2], ['o'], ['w', b300, t2, v2]])
    return cs, big


def exhaustive_alphabet():
    W = dict(WITNESS_BITS)
    klong = 'L' * 150     # 8+4+150+2+16 = 180 > 128: two doublings of a fresh 64-byte file
    return [
        ['w', 'abcd', W['pi'], W['unix-ts']],                 # (4+4) % 8 == 0: eight pad bytes
        ['w', 'abcd', W['qnan-neg-payload'], W['snan-payload']],
        ['w', 'kéy-7b', W['-0'], W['min-subnormal']],  # 7 bytes, residue 3, non-ASCII
        ['r', ''],                                            # the empty key, created by read_value
        ['o'],
        ['w', klong, W['neg-max-normal'], W['+inf']],
    ]


# ------------------------------------------------------------------------------------------------- running cases
def stats(ctx, init, ops, real):
    ctx.count('init=%d' % init)
    keys = {kstr(o[1]) for o in ops if o[0] != 'o'}
    if any(k.endswith(' ') and k.rstrip(' ') in keys for k in keys):
        ctx.count('key-trailing-blank-next-to-look-alike')
    for k in keys:
        e = k.encode('utf-8')
        ctx.count('key-bytes%%8=%d' % (len(e) % 8))
        if len(e) != len(k):
            ctx.count('key-multibyte')
        if len(e) == 0:
            ctx.count('key-empty')
    caps = [o['size'] for o in real.obs]
    total, single = 0, 0
    for a, b in zip(caps, caps[1:]):
        n = 0
        while a and a < b:
            a *= 2
            n += 1
        total += n
        single = max(single, n)
    ctx.count('doublings-in-history=%s' % (total if total < 2 else '2+'))
    ctx.count('doublings-in-one-op=%s' % (single if single < 2 else '2+'))
    ro = sum(1 for o in ops if o[0] == 'o')
    ctx.count('reopens=%s' % (ro if ro < 3 else '3+'))
    n = len(ops)
    ctx.count('ops=%s' % ('0' if n == 0 else '1-5' if n <= 5 else '6-20' if n <= 20 else '21+'))
    for o in ops:
        if o[0] == 'w':
            for b in (o[2], o[3]):
                c = bits_class(b)
                if c != 'normal':
                    ctx.count('bits-' + c)
        elif o[0] == 'r':
            ctx.count('read_value-ops')
    seen = set()
    for i, o in enumerate(ops):
        if o[0] == 'o':
            if any(p[0] == 'w' and kstr(p[1]) in seen for p in ops[i + 1:]):
                ctx.count('overwrite-after-reopen')
                break
        elif o[0] == 'w':
            seen.add(kstr(o[1]))


SHRUNK = [0]     # failing histories minimised so far in this run (the first few only: shrinking re-runs the real code)


def run_cases(ctx, md, path, cases, label, chunk=400):
    """cases: list of (init, ops).  Real code + oracle, then one driver call per chunk for the correspondence."""
    for c0 in range(0, len(cases), chunk):
        part = cases[c0:c0 + chunk]
        reals = [run_real(md, path, init, ops) for init, ops in part]
        replies = drv(ctx, [hist_line(init, ops) for init, ops in part])
        for idx, (init, ops) in enumerate(part):
            real = reals[idx]
            case = {'kind': 'hist', 'init': init, 'ops': ops}
            nontrivial = any(o[0] == 'w' for o in ops)
            ctx.case(case_key(init, ops) if nontrivial else None,
                     {'init': init, 'history': short_ops(ops, 6), 'final': short_triples(real.obs[-1]['h'] if real.obs else '-', 160)})
            ctx.count('stream-' + label)
            stats(ctx, init, ops, real)
            bad = oracle(init, ops, real)
            if bad:
                sig, what = bad
                if SHRUNK[0] < 6:
                    SHRUNK[0] += 1
                    small = shrink_case(md, path, init, ops, sig)
                    again = failing(md, path, init, small)
                    if again is not None and again[0] == sig:
                        ops2, what = small, again[1]
                        case = {'kind': 'hist', 'init': init, 'ops': ops2}
                ctx.fail(sig, what, case)
            if replies is not None:
                ctx.traces += 1
                compare_model(ctx, init, ops, real, replies[idx], {'kind': 'hist', 'init': init, 'ops': ops})


# ------------------------------------------------------------------------------------------------- malformed stream
def real_open(md, path, init):
    saved = md._INITIAL_MMAP_SIZE
    md._INITIAL_MMAP_SIZE = init
    d = None
    try:
        d = md.MmapedDict(path)
        items = triples_str((k, fb(v), fb(t)) for k, v, t in d.read_all_values())
        pd = getattr(d, '_positions', None)      # private attributes: compared when present, '?' otherwise
        pos = '?' if pd is None else ('+'.join('%s:%d' % (HX(k), p) for k, p in pd.items()) or '.')
        return '%s,%s,%s,%s' % (getattr(d, '_used', '?'), getattr(d, '_capacity', '?'), items, pos)
    except Exception as e:  # noqa
        return '!' + errname(e)
    finally:
        md._INITIAL_MMAP_SIZE = saved
        if d is not None:
            try:
                d.close()
            except Exception:  # noqa
                pass


def same_fields(model, real):
    a, b = model.split(','), real.split(',')
    return len(a) == len(b) and all(x == y or y == '?' for x, y in zip(a, b))


def entry_offsets(raw):
    """offsets of the length fields of a valid file"""
    used = struct.unpack_from('<i', raw, 0)[0]
    pos, out = 8, []
    while pos < used and pos + 4 <= len(raw):
        n = struct.unpack_from('<i', raw, pos)[0]
        if n < 0 or pos + n > used:
            break                # not a file this layout explains (a changed writer): keep what was found
        out.append((pos, n))
        pos += 4 + n + (8 - (n + 4) % 8) + 16
    return used, out


def malformed_variants(rng, raw):
    used, ents = entry_offsets(raw)
    out = []
    cuts = {0, 1, 3, 4, 7, 8, 9, 11, 12, used - 17, used - 16, used - 8, used - 1, used, used + 1, len(raw) - 1}
    for pos, n in ents:
        cuts |= {pos + 3, pos + 4, pos + 4 + n, pos + 4 + n + 1}
    for c in sorted(cuts):
        if 0 <= c < len(raw):
            out.append(('truncate', raw[:c]))
    for h in (4, 7, 9, used - 16, used - 8, used - 1, used + 1, used + 8, used + 16, len(raw), len(raw) + 8, 4096, 4097, 0x7fffffff):
        if h > 0 and h != used:
            out.append(('header', struct.pack('<i', h) + raw[4:]))
    for pos, n in ents:
        if n >= 1:
            for badb in (b'\xff', b'\x80', b'\xc3', b'\xc0\xaf', b'\xed\xa0\x80', b'\xf4\x90\x80\x80', b'\xe2\x82', b'\xf0\x9f\x98'):
                if len(badb) <= n:
                    where = pos + 4 + (n - len(badb) if badb in (b'\xc3', b'\xe2\x82', b'\xf0\x9f\x98') else rng.randrange(0, n - len(badb) + 1))
                    out.append(('bad-utf8', raw[:where] + badb + raw[where + len(badb):]))
        for ln in (used, used - pos, used - pos + 1, used - pos - 1, n + 8, n + 16, n + 1, max(n - 1, 0), 0, 0x7fffffff, len(raw)):
            if 0 <= ln != n:
                out.append(('length-field', raw[:pos] + struct.pack('<i', ln) + raw[pos + 4:]))
    for _ in range(6):
        i = rng.randrange(8, max(used, 9))
        b = rng.randrange(0, 128)       # never sets a sign bit of a length field on purpose
        out.append(('random-byte', raw[:i] + bytes([b]) + raw[i + 1:]))
    return out


def run_malformed(ctx, md, tmp):
    rng = ctx.rng
    path = os.path.join(tmp, 'base.db')
    W = dict(WITNESS_BITS)
    bases = [
        [['w', 'abcd', W['pi'], W['unix-ts']]],
        [['w', 'abcd', W['pi'], W['unix-ts']], ['r', ''], ['w', 'kéy-7b', W['-0'], W['qnan-payload']]],
        [['w', '€\U0001f600éx', W['one'], W['neg']], ['w', 'k' * 13, W['snan'], W['+inf']], ['w', 'zz', 1, 2]],
    ]
    n = 2 if ctx.tier == 'quick' else 12
    if ctx.broken:
        n *= 3
    for _ in range(n):
        bases.append([op for op in gen_history(rng, SMALL, 12) if op[0] == 'o' or len(kstr(op[1]).encode('utf-8')) < 200])
    items = []
    for ops in bases:
        run_real(md, path, SMALL, ops)
        with open(path, 'rb') as fp:
            raw = fp.read()
        if len(raw) < 8 or len(raw) > 4096:
            continue
        items.append(('valid', raw))
        items += malformed_variants(rng, raw)
    mpath = os.path.join(tmp, 'malformed.db')
    lines, reals = [], []
    for kind, raw in items:
        with open(mpath, 'wb') as fp:
            fp.write(raw)
        r1 = file_reader(md, mpath)
        r2 = real_open(md, mpath, SMALL)
        reals.append((r1, r2))
        lines.append('c10 readfile %d x:%s' % (PAGE, raw.hex()))
        lines.append('c10 open %d x:%s' % (SMALL, raw.hex()))
    replies = drv(ctx, lines)
    for i, (kind, raw) in enumerate(items):
        ctx.case(None, None)
        ctx.count('malformed-' + kind)
        if replies is None:
            continue
        for j, name in ((0, 'readfile'), (1, 'open')):
            rep, real = replies[2 * i + j], reals[i][j]
            case = {'kind': 'malformed', 'init': SMALL, 'hex': raw.hex(), 'mutation': kind}
            if not rep.startswith('ok '):
                ctx.diverge('driver error %r on %s' % (rep[:120], name), case)
                continue
            m = rep[3:]
            if m == '!Timeout':
                ctx.count('malformed-outside-model')
                continue
            ctx.count('malformed-%s-%s' % (name, m if m.startswith('!') else 'ok'))
            if m != real and not same_fields(m, real):
                ctx.diverge('%s on a %s file (%d bytes): model %s, implementation %s' % (
                    name, kind, len(raw), short_triples(m, 200), short_triples(real, 200)), case)


# ------------------------------------------------------------------------------------------------- entry points
def recreated_cases(rng, n):
    """pairs of key lists with the SAME encoded lengths (so the re-created file has the same used-bytes header) but different keys"""
    out = [(['["inprogress", "inprogress", {"path": "/api/a"}, "help"]', '["inprogress", "inprogress", {"path": "/api/b"}, "help"]'],
            ['["inprogress", "inprogress", {"path": "/api/y"}, "help"]', '["inprogress", "inprogress", {"path": "/api/z"}, "help"]']),
           (['a', 'bb'], ['c', 'dd']), (['k1'], ['k2']), (['x', 'y', 'z'], ['z', 'y', 'x'])]
    for _ in range(n):
        ks = [gen_key_of_len(rng, rng.randrange(1, 40), 1) for _ in range(rng.randrange(1, 5))]
        ks2 = [gen_key_of_len(rng, len(k), 1) for k in ks]
        if len(set(ks)) == len(ks) and len(set(ks2)) == len(ks2):
            out.append((ks, ks2))
    return out


def run_recreated(ctx, md, tmp):
    """RE-CREATED FILE: a store file is read by the collector's file reader, removed (mark_process_dead does that for live gauge
    files) and later created again under the same name by another process (pid reuse).  Whatever was read from the earlier file
    must not colour what is read from the new one — also when both files have the same size and used-bytes header (seeded
    change C10-16: a per-filename layout cache revalidated by the header only).  Oracle: reader == what was written to the
    file that exists NOW."""
    path = os.path.join(tmp, 'live_1234.db')
    n = 0
    for ks1, ks2 in recreated_cases(ctx.rng, 40 if ctx.tier == 'quick' else 600):
        got = []
        for gen, ks in enumerate((ks1, ks2, ks1)):
            if os.path.exists(path):
                os.unlink(path)
            d = md.MmapedDict(path)
            for i, k in enumerate(ks):
                d.write_value(k, float(gen * 10 + i), float(i))
            d.close()
            want = triples_str((k, fb(float(gen * 10 + i)), fb(float(i))) for i, k in enumerate(ks))
            r = file_reader(md, path)
            got.append(r)
            n += 1
            if r != want:
                ctx.fail('C10:file-reader-stale-after-recreate',
                         'file re-created under the same name (generation %d, same used-bytes header): read_all_values_from_file() gives %s, '
                         'the file holds %s' % (gen, short_triples(r), short_triples(want)),
                         {'kind': 'recreated', 'keys1': ks1, 'keys2': ks2})
                break
        ctx.case(('recreated', len(ks1)), {'kind': 'recreated', 'keys1': ks1, 'keys2': ks2})
    if os.path.exists(path):
        os.unlink(path)
    ctx.extra['recreated_file_reads'] = n


# ------------------------------------------------------------------------------------------------- several readers alive at once
def reader_file_specs(rng, real_size, n_random):
    """(name, initial size | None for a created-but-unsized file, history) of store files with known contents"""
    W = dict(WITNESS_BITS)
    v1, t1, v2, t2 = W['pi'], W['unix-ts'], W['qnan-neg-payload'], W['snan-payload']
    ks = ['["requests", "requests_total", {"path": "/%s"}, "help"]' % p for p in ('a', 'b', 'cé')]
    specs = [
        ('small-a', SMALL, [['w', ks[0], v1, t1], ['w', ks[1], v2, t2], ['w', ks[2], W['-0'], W['one']], ['w', ks[0], W['neg'], 0]]),
        ('small-b', SMALL, [['w', ks[2], W['one'], t2], ['w', ks[0], W['+inf'], 0], ['w', ks[1], W['min-subnormal'], t1]]),  # same keys
        ('other-keys', SMALL, [['w', 'x', v2, t1], ['r', ''], ['o'], ['w', '€uro', t1, v1]]),
        ('two-pages', real_size, [['w', 'p%03d' % i + 'é' * 60, v1 + i, t1 + i] for i in range(40)]),   # used > one page
        ('header-only', SMALL, []),
        ('created-unsized', None, []),                                                                     # zero-length file
        ('beyond-initial-size', real_size, [['w', 'small', v1, t1], ['w', {'u': 'a', 'n': 70000}, v2, t2], ['w', 'tail', t1, v1]]),
    ]
    for i in range(n_random):
        specs.append(('random-%d' % i, rng.choice((SMALL, SMALL, real_size)), gen_history(rng, SMALL, 12)))
    return specs


def build_reader_files(md, tmp, specs):
    """writes the files; returns (paths, expected entries per file as (key, vbits, tbits) tuples)"""
    d = os.path.join(tmp, 'readers')
    os.makedirs(d, exist_ok=True)
    paths, want = [], []
    for i, (name, init, ops) in enumerate(specs):
        p = os.path.join(d, 'counter_%d.db' % (100 + i))
        if init is None:
            if os.path.exists(p):
                os.unlink(p)
            open(p, 'wb').close()
        else:
            res = run_real(md, p, init, ops)
            if res.err is not None:
                raise lib.Infra('C10 readers: building file %s raised %s' % (name, res.err[2]))
        paths.append(p)
        want.append(tuple(ref_states(ops)[0][-1]))
    return paths, want


def run_schedule(md, paths, sched, limit=None):
    """sched: ['o', reader, file] opens a reader iterator, ['n', reader, count] advances it by up to `count` entries, ['d', reader]
    drains it; whatever is still open at the end is drained in reader order.  Returns {reader: [file, entries, error | None]}
    and the largest number of iterators that were alive (opened, not exhausted) at the same time.  `limit[file]`: a reader
    that yields more entries than that is stopped (a reader walking over foreign bytes need not terminate)"""
    its, got, alive = {}, {}, 0

    def advance(r, n):
        it = its.get(r)
        while it is not None and (n is None or n > 0):
            try:
                k, v, t, _ = next(it)
                got[r][1].append((k, fb(v), fb(t)))
                if limit is not None and len(got[r][1]) > limit[got[r][0]]:
                    got[r][2] = 'no error, but it yields more entries (%d so far) than the file holds' % len(got[r][1])
                    its[r] = it = None
            except StopIteration:
                its[r] = it = None
            except Exception as e:  # noqa: the class is the observation
                got[r][2] = 'raised %s: %s' % (errname(e), str(e)[:120])
                its[r] = it = None
            if n is not None:
                n -= 1

    for a in sched:
        if a[0] == 'o':
            if a[1] in got:
                continue
            got[a[1]] = [a[2], [], None]
            try:
                its[a[1]] = iter(md.MmapedDict.read_all_values_from_file(paths[a[2]]))
            except Exception as e:  # noqa
                got[a[1]][2] = 'read_all_values_from_file() itself raised %s: %s' % (errname(e), str(e)[:120])
                its[a[1]] = None
            alive = max(alive, sum(1 for x in its.values() if x is not None))
        elif a[1] in got:
            advance(a[1], a[2] if a[0] == 'n' else None)
    for r in sorted(got):
        advance(r, None)
    return got, alive


def short_sched(sched, names):
    out = []
    for a in sched:
        out.append('open #%d on %s' % (a[1], names[a[2]]) if a[0] == 'o' else
                   'next(#%d)x%d' % (a[1], a[2]) if a[0] == 'n' else 'drain #%d' % a[1])
    return ', '.join(out)


def schedule_oracle(md, paths, want, names, sched):
    """None, or (signature, description): every reader iterator yields what ITS file held when it was opened"""
    got, alive = run_schedule(md, paths, sched, [len(w) + 4 for w in want])
    head = 'reader iterators alive at once [%s; the rest drained in order]: ' % short_sched(sched, names)
    for r in sorted(got):
        f, items, err = got[r]
        if err is not None:
            return 'C10:concurrent-reader-raises', head + 'reader #%d of file %s: %s after %d of %d entries' % (
                r, names[f], err, len(items), len(want[f]))
        if tuple(items) != want[f]:
            return 'C10:concurrent-readers-mismatch', head + 'reader #%d of file %s yields %s, the file holds %s' % (
                r, names[f], short_triples(triples_str(items)), short_triples(triples_str(want[f])))
    return None


def merges(a, b):
    """every interleaving of the action lists a and b (each kept in order)"""
    n = len(a) + len(b)
    for pos in itertools.combinations(range(n), len(a)):
        ps, ia, ib, out = set(pos), 0, 0, []
        for i in range(n):
            if i in ps:
                out.append(a[ia])
                ia += 1
            else:
                out.append(b[ib])
                ib += 1
        yield out


def run_readers(ctx, md, tmp, real_size, only=None):
    """LAZY READERS: read_all_values_from_file() returns an iterator, and a caller may hold several of them (one per worker
    file, merged entry by entry) before consuming any.  Several iterators — on the same file and on different files, small
    ones, one whose entries span two pages, one beyond the initial size, an empty and an unsized one — are opened and advanced
    interleaved: for two readers EVERY interleaving of (open, next, next, drain) x (open, next, next, drain) over every
    ordered pair of files, for three and four readers seeded random interleavings.  Oracle: each iterator yields exactly what
    its own file holds (seeded change C10-17: a module-level scratch buffer shared by all iterators)."""
    if only is not None:
        specs, scheds = only['files'], [only['schedule']]
        specs = [(s['name'], s['init'], s['ops']) for s in specs]
    else:
        quick = ctx.tier == 'quick'
        specs = reader_file_specs(ctx.rng, real_size, 3 if quick else 12)
        scheds = []
        nf = len(specs)
        for fa in range(nf):
            for fb_ in range(nf):
                a = [['o', 0, fa], ['n', 0, 1], ['n', 0, 1], ['d', 0]]
                b = [['o', 1, fb_], ['n', 1, 1], ['n', 1, 1], ['d', 1]]
                scheds.extend(merges(a, b))
        for _ in range((300 if quick else 5000) * (3 if ctx.broken else 1)):
            lists = []
            for r in range(ctx.rng.choice((3, 3, 4))):
                acts = [['o', r, ctx.rng.randrange(nf)]]
                for _ in range(ctx.rng.randrange(0, 4)):
                    acts.append(['n', r, ctx.rng.choice((1, 1, 2, 5, 1000))])
                if ctx.rng.random() < 0.5:
                    acts.append(['d', r])
                lists.append(acts)
            out = []
            while any(lists):
                l = ctx.rng.choice([x for x in lists if x])
                out.append(l.pop(0))
            scheds.append(out)
    paths, want = build_reader_files(md, tmp, specs)
    names = [s[0] for s in specs]
    # the model's reader on the same bytes (read alone)
    lines = []
    for p in paths:
        with open(p, 'rb') as fp:
            raw = fp.read()
        u = struct.unpack_from('<i', raw, 0)[0] if len(raw) >= 4 else 0
        n = max(len(raw.rstrip(b'\x00')), min(max(u, 8), len(raw)))      # without the zero tail, but as long as the header says
        lines.append('c10 readfile %d x:%s' % (PAGE, raw[:n].hex()))
    replies = drv(ctx, lines)
    if replies is not None:
        for i, rep in enumerate(replies):
            ctx.traces += 1
            if rep != 'ok ' + triples_str(want[i]) and rep != 'ok !Timeout':
                ctx.diverge('file %s read alone: model reader %s, written was %s' % (
                    names[i], short_triples(rep, 200), short_triples(triples_str(want[i]), 200)),
                    {'kind': 'readers', 'files': [{'name': specs[i][0], 'init': specs[i][1], 'ops': specs[i][2]}], 'schedule': [['o', 0, 0]]})
    failed, t_end = 0, time.time() + 12
    for sched in scheds:
        if failed >= 3 or time.time() > t_end:
            break                # (a reader that went wrong may have become very slow: three witnesses are enough)
        bad = schedule_oracle(md, paths, want, names, sched)
        files_used = sorted({a[2] for a in sched if a[0] == 'o'})
        ctx.case(('readers', tuple(names[f] for f in files_used), hashlib.sha1(repr(sched).encode()).hexdigest()[:16]),
                 {'kind': 'readers', 'files': [names[f] for f in files_used], 'schedule': short_sched(sched, names)})
        ctx.count('stream-readers-alive-at-once')
        ctx.count('readers-in-schedule=%d' % sum(1 for a in sched if a[0] == 'o'))
        if bad:
            failed += 1
            sig = bad[0]
            small = lib.shrink_list(sched, lambda c: (schedule_oracle(md, paths, want, names, c) or ('',))[0] == sig, max_rounds=60)
            again = schedule_oracle(md, paths, want, names, small)
            if again is None or again[0] != sig:
                small, again = sched, bad
            used = sorted({a[2] for a in small if a[0] == 'o'})
            remap = {f: i for i, f in enumerate(used)}
            case = {'kind': 'readers',
                    'files': [{'name': specs[f][0], 'init': specs[f][1], 'ops': specs[f][2]} for f in used],
                    'schedule': [[a[0], a[1], remap[a[2]]] if a[0] == 'o' else list(a) for a in small if a[0] != 'o' or a[2] in remap]}
            ctx.fail(sig, again[1], case)
    ctx.extra['reader_schedules'] = len(scheds)
    shutil.rmtree(os.path.join(tmp, 'readers'), ignore_errors=True)


def sanity():
    for b in (0x7ff0000000000001, 0xfff7ffffffffffff, 0x7ff8000000000abc, 0x8000000000000000):
        if fb(bf(b)) != b:
            raise lib.Infra('this interpreter does not keep the bit pattern %#x through a float object' % b)


def run(ctx):
    import prometheus_client.mmap_dict as md
    sanity()
    SHRUNK[0] = 0
    real_size = md._INITIAL_MMAP_SIZE
    quick = ctx.tier == 'quick'
    depth = 4 if quick else 5
    n_random = 120 if quick else 2500
    if ctx.broken:
        n_random *= 3
    budget = (30 if quick else 330) + (15 if ctx.broken and quick else 0)
    ctx.rule = ('histories of write_value / read_value / close+reopen on one store file, each run with the real initial size (%d) and with '
                '_INITIAL_MMAP_SIZE patched to %d: fixed witnesses (every key length 0..17, 2/3/4-byte UTF-8 keys, empty key, every double '
                'class incl. quiet/signalling NaN payloads of both signs, -0.0, subnormals, keys forcing 1/2/5 doublings, 70 KB/140 KB/300 KB keys at '
                'the real size), every history of length %d over a 6-operation alphabet at size %d, and seeded random histories of up to 60 '
                'operations over random keys (0..3000 bytes, all widths) and random bit patterns; plus truncated/corrupted files for the two '
                'readers; several lazy file-reader iterators alive at once, advanced in every interleaving. A case is non-trivial when the history has at least one write; distinct by (initial size, operation list)'
                % (real_size, SMALL, depth, SMALL))
    tmp = tempfile.mkdtemp(prefix='pv-c10-')
    try:
        path = os.path.join(tmp, 'store.db')
        cs, big = corpus()
        run_cases(ctx, md, path, [(init, ops) for ops in cs for init in (SMALL, real_size)], 'corpus')
        run_readers(ctx, md, tmp, real_size)
        run_cases(ctx, md, path, [(real_size, ops) for ops in big] + [(SMALL, big[0])], 'corpus-huge-key', chunk=2)
        alpha = exhaustive_alphabet()
        run_cases(ctx, md, path, [(SMALL, list(h)) for h in itertools.product(alpha, repeat=depth)], 'exhaustive')
        ctx.exhaustive = True
        ctx.extra['exhaustive_space'] = 'all %d histories of length %d over 6 operations at initial size %d' % (6 ** depth, depth, SMALL)
        run_malformed(ctx, md, tmp)
        run_recreated(ctx, md, tmp)
        done = 0
        while done < n_random and time.time() - ctx.t0 < budget:
            batch = []
            for _ in range(min(50, n_random - done)):
                ops = gen_history(ctx.rng, SMALL, 60)
                batch.append((SMALL, ops))
                batch.append((real_size, ops))
            run_cases(ctx, md, path, batch, 'random')
            done += len(batch) // 2
        ctx.extra['random_histories'] = done
    finally:
        md._INITIAL_MMAP_SIZE = real_size
        shutil.rmtree(tmp, ignore_errors=True)


def replay(ctx, case):
    import prometheus_client.mmap_dict as md
    c = case.get('case')
    if c is None and case.get('divergences'):
        c = case['divergences'][0].get('case')
    if c is None:
        print('REPLAY: no case in the file (kind=%s)' % case.get('kind'))
        return 0
    real_size = md._INITIAL_MMAP_SIZE
    tmp = tempfile.mkdtemp(prefix='pv-c10-')
    try:
        if c.get('kind') == 'recreated':
            class _C:        # minimal ctx for the oracle
                rng = None; tier = 'quick'; extra = {}
                def __init__(self): self.f = []
                def fail(self, sig, what, case): self.f.append((sig, what))
                def case(self, k, v): pass
            cc = _C()
            saved = recreated_cases
            try:
                globals()['recreated_cases'] = lambda rng, n: [(c['keys1'], c['keys2'])]
                run_recreated(cc, md, tmp)
            finally:
                globals()['recreated_cases'] = saved
            for sig, what in cc.f:
                print('REPLAY-FAIL', sig, what)
            return 1 if cc.f else 0
        if c.get('kind') == 'readers':
            print('REPLAY files %s' % ', '.join('%s (initial size %s): [%s]' % (f['name'], f['init'], short_ops(f['ops'], 8)) for f in c['files']))
            print('REPLAY schedule: %s' % short_sched(c['schedule'], [f['name'] for f in c['files']]))
            run_readers(ctx, md, tmp, real_size, only=c)
        elif c.get('kind') == 'malformed':
            raw = bytes.fromhex(c['hex'])
            p = os.path.join(tmp, 'm.db')
            with open(p, 'wb') as fp:
                fp.write(raw)
            r1, r2 = file_reader(md, p), real_open(md, p, int(c['init']))
            rep = drv(ctx, ['c10 readfile %d x:%s' % (PAGE, raw.hex()), 'c10 open %d x:%s' % (int(c['init']), raw.hex())])
            print('REPLAY implementation: readfile %s ; open %s' % (short_triples(r1), short_triples(r2)))
            if rep is not None:
                print('REPLAY model:          readfile %s ; open %s' % (short_triples(rep[0][3:]), short_triples(rep[1][3:])))
                for m, r in ((rep[0][3:], r1), (rep[1][3:], r2)):
                    if m != '!Timeout' and m != r and not same_fields(m, r):
                        ctx.diverge('model %s, implementation %s' % (short_triples(m), short_triples(r)), c)
        else:
            init, ops = int(c['init']), c['ops']
            path = os.path.join(tmp, 'store.db')
            real = run_real(md, path, init, ops)
            print('REPLAY initial size %d, history [%s]' % (init, short_ops(ops, 40)))
            states, _ = ref_states(ops)
            for i, o in enumerate(real.obs):
                print('REPLAY  after %-40s handle=%s file=%s written=%s used=%s capacity=%s%s' % (
                    step_name(ops, i)[:40], short_triples(o['h'], 120), short_triples(o['f'], 120),
                    short_triples(triples_str(states[i]), 120), o['used'], o['cap'], '' if o['rv'] is None else ' read_value=' + o['rv']))
            if real.err:
                print('REPLAY  %s raised %s' % (step_name(ops, real.err[0]), real.err[2]))
            bad = oracle(init, ops, real)
            if bad:
                ctx.fail(bad[0], bad[1], c)
            rep = drv(ctx, [hist_line(init, ops)])
            if rep is not None:
                compare_model(ctx, init, ops, real, rep[0], c)
    finally:
        md._INITIAL_MMAP_SIZE = real_size
        shutil.rmtree(tmp, ignore_errors=True)
    for f in ctx.failures:
        print('REPLAY-FAIL', f['sig'], f['what'])
    for f in ctx.divergences:
        print('REPLAY-DIVERGE', f['what'])
    return 1 if ctx.failures or ctx.divergences else 0
