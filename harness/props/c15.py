"""C15 — the OpenMetrics parser enforces each of its validation rules on every instance.

Cases: valid documents from the grammar generator (harness/omgen.py: every family type, several groups and families,
varied numbers, timestamps, exemplars, quoted names)  ×  one rule-violating transformation per rule  ×  EVERY
position at which the transformation applies.

Oracle on the REAL parser (independent of the model): the transformed document raises ValueError.
    accepted            -> ctx.fail("C15:<rule>:accepted", …)
    another exception   -> ctx.fail("C15:<rule>:raises-<Class>", …)
HISTORIES (rule enforcement must not depend on what the parser did before): a sample of the transformed documents of every
(document, rule) is also parsed in fresh forks of two helper interpreters — a pristine one (1st and 2nd parse of the document,
then its valid base document, then the document again) and one warmed up with valid documents having families of every type —
and must raise ValueError at every step; a different outcome between steps is reported as `C15:<rule>:history-dependent`.
Eight base documents have families of types [t, other, t] for every type t, so every transformation is also applied to a
family that follows a valid family of its own type and one of another type in the same document.
T2: the model (`om parse`) gives the same outcome on every transformed document and on every base document.
The instances the theorems of Props/C15.lean exclude (side conditions) are run too and their outcome is recorded in
the evidence (`exemptions`), classified as documented exemption or hole.
"""
import copy
import os
import sys

if __name__ == '__main__':
    sys.path.insert(0, os.path.dirname(os.path.dirname(os.path.abspath(__file__))))
    import lib
    sys.path.insert(0, lib.REPO)

import lib
import corecheck
import omgen
from props import c14om

SUFFIXES = {'counter': ['_total', '_created'], 'summary': ['_count', '_sum', '_created'],
            'histogram': ['_count', '_sum', '_bucket', '_created'], 'gaugehistogram': ['_gcount', '_gsum', '_bucket'],
            'info': ['_info'], 'gauge': [], 'stateset': [], 'unknown': []}


def text_of(lines, nl=True):
    return '\n'.join(lines) + ('\n' if nl else '')


def fam_blocks(doc):
    """[(fam, [meta lines], [sample lines])] as rendered"""
    return [(f, f.meta_lines(), [s.render() for s in f.sample_lines()]) for f in doc.fams]


def render_with(doc, fam_index, meta=None, samples=None):
    """document text with one family's metadata / sample lines replaced"""
    out = []
    for i, (f, m, s) in enumerate(fam_blocks(doc)):
        if i == fam_index:
            m = m if meta is None else meta
            s = s if samples is None else samples
        out += m + s
    return text_of(out + ['# EOF'], doc.eof_newline)


def suffix_of(f, s):
    return s.name[len(f.name):]


def typed(f):
    return 'TYPE' in f.meta


# --------------------------------------------------------------------------------------------------- the rules
def r_missing_eof(doc, rng):
    ls = doc.lines()
    yield 'no EOF line', text_of(ls[:-1])
    yield 'no EOF line, no final newline', text_of(ls[:-1], False)
    for cut in range(1, 5):
        yield 'EOF line truncated to %r' % '# EOF'[:cut], text_of(ls[:-1] + ['# EOF'[:cut]])
    yield 'EOF line with trailing space', text_of(ls[:-1] + ['# EOF '])
    yield 'lower-case eof', text_of(ls[:-1] + ['# eof'])


def r_content_after_eof(doc, rng):
    ls = doc.lines()
    for extra in ['# EOF', 'zz_after 1', '# TYPE zz_after gauge', '# HELP zz_after x', ' ', '#']:
        yield 'line %r after EOF' % extra, text_of(ls + [extra])
    # EOF moved to every earlier position
    body = ls[:-1]
    for i in range(len(body)):
        yield 'EOF before line %d' % i, text_of(body[:i] + ['# EOF'] + body[i:])
    for i in range(len(body)):
        yield 'extra EOF before line %d' % i, text_of(body[:i] + ['# EOF'] + body[i:] + ['# EOF'])


def r_blank_line(doc, rng):
    ls = doc.lines()
    for i in range(len(ls) + 1):
        yield 'blank line at %d' % i, text_of(ls[:i] + [''] + ls[i:])
    yield 'blank line after EOF without newline', '\n'.join(ls) + '\n\n'


def r_repeated_metadata(doc, rng):
    for fi, (f, m, s) in enumerate(fam_blocks(doc)):
        for i in range(len(m)):
            for j in range(len(m) + 1):
                yield '%s line of family %d repeated at %d' % (f.meta[i], fi, j), render_with(doc, fi, meta=m[:j] + [m[i]] + m[j:])
            kind = f.meta[i]
            other = {'HELP': '# HELP %s other text' % f.mname(), 'TYPE': '# TYPE %s %s' % (f.mname(), 'gauge' if f.typ != 'gauge' else 'counter'),
                     'UNIT': '# UNIT %s %s' % (f.mname(), f.unit)}[kind]
            yield 'second, different %s line of family %d' % (kind, fi), render_with(doc, fi, meta=m + [other])


def r_repeated_metadata_empty_first(doc, rng):
    for fi, (f, m, s) in enumerate(fam_blocks(doc)):
        # the FIRST occurrence carries the EMPTY value (`# UNIT name ` / `# HELP name `, one trailing blank — the only spelling the
        # parser reads as empty): a second line of the kind, empty again or with a real value, directly after it and after every
        # later metadata line of the block
        for kind in ('UNIT', 'HELP'):
            rest = [x for x, k in zip(m, f.meta) if k != kind]
            empty = '# %s %s ' % (kind, f.mname())
            seconds = [empty]
            if kind == 'HELP':
                seconds += ['# HELP %s other text' % f.mname(), '# HELP %s  ' % f.mname()]
            elif f.unit:
                seconds.append('# UNIT %s %s' % (f.mname(), f.unit))
            for p in range(len(rest) + 1):
                for q in range(p, len(rest) + 1):
                    for second in seconds:
                        meta = rest[:p] + [empty] + rest[p:q] + [second] + rest[q:]
                        yield ('empty %s line of family %d at %d, second %r at %d' % (kind, fi, p, second[2:6] + second[len(empty) - 1:], q),
                               render_with(doc, fi, meta=meta))


def r_late_metadata(doc, rng):
    for fi, (f, m, s) in enumerate(fam_blocks(doc)):
        if not s:
            continue
        cands = list(m)
        if 'HELP' not in f.meta:
            cands.append('# HELP %s late' % f.mname())
        if 'TYPE' not in f.meta:
            cands.append('# TYPE %s unknown' % f.mname())
        for k in range(1, len(s) + 1):
            for c in cands:
                if c in m:
                    yield 'metadata %r moved after sample %d of family %d' % (c[:12], k, fi), render_with(doc, fi, meta=[x for x in m if x != c], samples=s[:k] + [c] + s[k:])
                else:
                    yield 'metadata %r added after sample %d of family %d' % (c[:12], k, fi), render_with(doc, fi, samples=s[:k] + [c] + s[k:])


def r_interleaved_families(doc, rng):
    for fi, (f, m, s) in enumerate(fam_blocks(doc)):
        for k in range(1, len(s)):
            for foreign in (['zz_other 1'], ['# TYPE zz_other gauge', 'zz_other 1'], ['# HELP zz_other x']):
                yield 'foreign family inside family %d after sample %d' % (fi, k), render_with(doc, fi, samples=s[:k] + foreign + s[k:])
    blocks = fam_blocks(doc)
    if len(blocks) >= 2:
        for fi in range(len(blocks)):
            f, m, s = blocks[fi]
            if len(s) < 1 or len(s) + len(m) < 2:
                continue
            # the last sample of family fi moved behind every later family
            for fj in range(fi + 1, len(blocks)):
                out = []
                for i, (g, gm, gs) in enumerate(blocks):
                    out += gm + (gs[:-1] if i == fi else gs)
                    if i == fj:
                        out.append(s[-1])
                yield 'last sample of family %d moved behind family %d' % (fi, fj), text_of(out + ['# EOF'])


def r_clashing_families(doc, rng):
    blocks = fam_blocks(doc)
    for fi, (f, m, s) in enumerate(blocks):
        names = [f.name + suf for suf in (SUFFIXES[f.typ] if typed(f) else [])] + [f.name]
        for nm in names:
            q = nm if omgen.is_legacy(nm) else '"%s"' % omgen.esc(nm)
            smp = ('%s 1' % nm) if omgen.is_legacy(nm) else ('{%s} 1' % q)
            for intruder in (['# TYPE %s gauge' % q, smp], ['# TYPE %s gauge' % q], ['# HELP %s x' % q]):
                for pos in range(len(blocks) + 1):
                    out = []
                    for i, (g, gm, gs) in enumerate(blocks):
                        if i == pos:
                            out += intruder
                        out += gm + gs
                    if pos == len(blocks):
                        out += intruder
                    # directly in front of the family itself a bare HELP/TYPE line merges with it instead of clashing
                    if pos == fi and nm == f.name and (len(intruder) == 1 or not f.meta):
                        continue
                    yield 'family named %r inserted at %d (clashes with family %d)' % (nm, pos, fi), text_of(out + ['# EOF'])


def r_stray_reserved_sample(doc, rng):
    """a sample line WITHOUT metadata under a name some family of the document reserves (its bare name; for a typed family also
    name + each suffix of its type), at every place where it is not a legal sample of the family it lands in: between any two
    family blocks, in front of the first, behind the last, and — for a name the owner's type does not expose, e.g. the bare name
    of a counter / histogram / gaugehistogram / info family — also at every position inside the owner's own block.  The line
    opens an implicit `unknown` family that clashes with the owner."""
    blocks = fam_blocks(doc)
    for fi, (f, m, s) in enumerate(blocks):
        typ = f.typ if typed(f) else 'unknown'
        exposed = [f.name + suf for suf in omgen.EXPOSED_SUFFIXES[typ]]
        reserved = [f.name] + [f.name + suf for suf in SUFFIXES[typ] if suf]
        for nm in reserved:
            line = omgen.stray_sample_line(nm)
            legal = nm in exposed
            kind = 'exposed' if legal else 'not exposed'
            for pos in range(len(blocks) + 1):
                if legal and pos == fi + 1:
                    continue                          # directly behind its own family: one more sample of it
                if legal and pos == fi and not m:
                    continue                          # in front of a family without metadata lines: merges with it
                out = []
                for i, (g, gm, gs) in enumerate(blocks):
                    if i == pos:
                        out.append(line)
                    out += gm + gs
                if pos == len(blocks):
                    out.append(line)
                yield ('bare sample %r (reserved by %s family %d, %s by its type) at block position %d' % (nm, typ, fi, kind, pos),
                       text_of(out + ['# EOF']))
            if not legal:
                for k in range(len(s) + 1):
                    yield ('bare sample %r (reserved by %s family %d, not exposed by its type) inside the family after %d of its %d samples'
                           % (nm, typ, fi, k, len(s)), render_with(doc, fi, samples=s[:k] + [line] + s[k:]))


def r_unit_not_suffix(doc, rng):
    for fi, (f, m, s) in enumerate(fam_blocks(doc)):
        if f.typ in ('info', 'stateset'):
            continue
        for u in ['zzz', 'second', 'econds', 's']:
            if f.name.endswith('_' + u):
                continue
            line = '# UNIT %s %s' % (f.mname(), u)
            if 'UNIT' in f.meta:
                yield 'unit of family %d changed to %r' % (fi, u), render_with(doc, fi, meta=[line if x.startswith('# UNIT') else x for x in m])
            else:
                for j in range(len(m) + 1):
                    yield 'UNIT %r added to family %d at %d' % (u, fi, j), render_with(doc, fi, meta=m[:j] + [line] + m[j:])


def rename_family(f, new):
    g = copy.deepcopy(f)
    for grp in g.groups:
        for s in grp.samples:
            s.name = new + s.name[len(f.name):]
            s.labels = [((new if k == f.name else k), v) for k, v in s.labels]
    g.name = new
    return g


def r_unit_on_info_stateset(doc, rng):
    for fi, f in enumerate(doc.fams):
        if f.typ not in ('info', 'stateset'):
            continue
        for u in ['seconds', 'x']:
            g = rename_family(f, f.name + '_' + u)
            g.unit = u
            for j in range(len(g.meta) + 1):
                d = doc.copy()
                g2 = copy.deepcopy(g)
                g2.meta = g.meta[:j] + ['UNIT'] + g.meta[j:]
                d.fams[fi] = g2
                yield 'unit %r on %s family %d (UNIT line at %d)' % (u, f.typ, fi, j), d.render()


def hist_groups(doc):
    for fi, f in enumerate(doc.fams):
        if f.typ in ('histogram', 'gaugehistogram'):
            for gi, g in enumerate(f.groups):
                yield fi, f, gi, g


def with_group(doc, fi, gi, samples):
    d = doc.copy()
    d.fams[fi].groups[gi].samples = samples
    return d.render()


def r_hist_no_inf(doc, rng):
    for fi, f, gi, g in hist_groups(doc):
        ss = g.samples
        for k, s in enumerate(ss):
            if suffix_of(f, s) == '_bucket' and dict(s.labels).get('le') == '+Inf' and len(ss) > 1:
                yield '+Inf bucket of family %d group %d removed' % (fi, gi), with_group(doc, fi, gi, ss[:k] + ss[k + 1:])
                for alt in ['inf', 'Inf', '+inf', 'Infinity', '1e999', '+INF']:
                    s2 = copy.deepcopy(s)
                    s2.labels = [(a, alt if a == 'le' else b) for a, b in s2.labels]
                    yield '+Inf bucket of family %d group %d spelled %r' % (fi, gi, alt), with_group(doc, fi, gi, ss[:k] + [s2] + ss[k + 1:])
                if k > 0 and suffix_of(f, ss[k - 1]) == '_bucket':
                    s2 = copy.deepcopy(s)
                    s2.labels = [(a, '1e9' if a == 'le' else b) for a, b in s2.labels]
                    yield '+Inf bucket of family %d group %d replaced by a finite bound' % (fi, gi), with_group(doc, fi, gi, ss[:k] + [s2] + ss[k + 1:])


def buckets_of(f, g):
    return [k for k, s in enumerate(g.samples) if suffix_of(f, s) == '_bucket']


def set_label(s, key, val):
    s2 = copy.deepcopy(s)
    s2.labels = [(a, val if a == key else b) for a, b in s2.labels]
    return s2


def r_hist_bounds_not_increasing(doc, rng):
    for fi, f, gi, g in hist_groups(doc):
        ss = g.samples
        bk = buckets_of(f, g)
        for a, b in zip(bk, bk[1:]):
            la, lb = dict(ss[a].labels)['le'], dict(ss[b].labels)['le']
            # equal bounds in a different spelling (the same spelling is the same series: the line is then dropped as a
            # duplicate, see EXEMPTIONS), and swapped bounds
            if la != '+Inf':
                alt = repr(float(la)) if repr(float(la)) != la else ('%.1f0' % float(la) if float(la) == int(float(la)) else la + '0')
                out = list(ss); out[b] = set_label(ss[b], 'le', alt)
                yield 'bound %d of family %d group %d repeated as %r' % (b, fi, gi, alt), with_group(doc, fi, gi, out)
            out = list(ss); out[a] = set_label(ss[a], 'le', lb); out[b] = set_label(ss[b], 'le', la)
            if lb != '+Inf' or b != bk[-1]:
                yield 'bounds %d,%d of family %d group %d swapped' % (a, b, fi, gi), with_group(doc, fi, gi, out)
            if lb == '+Inf':
                # keep +Inf last: put a smaller bound after a larger one instead
                out = list(ss); out[a] = set_label(ss[a], 'le', '1e300')
                if a != bk[0]:
                    out[bk[0]] = set_label(ss[bk[0]], 'le', '1e301')
                    yield 'bound %d of family %d group %d below its predecessor' % (a, fi, gi), with_group(doc, fi, gi, out)


def r_hist_bound_nan(doc, rng):
    for fi, f, gi, g in hist_groups(doc):
        ss = g.samples
        for k in buckets_of(f, g):
            for alt in ['nan', 'NaN', '-nan', 'NAN', '+nan', 'nAn', ' nan', 'x', '']:
                out = list(ss); out[k] = set_label(ss[k], 'le', alt)
                yield 'bound %d of family %d group %d set to %r' % (k, fi, gi, alt), with_group(doc, fi, gi, out)
            s2 = copy.deepcopy(ss[k]); s2.labels = [(a, b) for a, b in s2.labels if a != 'le']
            out = list(ss); out[k] = s2
            yield 'le label of bucket %d of family %d group %d removed' % (k, fi, gi), with_group(doc, fi, gi, out)


def bump(v, by):
    x = float(v)
    return str(int(x) + by)


def r_hist_counts_not_cumulative(doc, rng):
    for fi, f, gi, g in hist_groups(doc):
        ss = g.samples
        bk = buckets_of(f, g)
        last = float(ss[bk[-1]].value)
        for a, b in zip(bk, bk[1:]):
            out = list(ss)
            s2 = copy.deepcopy(ss[a]); s2.value = str(int(last) + rng.choice([1, 7, 1000]))
            out[a] = s2
            yield 'count of bucket %d of family %d group %d above its successor' % (a, fi, gi), with_group(doc, fi, gi, out)


def r_hist_non_integral(doc, rng):
    for fi, f, gi, g in hist_groups(doc):
        ss = g.samples
        for k, s in enumerate(ss):
            if suffix_of(f, s) in ('_bucket', '_count', '_gcount'):
                for v in [str(int(float(s.value))) + '.5', '1e-1', 'NaN'] + (['+Inf'] if suffix_of(f, s) != '_bucket' or k == buckets_of(f, g)[-1] else []):
                    out = list(ss); s2 = copy.deepcopy(s); s2.value = v; out[k] = s2
                    yield 'value of %s sample %d of family %d group %d set to %r' % (suffix_of(f, s), k, fi, gi, v), with_group(doc, fi, gi, out)
    for fi, f in enumerate(doc.fams):
        if f.typ == 'summary':
            for gi, g in enumerate(f.groups):
                for k, s in enumerate(g.samples):
                    if suffix_of(f, s) == '_count':
                        out = list(g.samples); s2 = copy.deepcopy(s); s2.value = str(int(float(s.value))) + '.25'; out[k] = s2
                        yield 'summary _count of family %d group %d non-integral' % (fi, gi), with_group(doc, fi, gi, out)


def r_hist_count_ne_inf(doc, rng):
    for fi, f, gi, g in hist_groups(doc):
        ss = g.samples
        bk = buckets_of(f, g)
        inf = int(float(ss[bk[-1]].value))
        for k, s in enumerate(ss):
            if suffix_of(f, s) in ('_count', '_gcount'):
                for v in sorted({inf + 1, inf + 100, max(inf - 1, 0), 0} - {inf}):
                    out = list(ss); s2 = copy.deepcopy(s); s2.value = str(v); out[k] = s2
                    yield '%s of family %d group %d set to %d (+Inf bucket %d)' % (suffix_of(f, s), fi, gi, v, inf), with_group(doc, fi, gi, out)
                # and the other way round: the +Inf bucket (and all buckets, to stay cumulative) raised instead
                out = [copy.deepcopy(x) for x in ss]
                out[bk[-1]].value = str(inf + 3)
                yield '+Inf bucket of family %d group %d raised above %s' % (fi, gi, suffix_of(f, s)), with_group(doc, fi, gi, out)


def all_samples(doc):
    for fi, f in enumerate(doc.fams):
        for gi, g in enumerate(f.groups):
            for k, s in enumerate(g.samples):
                yield fi, f, gi, g, k, s


def with_sample(doc, fi, gi, k, s2):
    d = doc.copy()
    d.fams[fi].groups[gi].samples[k] = s2
    return d.render()


def r_counter_like_nan(doc, rng):
    for fi, f, gi, g, k, s in all_samples(doc):
        if typed(f) and suffix_of(f, s) in ('_total', '_sum', '_count', '_bucket', '_gcount', '_gsum'):
            for v in ['NaN', 'nan', '-NaN']:
                s2 = copy.deepcopy(s); s2.value = v
                yield '%s of family %d group %d sample %d set to %s' % (suffix_of(f, s), fi, gi, k, v), with_sample(doc, fi, gi, k, s2)


def r_counter_like_negative(doc, rng):
    for fi, f, gi, g, k, s in all_samples(doc):
        if typed(f) and suffix_of(f, s) in ('_total', '_sum', '_count', '_bucket', '_gcount'):
            for v in ['-1', '-0.5', '-1e-9', '-Inf'] if suffix_of(f, s) in ('_total', '_sum') else ['-1', '-3']:
                s2 = copy.deepcopy(s); s2.value = v
                yield '%s of family %d group %d sample %d set to %s' % (suffix_of(f, s), fi, gi, k, v), with_sample(doc, fi, gi, k, s2)
        if f.typ == 'summary' and suffix_of(f, s) == '':
            for v in ['-1', '-1e-9']:
                s2 = copy.deepcopy(s); s2.value = v
                yield 'quantile value of family %d group %d sample %d set to %s' % (fi, gi, k, v), with_sample(doc, fi, gi, k, s2)


def r_info_not_one(doc, rng):
    for fi, f, gi, g, k, s in all_samples(doc):
        if f.typ == 'info':
            for v in ['0', '2', '1.5', '-1', 'NaN', '+Inf', '0.999999', '1.0000001', '1e1', '-1.0']:
                s2 = copy.deepcopy(s); s2.value = v
                yield 'info value of family %d sample %d,%d set to %s' % (fi, gi, k, v), with_sample(doc, fi, gi, k, s2)


def r_stateset_bad_value(doc, rng):
    for fi, f, gi, g, k, s in all_samples(doc):
        if f.typ == 'stateset':
            for v in ['2', '0.5', '-1', 'NaN', '+Inf', '1.0000001', '-0.5', '1e1']:
                s2 = copy.deepcopy(s); s2.value = v
                yield 'stateset value of family %d sample %d,%d set to %s' % (fi, gi, k, v), with_sample(doc, fi, gi, k, s2)


def r_stateset_missing_label(doc, rng):
    for fi, f, gi, g, k, s in all_samples(doc):
        if f.typ == 'stateset':
            s2 = copy.deepcopy(s); s2.labels = [(a, b) for a, b in s.labels if a != f.name]
            yield 'state label of family %d sample %d,%d removed' % (fi, gi, k), with_sample(doc, fi, gi, k, s2)
            s2 = copy.deepcopy(s); s2.labels = [((a + 'x') if a == f.name else a, b) for a, b in s.labels]
            yield 'state label of family %d sample %d,%d renamed' % (fi, gi, k), with_sample(doc, fi, gi, k, s2)


def r_quantile_out_of_range(doc, rng):
    for fi, f, gi, g, k, s in all_samples(doc):
        if f.typ == 'summary' and suffix_of(f, s) == '':
            for q in ['1.5', '-0.1', '1.0000001', '-1e-9', 'NaN', '+Inf', '-Inf', '2', '1e1']:
                yield 'quantile of family %d sample %d,%d set to %s' % (fi, gi, k, q), with_sample(doc, fi, gi, k, set_label(s, 'quantile', q))
            s2 = copy.deepcopy(s); s2.labels = [(a, b) for a, b in s.labels if a != 'quantile']
            yield 'quantile label of family %d sample %d,%d removed' % (fi, gi, k), with_sample(doc, fi, gi, k, s2)


TS_FORMS = [lambda t: str(t), lambda t: '%d.5' % t, lambda t: '%d.000000001' % t, lambda t: '%de0' % t, lambda t: '-%d' % (10 ** 6 - t)]


def r_timestamp_backwards(doc, rng):
    for fi, f in enumerate(doc.fams):
        if f.typ == 'info':
            continue                                   # exempt in the parser (see `exemptions`)
        for gi, g in enumerate(f.groups):
            n = len(g.samples)
            if n < 2:
                continue
            for form in TS_FORMS:
                hist = f.typ in ('histogram', 'gaugehistogram')
                for k in range(1, n):
                    out = [copy.deepcopy(x) for x in g.samples]
                    for i, s in enumerate(out):
                        s.ts = form(100 if hist else 100 + 10 * i)
                    out[k].ts = form((100 if hist else 100 + 10 * (k - 1)) - rng.choice([1, 5, 99]))
                    yield 'timestamp of family %d group %d sample %d below its predecessor' % (fi, gi, k), with_group(doc, fi, gi, out)


# (previous, current) timestamps of two consecutive samples, current EARLIER by 1 ns … 500 ns at epoch-sized seconds — below
# the resolution of a double there (≈ 238 ns) — in the aaaa.bbbb form with nine and with fewer fractional digits
NS_PAIRS = [('1700000000.000000001', '1700000000'), ('1700000000.000000001', '1700000000.000000000'),
            ('1700000000.000000100', '1700000000.000000050'), ('1700000000.0000001', '1700000000'),
            ('1700000000.0000001', '1700000000.00000005'), ('1700000000.000000500', '1700000000.000000499'),
            ('1700000000.0000005', '1700000000.00000025'), ('1700000000.00000024', '1700000000.0000001'),
            ('1700000000.000000500', '1700000000'), ('1700000000.9999999', '1700000000.99999985'),
            ('1700000001', '1700000000.999999999'), ('1700000001.000000000', '1700000000.9999999'),
            ('-1700000000', '-1700000000.000000100'), ('-1699999999.9999999', '-1700000000'),
            ('17.000000002', '17.000000001'), ('0.000000002', '0.000000001'), ('1700000000.00000010', '1700000000.0000000')]


def r_timestamp_backwards_ns(doc, rng):
    for fi, f in enumerate(doc.fams):
        if f.typ == 'info':
            continue
        for gi, g in enumerate(f.groups):
            n = len(g.samples)
            if n < 2:
                continue
            for hi, lo in NS_PAIRS:
                for k in range(1, n):
                    out = [copy.deepcopy(x) for x in g.samples]
                    first = lo if lo.startswith('-') else lo.split('.')[0]
                    for i, s in enumerate(out):
                        s.ts = first if i < k - 1 else (hi if i == k - 1 else lo)
                    yield ('timestamp of family %d group %d sample %d earlier than its predecessor by nanoseconds (%s after %s)'
                           % (fi, gi, k, lo, hi)), with_group(doc, fi, gi, out)


def r_timestamp_partial(doc, rng):
    for fi, f in enumerate(doc.fams):
        allg = [(gi, g) for gi, g in enumerate(f.groups)]
        if f.typ == 'info':
            # one group for the parser: flatten
            flat = [s for g in f.groups for s in g.samples]
            if len(flat) >= 2:
                for k in range(len(flat)):
                    d = doc.copy()
                    fl = [s for g in d.fams[fi].groups for s in g.samples]
                    has = fl[0].ts is not None
                    for s in fl:
                        s.ts = '100' if not has else s.ts
                    fl[k].ts = None
                    if has or True:
                        yield 'timestamp of info family %d sample %d removed' % (fi, k), d.render()
            continue
        for gi, g in allg:
            n = len(g.samples)
            if n < 2:
                continue
            for k in range(n):
                out = [copy.deepcopy(x) for x in g.samples]
                if out[0].ts is None:
                    out[k].ts = rng.choice(['100', '100.5', '1e2'])
                    yield 'timestamp added to family %d group %d sample %d only' % (fi, gi, k), with_group(doc, fi, gi, out)
                else:
                    out[k].ts = None
                    yield 'timestamp removed from family %d group %d sample %d only' % (fi, gi, k), with_group(doc, fi, gi, out)


def other_spellings(k):
    """name tokens that decode to the label name k but are spelled differently from the generator's own token"""
    own = omgen.key_token(k)
    out = []
    if omgen.is_legacy_label(k):
        out.append('"%s"' % k)                       # a legacy name written quoted
    else:
        if '\\' in k:
            out.append('"%s"' % k.replace('\n', '\\n').replace('"', '\\"'))   # backslash left unescaped: `\s` is no escape sequence
    out += [' ' + own, own + ' ']                    # blanks around the token are stripped before it is decoded
    return [t for t in out if t != own]


def r_duplicate_label(doc, rng):
    for fi, f, gi, g, k, s in all_samples(doc):
        for j, (a, b) in enumerate(s.labels):
            for pos in range(len(s.labels) + 1):
                s2 = copy.deepcopy(s)
                s2.labels = s.labels[:pos] + [(a, rng.choice([b, b + 'x', '']))] + s.labels[pos:]
                yield 'label %r of family %d sample %d,%d duplicated at %d' % (a, fi, gi, k, pos), with_sample(doc, fi, gi, k, s2)
                # the same name under another spelling of its token (bare <-> quoted, other escape spelling, padded)
                for tok in other_spellings(a):
                    s2 = copy.deepcopy(s)
                    s2.labels = s.labels[:pos] + [(omgen.RawKey(a, tok), rng.choice([b, b + 'x']))] + s.labels[pos:]
                    yield ('label %r of family %d sample %d,%d duplicated at %d as %r' % (a, fi, gi, k, pos, tok)), with_sample(doc, fi, gi, k, s2)
        if s.exemplar is not None and s.exemplar[0]:
            ls, v, t = s.exemplar
            s2 = copy.deepcopy(s); s2.exemplar = (ls + [ls[0]], v, t)
            yield 'exemplar label of family %d sample %d,%d duplicated' % (fi, gi, k), with_sample(doc, fi, gi, k, s2)
            for j, (a, b) in enumerate(ls):
                for tok in other_spellings(a):
                    for pos in range(len(ls) + 1):
                        s2 = copy.deepcopy(s)
                        s2.exemplar = (ls[:pos] + [(omgen.RawKey(a, tok), b)] + ls[pos:], v, t)
                        yield ('exemplar label %r of family %d sample %d,%d duplicated at %d as %r' % (a, fi, gi, k, pos, tok)), with_sample(doc, fi, gi, k, s2)
        elif omgen_eligible(f, s):
            # give an eligible sample an exemplar whose label comes twice, once bare and once quoted
            for pair in ([('t', 'x'), (omgen.RawKey('t', '"t"'), 'y')], [(omgen.RawKey('t', '"t"'), 'x'), ('t', 'x')],
                         [('b\\s', 'x'), (omgen.RawKey('b\\s', '"b\\s"'), 'x')]):
                s2 = copy.deepcopy(s); s2.exemplar = (pair, '1', None)
                yield 'exemplar with one label in two spellings on family %d sample %d,%d' % (fi, gi, k), with_sample(doc, fi, gi, k, s2)


def omgen_eligible(f, s):
    return typed(f) and ((f.typ in ('histogram', 'gaugehistogram') and s.name.endswith('_bucket')) or (f.typ == 'counter' and s.name.endswith('_total')))


def eligible(f, s):
    return (f.typ in ('histogram', 'gaugehistogram') and s.name.endswith('_bucket')) or (f.typ == 'counter' and s.name.endswith('_total'))


def r_exemplar_ineligible(doc, rng):
    for fi, f, gi, g, k, s in all_samples(doc):
        if not (typed(f) and eligible(f, s)):
            for ex in [([], '1', None), ([('trace_id', 'abc')], '0.5', '123.5'), ([('a', '')], 'NaN', None)]:
                s2 = copy.deepcopy(s); s2.exemplar = ex
                yield 'exemplar on %s sample %r of family %d (%d,%d)' % (f.typ if typed(f) else 'untyped', suffix_of(f, s), fi, gi, k), with_sample(doc, fi, gi, k, s2)


def r_exemplar_too_long(doc, rng):
    for fi, f, gi, g, k, s in all_samples(doc):
        if typed(f) and eligible(f, s):
            for ls in [[('a', 'x' * 128)], [('a' * 64, 'x' * 65)], [('a', 'x' * 60), ('b', 'y' * 60), ('c', 'z' * 6)], [('é' * 100, 'ü' * 29)],
                       [('trace_id', 'x' * 1000)]]:
                s2 = copy.deepcopy(s); s2.exemplar = (ls, '1', rng.choice([None, '123']))
                yield 'exemplar of %d characters on family %d sample %d,%d' % (sum(len(a) + len(b) for a, b in ls), fi, gi, k), with_sample(doc, fi, gi, k, s2)


RULES = [
    ('missing-eof', r_missing_eof), ('content-after-eof', r_content_after_eof), ('blank-line', r_blank_line),
    ('repeated-metadata', r_repeated_metadata), ('repeated-metadata-empty-first', r_repeated_metadata_empty_first),
    ('late-metadata', r_late_metadata),
    ('interleaved-families', r_interleaved_families), ('clashing-families', r_clashing_families),
    ('clashing-families', r_stray_reserved_sample),
    ('unit-not-suffix', r_unit_not_suffix), ('unit-on-info-stateset', r_unit_on_info_stateset),
    ('hist-no-inf', r_hist_no_inf), ('hist-bounds-not-increasing', r_hist_bounds_not_increasing),
    ('hist-bound-nan', r_hist_bound_nan), ('hist-counts-not-cumulative', r_hist_counts_not_cumulative), ('hist-non-integral', r_hist_non_integral),
    ('hist-count-ne-inf', r_hist_count_ne_inf), ('counter-like-nan', r_counter_like_nan),
    ('counter-like-negative', r_counter_like_negative), ('info-not-one', r_info_not_one),
    ('stateset-bad-value', r_stateset_bad_value), ('stateset-missing-label', r_stateset_missing_label),
    ('quantile-out-of-range', r_quantile_out_of_range), ('timestamp-backwards', r_timestamp_backwards),
    ('timestamp-backwards', r_timestamp_backwards_ns),
    ('timestamp-partial', r_timestamp_partial), ('duplicate-label', r_duplicate_label),
    ('exemplar-ineligible', r_exemplar_ineligible), ('exemplar-too-long', r_exemplar_too_long),
]

# instances the theorems' side conditions exclude, run on the real code; (name, document, classification)
EXEMPTIONS = [
    ('timestamp order is not checked for info families',
     '# TYPE a info\na_info{x="1"} 1 2\na_info{x="2"} 1 1\n# EOF\n',
     'documented exemption: `and typ != \'info\'` with the comment "We can\'t distinguish between groups for info metrics"'),
    ('timestamp order is only checked between consecutive samples of one group',
     '# TYPE a counter\na_total{x="1"} 1 5\na_total{x="2"} 1 3\n# EOF\n',
     'documented exemption: the rule is "within a group"'),
    ('negative _gsum with negative buckets', '# TYPE a gaugehistogram\na_bucket{le="-1"} 1\na_bucket{le="+Inf"} 1\na_gcount 1\na_gsum -1\n# EOF\n',
     'documented exemption: `_gsum` is not in the negative-value suffix list (gauge histograms may sum below zero)'),
    ('_created may be NaN or negative', '# TYPE a counter\na_total 1\na_created NaN\n# EOF\n',
     'documented exemption: `_created` is not in the counter-like suffix lists'),
    ('a native-histogram-shaped line under a histogram family bypasses the family-name test',
     '# TYPE a histogram\nb {count:1,sum:1,schema:1,zero_threshold:1,zero_count:1}\n# EOF\n',
     'documented exemption (`and not is_nh`, "native histograms naming exceptions"), reported because it lets a foreign name into family a'),
    ('an empty unit is no unit', '# TYPE a unknown\n# UNIT a \na 1\n# EOF\n', 'documented exemption: `if unit and …`'),
    ('a bucket line repeated with the same bound spelling and timestamp (but another count) is dropped, not rejected',
     '# TYPE a histogram\na_bucket{le="1"} 1\na_bucket{le="1"} 5\na_bucket{le="+Inf"} 1\n# EOF\n',
     'documented exemption (duplicate suppression precedes the histogram checks: "Not a duplicate due to timestamp truncation"); the '
     'second line never reaches _check_histogram, so neither its bound nor its count is examined'),
    ('repeated sample with an equal timestamp is dropped, not rejected', '# TYPE a summary\na{quantile="0.5"} 1\na{quantile="0.5"} 2\n# EOF\n',
     'documented exemption: "Not a duplicate due to timestamp truncation"'),
]


# --------------------------------------------------------------------------------------------------- histories
# Rule enforcement must not depend on what the parser did before.  A `Forker` is a helper interpreter that imports the real
# parser, optionally parses warm-up documents, and then, per request, FORKS: the child parses the request's documents in order
# and reports the outcome of every step; the helper itself never parses again, so every request starts from exactly the same
# process state (pristine: the parser has never run; warm: it has accepted families of every type).
FORKER_SRC = r"""
import json, os, signal, sys
sys.path.insert(0, sys.argv[1])
from prometheus_client.openmetrics import parser as OP
def step(doc):
    try:
        list(OP.text_string_to_metric_families(doc))
        return 'accepted'
    except Exception as e:
        return 'raises-' + type(e).__name__
out = sys.stdout
warm = json.loads(sys.stdin.readline())
out.write(json.dumps([step(d) for d in warm]) + '\n'); out.flush()
for line in sys.stdin:
    docs = json.loads(line)
    r, w = os.pipe()
    pid = os.fork()
    if pid == 0:
        try:
            os.close(r)
            signal.alarm(%d)
            os.write(w, json.dumps([step(d) for d in docs]).encode())
        finally:
            os._exit(0)
    os.close(w)
    buf = b''
    while True:
        chunk = os.read(r, 65536)
        if not chunk:
            break
        buf += chunk
    os.close(r)
    os.waitpid(pid, 0)
    out.write((buf.decode() if buf else json.dumps(['timeout'] * len(docs))) + '\n'); out.flush()
""" % c14om.WATCHDOG_S


class Forker:
    """requests are pipelined: `ask` only writes the request and returns a ticket, a reader thread collects the replies
    (the helper works on another core while the check goes on), `result(ticket)` waits for that reply"""

    def __init__(self, warmup=()):
        import json
        import subprocess
        import threading
        self.warmup = list(warmup)
        self.p = subprocess.Popen([sys.executable, '-c', FORKER_SRC, lib.REPO], stdin=subprocess.PIPE, stdout=subprocess.PIPE,
                                  text=True, encoding='utf-8')
        self.replies = []
        self.asked = 0
        self.dead = False
        self.cond = threading.Condition()
        self.reader = threading.Thread(target=self._read, daemon=True)
        self.reader.start()
        self.warm_outcomes = self.result(self.ask(self.warmup))

    def _read(self):
        import json
        try:
            for line in self.p.stdout:
                with self.cond:
                    self.replies.append(json.loads(line))
                    self.cond.notify_all()
        finally:
            with self.cond:
                self.dead = True
                self.cond.notify_all()

    def ask(self, docs):
        """parse docs in order in a fresh fork of the helper; returns a ticket"""
        import json
        try:
            self.p.stdin.write(json.dumps(list(docs)) + '\n')
            self.p.stdin.flush()
        except (BrokenPipeError, OSError, ValueError):
            raise lib.Infra('C15 history helper died (rc=%s)' % self.p.poll())
        self.asked += 1
        return self.asked - 1

    def result(self, ticket):
        """outcomes ('accepted' | 'raises-<Class>' | 'timeout'), one per document of the request"""
        with self.cond:
            while len(self.replies) <= ticket and not self.dead:
                self.cond.wait(1.0)
            if len(self.replies) <= ticket:
                raise lib.Infra('C15 history helper died (rc=%s)' % self.p.poll())
            return self.replies[ticket]

    def close(self):
        try:
            self.p.stdin.close()
            self.p.wait(timeout=30)
        except Exception:
            self.p.kill()


class Histories:
    """the two helpers + the warm-up documents"""

    def __init__(self, rng):
        self.warm_docs = [d.render() for d in omgen.gen_warmup_docs(rng, 2)]
        self.pristine = Forker()
        self.warm = Forker(self.warm_docs)
        self.pending = []
        bad = [o for o in self.warm.warm_outcomes if o != 'accepted']
        if bad:
            raise lib.Infra('generator produced a rejected warm-up document: %s' % bad)

    def close(self):
        self.pristine.close()
        self.warm.close()

    def submit(self, text, base=None):
        """two forks: one of the pristine helper, one of the warm one"""
        return (self.pristine.ask([text, text] + ([base, text] if base is not None else [text])), self.warm.ask([text, text]), base is not None)

    def resolve(self, tickets):
        """[(history description, outcome of the document at that point)]"""
        a, w, has_base = self.pristine.result(tickets[0]), self.warm.result(tickets[1]), tickets[2]
        out = [('1st parse in a fresh process', a[0]), ('2nd parse of the same document in that process', a[1])]
        if has_base:
            if a[2] != 'accepted':
                out.append(('valid base document, parsed in that process after its rejected variant (must be accepted)', 'base:' + a[2]))
            out.append(('parse in that process after the valid document it was derived from', a[3]))
        else:
            out.append(('3rd parse of the same document in that process', a[2]))
        out += [('1st parse in a process warmed up with %d valid documents having families of every type' % len(self.warm_docs), w[0]),
                ('2nd parse in that warmed-up process', w[1])]
        return out

    def outcomes(self, text, base=None):
        return self.resolve(self.submit(text, base))


def check_history(ctx, b, hs, rule, what, text, base=None):
    """queue: the transformed document must be rejected with ValueError at EVERY point of every history (see settle_histories)"""
    hs.pending.append((hs.submit(text, base), rule, what, text, base))


def settle_histories(ctx, b, hs):
    pending, hs.pending = hs.pending, []
    for tickets, rule, what, text, base in pending:
        obs = hs.resolve(tickets)
        ctx.count('history:' + rule)
        ctx.count('history-steps', len(obs))
        summary = '; '.join('%s: %s' % (h, o) for h, o in obs)
        for h, o in obs:
            if o != 'raises-ValueError':
                case = {'rule': rule, 'what': what, 'text': text, 'legacy': 0, 'history': h, 'base': base, 'warmup': hs.warm_docs,
                        'observed': obs}
                differs = len({o2 for _, o2 in obs}) > 1
                b.fail('C15:%s:%s' % (rule, 'valid-document-rejected' if o.startswith('base:') else 'history-dependent' if differs else o),
                       'rule %s: %s — %s on the %s%s [%s]: %r' % (rule, what, o, h, ' (HISTORY-DEPENDENT outcome)' if differs else '',
                                                                  summary, text[:300]), case)
                break


def outcome(r):
    return 'accepted' if r[0] == 'ok' else ('raises-' + r[1] if r[0] == 'err' else 'timeout')


def check_doc(ctx, b, rule, what, text, legacy=False, hs=None):
    r = c14om.real_parse(text, legacy)
    case = {'rule': rule, 'what': what, 'text': text, 'legacy': int(legacy)}
    ctx.count('rule:' + rule)
    ctx.case(nontrivial_key=(rule, hash(text)), sample={'rule': rule, 'what': what, 'doc': text[:200], 'outcome': outcome(r)} if ctx.dist['rule:' + rule] == 1 else None)
    if r[0] == 'ok':
        where = ''
        if hs is not None and b.sig_seen.get('C15:%s:accepted' % rule, 0) < 3:
            # accepted in this (long-running) process: what do a fresh and a warmed-up process say?
            obs = hs.outcomes(text)
            case.update(history='in the check process, after %d earlier parses' % ctx.evaluations, observed=obs, warmup=hs.warm_docs)
            where = ' in the check process after many earlier parses [%s]%s' % (
                '; '.join('%s: %s' % o for o in obs), ' (HISTORY-DEPENDENT outcome)' if any(o != 'accepted' for _, o in obs) else '')
        b.fail('C15:%s:accepted' % rule, 'rule %s: %s — accepted%s: %r' % (rule, what, where, text[:300]), case)
    elif r[0] != 'err' or r[1] != 'ValueError':
        b.fail('C15:%s:%s' % (rule, outcome(r)), 'rule %s: %s — %s at %s' % (rule, what, outcome(r), r[2] if r[0] == 'err' else '-'), case)
    b.reqs.append('om parse %d %s' % (int(legacy), lib.hx(text)))
    b.items.append((c14om.obs(r), {'kind': 'doc', 'rule': rule, 'text': text, 'legacy': int(legacy)}))


def run(ctx):
    rng = ctx.rng
    quick = ctx.tier == 'quick'
    wide = 3 if ctx.broken else 1
    ctx.rule = ('valid documents from harness/omgen.py (all 8 family types; 1–4 families; 1–3 groups each; varied numbers, timestamp forms, '
                'exemplars, quoted names) × %d rule-violating transformations × every position where each applies (sampled down to a per-'
                'document cap in the quick tier); a case is one transformed document, distinct by (rule, text); all are non-trivial: each '
                'differs from an accepted document by one rule violation; HISTORIES: per (document, rule) a sample of the transformed documents is '
                'parsed in fresh forks of a pristine helper process (1st/2nd/3rd parse; after its valid base document) and of a warmed-up one '
                '(after valid documents with families of every type): ValueError at every step; 8 base documents have families [t, other, t] '
                'for every type t, so each violation also sits behind a valid family of its own and of another type' % len(RULES))
    corecheck.run(ctx, 200 if quick else 3000)
    b = c14om.Batch(ctx)
    cap = 40 if quick else 400
    ndocs = (48 if quick else 400) * wide
    applicable = {name: 0 for name, _ in RULES}
    hs = None
    try:
        hs = Histories(rng)
        # transformed documents per (document, rule) that go through every history; quick tier: on the structured documents only
        nhist = (2 if quick else 12) * wide
        hist_docs = ndocs
        preceded = omgen.gen_preceded_docs(rng)
        for i in range(ndocs):
            if i < len(preceded):
                # families [t, o, t]: every rule at every family position — first of its type, after another type, after its own type
                d = preceded[i][1]
                ctx.count('base-documents:[t,o,t]')
            elif i < len(preceded) + 16:
                j = i - len(preceded)
                d = omgen.gen_doc(rng, types=[omgen.TYPES[j % 8], omgen.TYPES[(j // 8 + j + 3) % 8]], nfam=rng.choice([1, 2, 3]))
            else:
                d = omgen.gen_doc(rng)
            base = d.render()
            r = c14om.real_parse(base, False)
            if r[0] != 'ok':
                raise lib.Infra('generator produced a rejected document: %r' % base[:300])
            ctx.count('base-documents')
            b.reqs.append('om parse 0 ' + lib.hx(base))
            b.items.append((c14om.obs(r), {'kind': 'doc', 'rule': 'base', 'text': base, 'legacy': 0}))
            for name, fn in RULES:
                cases = list(fn(d, rng))
                if not cases:
                    continue
                applicable[name] += 1
                ctx.count('positions:' + name, len(cases))
                if len(cases) > cap:
                    cases = rng.sample(cases, cap)
                cases = [(what, text) for what, text in cases if text != base]
                # histories first (fresh forks of the two helper processes), then the in-process parse + model
                for what, text in (() if i >= hist_docs else cases if len(cases) <= nhist else rng.sample(cases, nhist)):
                    if ctx.time_left() is not None and ctx.time_left() < 5:
                        break
                    check_history(ctx, b, hs, name, what, text, base)
                for what, text in cases:
                    check_doc(ctx, b, name, what, text, hs=hs)
            if len(b.reqs) > 2000:
                settle_histories(ctx, b, hs)
                b.flush()
        settle_histories(ctx, b, hs)
        b.flush()
        # exemptions: what the parser does on the instances the theorems exclude
        ex = []
        for name, text, cls in EXEMPTIONS:
            r = c14om.real_parse(text, False)
            ex.append({'instance': name, 'document': text, 'real_parser': outcome(r), 'classification': cls})
            b.reqs.append('om parse 0 ' + lib.hx(text))
            b.items.append((c14om.obs(r), {'kind': 'doc', 'rule': 'exemption', 'text': text, 'legacy': 0}))
        b.flush()
        ctx.extra['exemptions'] = ex
        ctx.extra['documents_with_applicable_positions'] = applicable
        missing = [n for n, k in applicable.items() if k == 0]
        if missing:
            raise lib.Infra('no generated document offered a position for rules %s' % missing)
    finally:
        c14om.set_legacy(False)
        b.close()
        if hs is not None:
            hs.close()


def replay(ctx, case):
    c = case.get('case', case)
    text = c['text']
    print('rule:', c.get('rule'), '|', c.get('what'))
    print('document:')
    print(text)
    r = c14om.real_parse(text, c.get('legacy', 0))
    print('real parser:', outcome(r), ('@ ' + r[2]) if r[0] == 'err' else '')
    b = c14om.Batch(ctx)
    hs = None
    try:
        if not c.get('legacy', 0):
            import random
            hs = Histories(random.Random(0))
            if c.get('warmup'):
                hs.warm.close()
                hs.warm_docs = c['warmup']
                hs.warm = Forker(hs.warm_docs)
            if c.get('history'):
                print('recorded history:', c['history'])
            for h, o in hs.outcomes(text, c.get('base')):
                print('  %-100s -> %s' % (h, o))
            check_history(ctx, b, hs, c.get('rule', 'replay'), c.get('what', ''), text, c.get('base'))
            settle_histories(ctx, b, hs)
        check_doc(ctx, b, c.get('rule', 'replay'), c.get('what', ''), text, c.get('legacy', 0))
        b.flush()
    finally:
        c14om.set_legacy(False)
        b.close()
        if hs is not None:
            hs.close()
    for f in ctx.failures:
        print('REPLAY-FAIL', f['sig'], '|', f['what'][:300])
    for f in ctx.divergences:
        print('REPLAY-DIVERGE', f['what'][:300])
    return 1 if ctx.failures or ctx.divergences else 0


if __name__ == '__main__':
    import time
    tier = sys.argv[1] if len(sys.argv) > 1 else 'quick'
    seed = int(sys.argv[2]) if len(sys.argv) > 2 else 0
    if os.environ.get('PV_DRIVER'):
        lib.DRIVER = os.environ['PV_DRIVER']
    ctx = lib.Ctx('C15', tier, seed)
    t0 = time.time()
    run(ctx)
    print('evaluations %d nontrivial %d traces %d divergences %d failures %d  %.1fs' % (
        ctx.evaluations, len(ctx.nontrivial), ctx.traces, len(ctx.divergences), len(ctx.failures), time.time() - t0))
    for k in sorted(ctx.dist):
        if not k.startswith('core:'):
            print('  %-44s %d' % (k, ctx.dist[k]))
    for e in ctx.extra.get('exemptions', []):
        print('EXEMPTION %-70s -> %s' % (e['instance'], e['real_parser']))
    sigs = {}
    for f in ctx.failures:
        sigs.setdefault(f['sig'], f)
    for s, f in sorted(sigs.items()):
        print('FAIL', s, '|', f['what'][:500])
    for d in ctx.divergences[:10]:
        print('DIVERGE', d['what'][:400])
