"""C02 — no lost update, error or deadlock under any thread interleaving.

T2 for the lock-protocol proof: REAL threads run the REAL library one bytecode at a time under `sched.py`; every executed
(program, schedule) is judged twice:

  * the PROPERTY'S OWN ORACLE on the real code, independent of the Lean model: final value of every series = sum of the
    increments issued; concurrent labels() with equal values returned the identical child (`is`); no exception in any thread;
    no deadlock; every value a concurrent collect reported is one the series actually held (the raw attribute is sampled at
    every scheduling step) and successive collects never see a counter decrease; for the file-backed back-end the store
    FILES are read back after the threads joined (MmapedDict.read_all_values_from_file on every *.db) and every
    counter / summary / histogram cell in the file must equal the sum of the increments issued as well;
  * CORRESPONDENCE with the model: the canonical outcome of the run must lie in the outcome set the Lean model computes for
    that program at skeleton granularity (`c02 outcomes …`, all interleavings of the micro-steps of the skeletons extracted
    from the CURRENT tree) — this validates the skeleton abstraction against bytecode reality.

Schedules: iterative context bounding (all schedules with <= bound pre-emptions; pre-emption points restricted to lock
operations and to bytecodes of the methods that touch shared state — a pre-emption inside thread-local work is equivalent to one
at the thread's next such point), then seeded random schedules.  A failing schedule is the replay.
"""
import json
import os
import shutil
import tempfile
import threading
import time
import warnings

import lib
import sched

# ------------------------------------------------------------------------------------------------ programs
# op syntax shared with the driver:  inc:o:a set:o:a get:o lab:k linc:k:a rem:k clr reg:c unreg:c col rcol:c rrcol:c  (+ oracle-only obs:s:a obs:h:a info:v state:k sti:v gti rcx:c rct stn ste linc2:k:a regy:i unregy:i colr
#    mk:T:a mkl:T:a colf rcn:N gen)
# mk:T:a  = CONSTRUCT the built-in metric n<T> (T = c|g|s|h|i|e: Counter Gauge Summary Histogram Info Enum) with registry=R inside
#           the thread, then update it by a (inc / observe / info / state);  mkl:T:a = the labelled one l<T> (labelnames ['l']), then
#           labels('0') and the update;  colf = registry.collect() kept family by family;  rcn:N = restricted collect of every
#           series name of metric N;  gen = generate_latest(R);  ste = set_target_info({})
# rcol:c  = registry.collect() over a collector that registers/unregisters x<c> and does a restricted lookup and a
#           get_target_info from inside its collect();  rrcol:c = registry.restricted_registry(['e']).collect() over the same collector
QUICK_PROGRAMS = [
    # (world, program, bound, model?)
    ('c', 'inc:0:1|inc:0:2', 2, True),
    ('c', 'inc:0:1,inc:0:2|inc:0:4|get:0', 1, True),
    ('p', 'linc:0:1|linc:0:2', 2, True),
    ('p', 'lab:0|lab:0|lab:1', 1, True),
    ('p', 'linc:0:1,linc:1:2|col', 1, True),
    ('p', 'lab:0,rem:0|lab:0|clr', 1, True),
    # world q: the children for label values 0 and 1 exist BEFORE the threads start (set-up outside the schedule)
    ('q', 'lab:0|rem:0', 1, True),
    ('q', 'lab:0,lab:1|clr', 1, True),
    ('q', 'linc:0:1|rem:0', 1, False),
    ('c', 'reg:1,unreg:1|col', 1, True),
    ('ce', 'rcol:1|reg:2', 1, True),
    ('ce', 'rrcol:1|reg:2', 1, True),
    ('c', 'inc:0:1,inc:0:2|col|col', 1, True),              # two collecting threads
    ('s', 'obs:s:2|obs:s:3|col', 1, False),
    ('h', 'obs:h:1|obs:h:2|col', 1, False),
    ('in', 'info:a,state:1|info:b,state:2|col', 1, False),   # Info.info / Enum.state against a collect
    ('t', 'sti:a,gti|sti:b|col', 1, False),                  # set_target_info / get_target_info against a collect
    # restricted collects by NAME against unregister / set_target_info(None) of what claims the name; world x: x1, x2 are
    # registered, world g: target info is set, both in the set-up phase
    ('cx', 'rcx:1|unreg:1', 1, False),
    ('g', 'rct|stn', 1, False),
    # two threads CONSTRUCTING values at the same time (children of two different parents; the per-type file is first used /
    # already in use); pre-emption points inside mmap_dict.py are enabled for these (DEEP)
    ('p2', 'linc:0:1|linc2:0:2', 1, False),
    ('cp2', 'linc:0:1|linc2:0:2', 1, False),
    # two DIFFERENT collectors claiming one name: exactly one register() may succeed
    ('c', 'regy:1|regy:2', 1, False),
    # the COLLECTING thread runs first and is pre-empted by a labels() / remove(): the quiescent final collect must expose
    # exactly the children the table holds
    ('p', 'col|linc:0:1', 1, True),
    ('q', 'col|rem:0', 1, True),
    # world y: collector y1 (claiming x9) is registered in the set-up phase; y2 claims the same name
    ('cy', 'unregy:1|regy:2', 1, False),
    ('cy', 'unregy:1|col,regy:2', 1, False),
    # an increment racing a reset() / set() of the same series (world v: the values hold 5 when the threads start; object 0 =
    # counter c, set:0:0 = Counter.reset(); object 1 = gauge g): the final value must be one a SERIAL order of the calls gives
    ('cv', 'inc:0:1|set:0:0', 1, True),
    ('Gv', 'inc:1:1|set:1:10', 1, True),
    # a scraper still READING what collect() handed out while info() runs: world I = Info with two labels, pre-set in the
    # set-up phase; colr = collect, keep the result, render it (pre-emption points inside the rendering)
    ('I', 'info:A|colr', 1, False),
    # one thread CONSTRUCTS a built-in metric with registry=R (pre-emption points inside the constructors: CTOR) while another
    # collects R: no call raises, a family that is collected is complete for its type, the final collect shows the metric
    ('c', 'mk:c:3|colf', 1, False),
    ('c', 'mk:e:1|gen', 1, False),
    # world g (target info CONFIGURED) : a full collect pre-empted by set_target_info(None) / ({}) / (other labels): the
    # target_info family it yields is one the registry held (old or new labels, or none) - never empty, never an error
    ('g', 'colf|stn', 1, False),
    ('g', 'col|ste', 1, False),
    ('g', 'rct|ste', 1, False),
]
DEEP = {'linc:0:1|linc2:0:2', 'linc:0:1,linc:1:1|linc2:0:2,linc2:1:2'}
THOROUGH_PROGRAMS = [
    ('c', 'inc:0:1|inc:0:2|col', 2, True),
    ('c', 'reg:1|reg:2,unreg:2|col', 2, True),
    ('ce', 'rcol:1|col', 2, True),
    ('ce', 'rrcol:1|rcol:2', 2, True),
    ('ce', 'rrcol:1|rrcol:2|col', 2, True),
    ('c', 'inc:0:1,inc:0:2,inc:0:4|inc:0:8,inc:0:16|col,col', 3, True),
    ('c', 'inc:0:1|inc:0:2|inc:0:4', 3, True),
    ('cp', 'linc:0:1,inc:0:1|linc:0:2,col|lab:0', 3, True),
    ('p', 'linc:0:1|linc:1:2|col,col', 3, True),
    ('p', 'lab:0,clr|lab:0,lab:1|rem:1', 3, True),
    ('q', 'lab:0,lab:1|rem:0,rem:1|clr', 2, True),
    ('q', 'linc:0:1,linc:1:1|clr|col', 2, False),
    ('c', 'reg:1,unreg:1|reg:2,unreg:2|col', 3, True),
    ('ce', 'rcol:1|rcol:2|col', 2, True),
    ('cpe', 'rcol:1,inc:0:1|linc:0:1,col', 2, True),
    ('sh', 'obs:s:2,obs:h:1|obs:s:3,obs:h:2|col', 2, False),
    ('p', 'linc:0:1,linc:0:2|col,col|col', 2, True),
    ('sh', 'obs:s:2,obs:h:1|col|col,col', 2, False),
    ('int', 'info:a,sti:x|state:1,sti:y,gti|col,col', 2, False),
    ('cxg', 'rcx:1,rct|unreg:1,stn|rcx:2,unreg:2', 2, False),
    ('p2', 'linc:0:1,linc:1:1|linc2:0:2,linc2:1:2', 2, False),
    ('c', 'regy:1|regy:2|col', 2, False),
    ('q', 'col,col|rem:0,linc:1:1|clr', 2, False),
    ('cy', 'unregy:1|col,regy:2|col', 2, False),
    ('cv', 'inc:0:1|set:0:0|inc:0:2', 2, True),
    ('Gv', 'inc:1:1|set:1:10|inc:1:2', 2, True),
    ('Gv', 'inc:1:1,set:1:3|set:1:10,inc:1:2', 2, True),
    ('I', 'colr|info:A,info:B', 2, False),
    ('I', 'info:A,info:B|colr,colr', 2, False),
    ('I', 'colr|info:A|colr', 2, False),
    # constructors against collects: every type, unlabelled and labelled, full / restricted / rendered collects
    ('g', 'mkl:g:2|rcn:lg', 2, False),
    ('g', 'mk:h:2|gen', 2, False),
    ('c', 'mkl:s:3|rcn:ls', 2, False),
    ('c', 'mk:e:1|colf', 2, False),
    ('c', 'mk:g:3|colf', 2, False),
    ('c', 'mk:s:3|rcn:ns', 2, False),
    ('c', 'mk:h:2|colf', 2, False),
    ('c', 'mk:i:3|colf', 2, False),
    ('c', 'mk:e:2|rcn:ne', 2, False),
    ('g', 'mk:c:3|rcn:nc', 2, False),
    ('c', 'mkl:c:3|colf', 2, False),
    ('c', 'mkl:g:3|gen', 2, False),
    ('c', 'mkl:h:2|colf', 1, False),
    ('c', 'mkl:i:3|colf', 2, False),
    ('c', 'mkl:e:2|colf', 2, False),
    ('c', 'mk:c:3|mk:g:2|colf', 2, False),                    # two constructing threads and a collector
    ('c', 'colf|mk:c:3,mkl:g:1', 2, False),
    # target info configured: collects against set_target_info
    ('g', 'colf|ste,sti:b', 2, False),
    ('g', 'colf|sti:b', 2, False),
    ('g', 'rct|ste', 2, False),
    ('g', 'rct|sti:b,stn', 2, False),
    ('g', 'colf,rct|stn,sti:b|ste', 2, False),
    ('gc', 'colf|stn|gen', 2, False),
    ('g', 'gen|stn,sti:b', 2, False),
]
BACKENDS = ('mutex', 'mmap')

# the methods whose bytecodes touch shared state (pre-emption points); everything in values.py counts
RELEVANT = {
    'metrics.py': {'labels', 'remove', 'clear', '_multi_samples', '_samples', '_child_samples', 'collect', 'info', 'state',
                   'inc', 'observe'},
    'registry.py': {'register', 'unregister', 'collect', '_get_names', 'set_target_info', 'get_target_info',
                    '_target_info_metric', 'restricted_registry'},
}


# bytecodes that work on the thread's own stack / locals only: pre-empting before one of them is equivalent to pre-empting
# before the thread's next bytecode that is not in this set (attribute / subscript / closure access, calls, iteration, with)
LOCAL_OPS = frozenset("""LOAD_FAST LOAD_FAST_CHECK LOAD_FAST_AND_CLEAR STORE_FAST DELETE_FAST LOAD_CONST POP_TOP COPY SWAP RESUME NOP
PUSH_NULL LOAD_GLOBAL KW_NAMES CACHE JUMP_FORWARD JUMP_BACKWARD JUMP_BACKWARD_NO_INTERRUPT POP_JUMP_IF_TRUE POP_JUMP_IF_FALSE
POP_JUMP_IF_NONE POP_JUMP_IF_NOT_NONE BUILD_TUPLE BUILD_LIST BUILD_MAP BUILD_SET BUILD_CONST_KEY_MAP BUILD_STRING FORMAT_VALUE
MAKE_FUNCTION MAKE_CELL LOAD_CLOSURE COPY_FREE_VARS PUSH_EXC_INFO POP_EXCEPT RERAISE RETURN_CONST RETURN_VALUE UNPACK_SEQUENCE
LIST_APPEND LIST_EXTEND SET_ADD MAP_ADD DICT_MERGE DICT_UPDATE IS_OP COMPARE_OP BINARY_OP UNARY_NOT UNARY_NEGATIVE RAISE_VARARGS
END_FOR CALL_INTRINSIC_1 RETURN_GENERATOR""".split())
_OPMAP = {}


def pending_op(code, lasti):
    m = _OPMAP.get(code)
    if m is None:
        import dis
        m = {i.offset: i.opname for i in dis.get_instructions(code)}
        _OPMAP[code] = m
    return m.get(lasti, '?')


RENDER_RELEVANT = {'exposition.py'}        # for programs with `colr`: every function of the text exposition
DEEP_RELEVANT = {'mmap_dict.py': {'__init__', '_init_value', 'read_value', 'write_value', '_read_all_values', 'close'}}


def relevant_point_deep(where):
    """as relevant_point, plus the bytecodes of MmapedDict's constructor / slot allocation / read / write"""
    if relevant_point(where):
        return True
    if where is None or isinstance(where, str):
        return False
    code, lasti = where
    base = os.path.basename(code.co_filename)
    return code.co_name in DEEP_RELEVANT.get(base, ()) and pending_op(code, lasti) not in LOCAL_OPS


# programs that construct a metric inside a thread: the bytecodes of the constructors count as well
CTOR_RELEVANT = {'metrics.py': {'__init__', '_metric_init', '_prepare_buckets', 'describe', '_get_metric', '_is_observable',
                                '_is_parent'}}
CTOR_OPS = ('mk', 'mkl')


def constructs(program):
    return any(op.split(':')[0] in CTOR_OPS for t in program.split('|') for op in t.split(','))


def relevant_point_ctor(where):
    """as relevant_point_deep, plus the non-local bytecodes of the metric constructors (MetricWrapperBase.__init__, the
    subclasses' __init__ and _metric_init, describe): a collect may land anywhere inside a constructor"""
    if relevant_point_deep(where):
        return True
    if where is None or isinstance(where, str):
        return False
    code, lasti = where
    base = os.path.basename(code.co_filename)
    return code.co_name in CTOR_RELEVANT.get(base, ()) and pending_op(code, lasti) not in LOCAL_OPS


def relevant_point_ctor_quick(where):
    """quick tier: lock operations, the non-local bytecodes of the metric constructors and of the value constructors.  The body
    of register() / _get_names() runs under the registry lock (a collect switched to from there parks at once and runs after the
    constructor has finished), the file-backed store's slot allocation under the store lock: the lock operations around them and
    the first constructor bytecode after them stand for those points; the thorough tier takes every point"""
    if where is None:
        return False
    if isinstance(where, str):
        return True
    code, lasti = where
    base = os.path.basename(code.co_filename)
    if not (code.co_name in CTOR_RELEVANT.get(base, ()) or (base == 'values.py' and code.co_name == '__init__')):
        return False
    return pending_op(code, lasti) not in LOCAL_OPS


def relevant_point_render(where):
    """as relevant_point, plus the non-local bytecodes of the text exposition (a scraper rendering what it collected)"""
    if relevant_point(where):
        return True
    if where is None or isinstance(where, str):
        return False
    code, lasti = where
    return os.path.basename(code.co_filename) in RENDER_RELEVANT and pending_op(code, lasti) not in LOCAL_OPS


def relevant_point(where):
    """a pre-emption point worth branching on: a lock operation, or a non-local bytecode of a method that touches shared state"""
    if where is None:
        return False
    if isinstance(where, str):
        return True                      # 'lock' / 'explicit'
    code, lasti = where
    base = os.path.basename(code.co_filename)
    if base != 'values.py' and code.co_name not in RELEVANT.get(base, ()):
        return False
    return pending_op(code, lasti) not in LOCAL_OPS


# ------------------------------------------------------------------------------------------------ the world
class XCollector:
    """custom collector number i: describes and collects one gauge family `x<i>`"""

    def __init__(self, i):
        self.i = i

    def _fam(self):
        from prometheus_client.metrics_core import GaugeMetricFamily
        return GaugeMetricFamily('x%d' % self.i, 'h', value=1)

    def describe(self):
        return [self._fam()]

    def collect(self):
        return [self._fam()]


class ReentrantCollector:
    """a collector that registers, unregisters and looks up collectors on the registry that is collecting it"""

    def __init__(self, world):
        self.world = world

    def describe(self):
        from prometheus_client.metrics_core import GaugeMetricFamily
        return [GaugeMetricFamily('e', 'h')]          # claims the name `e`, so restricted_registry(['e']) selects it

    def collect(self):
        c = getattr(self.world.tls, 're', None)
        if c is None:
            return []
        w = self.world
        w.R.register(w.X[c])
        w.R.unregister(w.X[c])
        list(w.R.restricted_registry(['x%d' % c]).collect())
        w.R.get_target_info()
        return []


class World:
    def __init__(self, backend, flags):
        import prometheus_client
        from prometheus_client import values, CollectorRegistry, Counter, Gauge, Summary, Histogram, Info, Enum
        self.backend = backend
        self.flags = flags
        self.tmp = None
        self.saved_vc = values.ValueClass
        self.saved_env = os.environ.get('PROMETHEUS_MULTIPROC_DIR')
        if backend == 'mmap':
            self.tmp = tempfile.mkdtemp(prefix='pv-c02-')
            os.environ['PROMETHEUS_MULTIPROC_DIR'] = self.tmp
            values.ValueClass = values.MultiProcessValue()
        else:
            values.ValueClass = values.MutexValue
        self.values_mod = values
        self.tls = threading.local()
        self.R = CollectorRegistry(target_info={'k': 't0'}) if 'g' in flags else CollectorRegistry()
        self.c = Counter('c', 'h', registry=self.R) if 'c' in flags else None
        self.g = Gauge('g', 'h', registry=self.R) if 'G' in flags else None
        if 'v' in flags:                 # set-up phase: the values hold 5 before the threads start
            if self.c is not None:
                self.c.inc(5)
            if self.g is not None:
                self.g.set(5)
        self.p = Counter('p', 'h', ['l'], registry=self.R) if ('p' in flags or 'q' in flags) else None
        self.p2 = Counter('p2', 'h', ['l'], registry=self.R) if '2' in flags else None
        self.s = Summary('s', 'h', registry=self.R) if 's' in flags else None
        self.h = Histogram('hh', 'h', buckets=(1.0, 2.0), registry=self.R) if 'h' in flags else None
        self.I = Info('inf', 'h', registry=self.R) if ('i' in flags or 'I' in flags) else None
        self.two_labels = 'I' in flags
        if 'I' in flags:                 # set-up phase: the Info holds {v: 0, w: 0} before the threads start
            self.I.info({'v': '0', 'w': '0'})
        self.N = Enum('en', 'h', states=['a', 'b', 'c'], registry=self.R) if 'n' in flags else None
        self.X = {i: XCollector(i) for i in range(1, 5)}
        self.Y = {i: XCollector(9) for i in range(1, 3)}      # two DIFFERENT collectors claiming the same name x9
        if 'x' in flags:                 # set-up phase: the named collectors are registered before the threads start
            self.R.register(self.X[1])
            self.R.register(self.X[2])
        if 'y' in flags:                 # set-up phase: y1 (claiming x9) is registered before the threads start
            self.R.register(self.Y[1])
        self.E = None
        if 'e' in flags:
            self.E = ReentrantCollector(self)
            self.R.register(self.E)
        self.children = []               # keeps every child returned alive so id() stays unique
        if 'q' in flags:                 # set-up phase: the children exist before the threads start
            self.children += [self.p.labels('0'), self.p.labels('1')]
        self.classes = {'c': Counter, 'g': Gauge, 's': Summary, 'h': Histogram, 'i': Info, 'e': Enum}
        self.made = {}                   # name -> metric CONSTRUCTED by a thread of the program (ops mk / mkl)
        self.held = {}                   # series -> sequence of raw values it held (sampled at every scheduling step)
        self.step = 0                    # scheduling steps so far (op start / end stamps)

    def raw_series(self):
        """the raw value attributes behind every series, read WITHOUT the library's locks (the world is paused)"""
        out = {}
        if self.c is not None:
            out[('c_total', ())] = self.c._value._value
        if self.p is not None:
            for k, ch in list(self.p._metrics.items()):
                out[('p_total', (('l', k[0]),))] = ch._value._value
        if self.p2 is not None:
            for k, ch in list(self.p2._metrics.items()):
                out[('p2_total', (('l', k[0]),))] = ch._value._value
        if self.s is not None:
            out[('s_count', ())] = self.s._count._value
            out[('s_sum', ())] = self.s._sum._value
        if self.h is not None:
            out[('hh_sum', ())] = self.h._sum._value
            for b, v in zip(('1.0', '2.0', '+Inf'), self.h._buckets):
                out[('hh_bucket_raw', (('le', b),))] = v._value
        return out

    def sample(self):
        self.step += 1
        try:
            cur = self.raw_series()
        except Exception:
            return
        for k, v in cur.items():
            h = self.held.setdefault(k, [])
            if not h or h[-1] != v:
                h.append(v)

    def close(self):
        values = self.values_mod
        try:
            if self.backend == 'mmap':
                vc = values.ValueClass
                for cell in (getattr(vc.__init__, '__closure__', None) or ()):
                    try:
                        d = cell.cell_contents
                    except ValueError:
                        continue
                    if isinstance(d, dict) and d and all(hasattr(f, 'close') and hasattr(f, 'read_value') for f in d.values()):
                        for f in d.values():
                            try:
                                f.close()
                            except Exception:
                                pass
        finally:
            values.ValueClass = self.saved_vc
            if self.saved_env is None:
                os.environ.pop('PROMETHEUS_MULTIPROC_DIR', None)
            else:
                os.environ['PROMETHEUS_MULTIPROC_DIR'] = self.saved_env
            if self.tmp:
                shutil.rmtree(self.tmp, ignore_errors=True)


def collect_obs(w, fams):
    """the part of a collect() result the model speaks about"""
    toks = []
    xs = sorted(int(f.name[1:]) for f in fams if f.name.startswith('x') and f.name[1:].isdigit())
    toks.append('R=' + ('.'.join(map(str, xs)) if xs else '_'))
    vals = {}
    for f in fams:
        for s in f.samples:
            vals[(s.name, tuple(sorted(s.labels.items())))] = s.value
    if w.c is not None:
        toks.append('C=%s' % num(vals.get(('c_total', ()))))
    if w.p is not None:
        for k in (0, 1):
            v = vals.get(('p_total', (('l', str(k)),)))
            toks.append('P%d=%s' % (k, '-' if v is None else num(v)))
    return toks, vals


def num(v):
    if v is None:
        return '?'
    return str(int(v)) if float(v) == int(v) else repr(v)


class FixedRegistry:
    """hands generate_latest the families a collect() already returned"""

    def __init__(self, fams):
        self.fams = fams

    def collect(self):
        return self.fams


def label_view(fams):
    return [(f.name, [(s.name, dict(s.labels), s.value) for s in f.samples]) for f in fams]


def collect_and_render(w):
    """what a scraper does: collect, then — outside any lock — read what was handed out.  Returns the collect-time deep copy, the
    label sets seen while rendering (library code: stepped one bytecode at a time), and keeps the family objects so that they
    can be compared with the deep copy once every thread has finished"""
    from prometheus_client.exposition import generate_latest
    fams = list(w.R.collect())
    snap = label_view(fams)                      # harness code: atomic
    text = generate_latest(FixedRegistry(fams)).decode('utf-8')
    seen = []
    for line in text.split('\n'):
        if line.startswith('inf_info'):
            inside = line[line.index('{') + 1:line.rindex('}')] if '{' in line else ''
            seen.append(dict(kv.split('=', 1) for kv in inside.split(',') if kv))
    return {'snap': snap, 'rendered': seen, 'kept': fams, 'after': label_view(fams)}


def fam_view(fams):
    """a collect() result family by family (a family without samples is kept)"""
    return [(f.name, f.type, [(s.name, tuple(sorted(s.labels.items())), s.value) for s in f.samples]) for f in fams]


def text_view(text):
    """the families of a text exposition, read back with the library's parser (called on the main thread only)"""
    from prometheus_client.parser import text_string_to_metric_families
    return fam_view(list(text_string_to_metric_families(text)))


ENUM_STATES = ['a', 'b', 'c']
SERIES_SUFFIXES = ('', '_total', '_created', '_count', '_sum', '_bucket', '_info')


def construct_metric(w, t, labelled):
    """what an application thread does: build a metric of a built-in type on the shared registry (library code: stepped)"""
    name = ('l' if labelled else 'n') + t
    kw = {'registry': w.R}
    if labelled:
        kw['labelnames'] = ['l']
    if t == 'h':
        kw['buckets'] = (1.0, 2.0)
    if t == 'e':
        kw['states'] = list(ENUM_STATES)
    m = w.classes[t](name, 'h', **kw)
    w.made[name] = m
    return m


def update_metric(m, t, a):
    if t in 'cg':
        m.inc(a)
    elif t in 'sh':
        m.observe(a)
    elif t == 'i':
        m.info({'v': str(a)})
    else:
        m.state(ENUM_STATES[a % 3])


def make_thunk(w, tid, ops, log):
    """log: list receiving (tid, op index, op, tokens, extra)"""
    def run_op(idx, op):
        f = op.split(':')
        k = f[0]
        if k == 'inc':
            (w.c if f[1] == '0' else w.g).inc(int(f[2]))
            return [], None
        if k == 'set':
            if f[1] == '0':
                assert f[2] == '0'
                w.c.reset()                  # Counter.reset() = value.set(0)
            else:
                w.g.set(int(f[2]))
            return [], None
        if k == 'get':
            return ['G%s=%s' % (f[1], num(w.c._value.get()))], None
        if k == 'lab':
            ch = w.p.labels(f[1])
            w.children.append(ch)
            return ['L%s=%d' % (f[1], id(ch))], None
        if k == 'linc':
            ch = w.p.labels(f[1])
            w.children.append(ch)
            ch.inc(int(f[2]))
            return ['L%s=%d' % (f[1], id(ch))], None
        if k == 'linc2':
            ch = w.p2.labels(f[1])
            w.children.append(ch)
            ch.inc(int(f[2]))
            return [], None
        if k == 'regy':
            try:
                w.R.register(w.Y[int(f[1])])
            except ValueError:
                return [], {'regy': 'duplicate'}
            return [], {'regy': 'ok'}
        if k == 'unregy':
            w.R.unregister(w.Y[int(f[1])])
            return [], None
        if k == 'rem':
            w.p.remove(f[1])
            return [], None
        if k == 'clr':
            w.p.clear()
            return [], None
        if k == 'reg':
            w.R.register(w.X[int(f[1])])
            return [], None
        if k == 'unreg':
            w.R.unregister(w.X[int(f[1])])
            return [], None
        if k == 'col':
            fams = list(w.R.collect())
            toks, vals = collect_obs(w, fams)
            return toks, vals
        if k == 'rcol':
            w.tls.re = int(f[1])
            try:
                fams = list(w.R.collect())
            finally:
                w.tls.re = None
            toks, vals = collect_obs(w, fams)
            return toks[:1], vals
        if k == 'rrcol':
            w.tls.re = int(f[1])
            try:
                list(w.R.restricted_registry(['e']).collect())
            finally:
                w.tls.re = None
            return [], None
        if k == 'obs':
            (w.s if f[1] == 's' else w.h).observe(float(f[2]))
            return [], None
        if k == 'info':
            w.I.info({'v': f[1], 'w': f[1]} if w.two_labels else {'v': f[1]})
            return [], None
        if k == 'colr':
            return [], {'render': collect_and_render(w)}
        if k == 'state':
            w.N.state(['a', 'b', 'c'][int(f[1])])
            return [], None
        if k == 'sti':
            w.R.set_target_info({'k': f[1]})
            return [], None
        if k == 'rcx':           # restricted collect by name of the custom collector x<c>
            fams = list(w.R.restricted_registry(['x' + f[1]]).collect())
            bad = [fm.name for fm in fams if fm.name != 'x' + f[1]]
            return [], {'restricted': ('x' + f[1], [fm.name for fm in fams], bad)}
        if k == 'rct':           # restricted collect of the target info
            fams = list(w.R.restricted_registry(['target_info']).collect())
            return [], {'restricted': ('target', [fm.name for fm in fams], [fm.name for fm in fams if fm.name != 'target']),
                        'fams': fam_view(fams), 'kind': 'restricted collect of target_info'}
        if k == 'stn':
            w.R.set_target_info(None)
            return [], None
        if k == 'ste':
            w.R.set_target_info({})
            return [], None
        if k in ('mk', 'mkl'):   # construct a metric on the shared registry, then use it
            m = construct_metric(w, f[1], k == 'mkl')
            update_metric(m.labels('0') if k == 'mkl' else m, f[1], int(f[2]))
            return [], None
        if k == 'colf':          # full collect, kept family by family
            return [], {'fams': fam_view(list(w.R.collect())), 'kind': 'collect()'}
        if k == 'rcn':           # restricted collect of every series name of one metric
            names = [f[1] + suf for suf in SERIES_SUFFIXES]
            return [], {'fams': fam_view(list(w.R.restricted_registry(names).collect())), 'kind': 'restricted collect of ' + f[1],
                        'only': f[1]}
        if k == 'gen':           # the text exposition of the registry (parsed back by the oracle, on the main thread)
            from prometheus_client.exposition import generate_latest
            return [], {'text': generate_latest(w.R).decode('utf-8')}
        if k == 'gti':
            return [], {'gti': w.R.get_target_info()}
        raise ValueError('unknown op ' + op)

    def thunk():
        for idx, op in enumerate(ops):
            t0 = w.step
            toks, extra = run_op(idx, op)
            log.append((tid, idx, op, toks, extra, t0, w.step))
    return thunk


class SamplingPolicy:
    """wraps a policy: samples the raw counter attribute at every scheduling step (the sequence of held values)"""

    def __init__(self, inner, world):
        self.inner, self.world = inner, world

    def choose(self, step, current, runnable):
        self.world.sample()
        return self.inner.choose(step, current, runnable)


ENGINE = sched.Engine(max_steps=60000, run_timeout=30.0)


def run_once(backend, flags, program, policy):
    """build a fresh world, run the program under the policy -> (RunResult, observation dict)"""
    threads = [t.split(',') for t in program.split('|')]
    with sched.patched_locks():
        w = World(backend, flags)
        try:
            log = []
            thunks = [make_thunk(w, tid, ops, log) for tid, ops in enumerate(threads)]
            res = ENGINE.run(thunks, SamplingPolicy(policy, w))
            w.sample()
            changes = []
            for e in log:
                if e[4] is not None and 'render' in e[4]:
                    r = e[4]['render']
                    now = label_view(r.pop('kept'))
                    if now != r['snap']:
                        changes.append((e[0], e[1], [x for x in r['snap'] if x not in now][:2], [x for x in now if x not in r['snap']][:2]))
            obs_changes = changes
            obs = {'log': log, 'held': {k: list(v) for k, v in w.held.items()}, 'final': None, 'final_err': None, 'flags': flags, 'snapshot_changes': obs_changes}
            if res.ok or (all(res.done) and not res.deadlock and not res.stalled):
                try:
                    obs['final'] = final_state(w)
                except Exception as e:          # the world is broken (e.g. a lock left owned)
                    obs['final_err'] = '%s: %s' % (type(e).__name__, e)
            return res, obs
        finally:
            w.close()


def read_files(w):
    """the file-backed store as it is ON DISK: {(sample name, label items): value}, read with the library's own reader"""
    from prometheus_client.mmap_dict import MmapedDict
    out = {}
    for fn in sorted(os.listdir(w.tmp)):
        if not fn.endswith('.db'):
            continue
        for key, value, ts, _pos in MmapedDict.read_all_values_from_file(os.path.join(w.tmp, fn)):
            metric_name, name, labels, _help = json.loads(key)
            out[(name, tuple(sorted((str(a), str(b)) for a, b in labels.items())))] = value
    return out


def final_state(w):
    fams = list(w.R.collect())
    vals = {}
    for f in fams:
        for s in f.samples:
            vals[(s.name, tuple(sorted(s.labels.items())))] = s.value
    st = {'vals': vals, 'fams': fam_view(fams)}
    if w.made:
        from prometheus_client.exposition import generate_latest
        st['text'] = generate_latest(w.R).decode('utf-8')
    names = [f.name for f in fams]
    st['dup_families'] = sorted({n for n in names if names.count(n) > 1})
    c2n, n2c = w.R._collector_to_names, w.R._names_to_collectors
    bad = []
    for col, ns in c2n.items():
        for n in ns:
            if n2c.get(n) is not col:
                bad.append('name %r of a registered collector maps to %s' % (n, 'nothing' if n not in n2c else 'another collector'))
    for n, col in n2c.items():
        if n != 'target_info' and col not in c2n:
            bad.append('name %r maps to a collector that is not registered' % n)
    st['maps_bad'] = bad
    # the quiescent collect must expose exactly the children the tables hold
    mism = []
    for parent, fam in ((w.p, 'p_total'), (getattr(w, 'p2', None), 'p2_total')):
        if parent is None:
            continue
        table = sorted(k[0] for k in parent._metrics)
        exposed = sorted(dict(lab)['l'] for (name, lab) in vals if name == fam)
        if table != exposed:
            mism.append('%s: the child table holds %r, the final collect exposes %r' % (fam[:-6], table, exposed))
    st['children_mismatch'] = mism
    # a registered collector is collected exactly once and can be unregistered without error (done last: it changes the world)
    regd = []
    for i, y in sorted(w.Y.items()):
        if y in c2n:
            n_exposed = names.count('x9')
            try:
                w.R.unregister(y)
                err = None
            except Exception as e:
                err = type(e).__name__
            regd.append((i, n_exposed, err))
    st['registered_y'] = regd
    st['files'] = read_files(w) if w.backend == 'mmap' else None
    st['keys'] = {k[0]: id(ch) for k, ch in (w.p._metrics.items() if w.p is not None else [])}
    st['regs'] = sorted(x.i for x in w.R._collector_to_names if isinstance(x, XCollector))
    return st


# ------------------------------------------------------------------------------------------------ canonical outcome
def rename_children(per_thread, final_tokens):
    """rename child ids by first occurrence over the L tokens in thread-major order (both sides use this)"""
    names = {}

    def nm(i):
        if i == '-' or i == '?':
            return i
        if i not in names:
            names[i] = 'c%d' % len(names)
        return names[i]
    out = []
    for toks in per_thread:
        r = []
        for t in toks:
            if t.startswith('L'):
                a, b = t.split('=')
                r.append('%s=%s' % (a, nm(b)))
            else:
                r.append(t)
        out.append(r)
    fin = []
    for t in final_tokens:
        if t.startswith('K'):
            a, b = t.split('=')
            fin.append('%s=%s' % (a, names.get(b, 'other')))
        else:
            fin.append(t)
    return out, fin


def canon_outcome(per_thread, final_tokens):
    pt, fin = rename_children(per_thread, final_tokens)
    return '/'.join([(','.join(t) if t else '.') for t in pt] + ['F:' + ','.join(fin)])


def canon_model(outcome):
    if outcome in ('DEADLOCK', 'ITERERR'):
        return outcome
    parts = outcome.split('/')
    per = [([] if p == '.' else p.split(',')) for p in parts[:-1]]
    fin = parts[-1][2:].split(',') if parts[-1].startswith('F:') else []
    return canon_outcome(per, [t for t in fin if t])


def stored_objects(program):
    """value objects the program increments (the model lists exactly these in its final)"""
    objs = set()
    for t in program.split('|'):
        for op in t.split(','):
            f = op.split(':')
            if f[0] in ('inc', 'set'):
                objs.add(int(f[1]))
            elif f[0] == 'linc':
                objs.add(10 + int(f[1]))
    return sorted(objs)


def real_outcome(program, res, obs):
    if res.deadlock:
        return 'DEADLOCK'
    if any(e is not None for e in res.exc):
        return 'EXC:' + ','.join(type(e).__name__ for e in res.exc if e is not None)
    if res.stalled or obs['final'] is None:
        return 'STALLED'
    nthreads = len(program.split('|'))
    per = [[] for _ in range(nthreads)]
    for tid, idx, op, toks, extra, _a, _b in sorted(obs['log'], key=lambda e: (e[0], e[1])):
        per[tid] += toks
    fin = []
    vals = obs['final']['vals']
    for o in stored_objects(program):
        if o == 0:
            fin.append('v0=%s' % num(vals.get(('c_total', ()))))
        elif o == 1:
            fin.append('v1=%s' % num(vals.get(('g', ()))))
        else:
            fin.append('v%d=%s' % (o, num(vals.get(('p_total', (('l', str(o - 10)),)), 0))))
    for k in sorted(obs['final']['keys'], key=lambda s: int(s)):
        fin.append('K%s=%d' % (k, obs['final']['keys'][k]))
    regs = obs['final']['regs']
    fin.append('X=' + ('.'.join(map(str, regs)) if regs else '_'))
    return canon_outcome(per, fin)


# ------------------------------------------------------------------------------------------------ the property's oracle
def oracle(program, res, obs):
    """returns (signature, description) of the first failure, or None"""
    if res.stalled:
        return None                                      # infrastructure, reported separately
    if res.deadlock:
        return ('C02:deadlock', 'deadlock: every unfinished thread is parked on an owned lock (parked on lock ids %r)' % (res.parked,))
    ops = [op.split(':') for t in program.split('|') for op in t.split(',')]
    for tid, e in enumerate(res.exc):
        if e is not None:
            if (isinstance(e, AttributeError) and "'Enum' object has no attribute '_states'" in str(e)
                    and any(f[0] == 'mk' and f[1] == 'e' for f in ops)):
                # Enum.__init__ assigns self._states AFTER the base constructor has registered the metric
                return (ENUM_SIG, 'thread %d raised %s: %s (a collect landed between MetricWrapperBase.__init__ registering the '
                        'Enum and Enum.__init__ storing its states)' % (tid, type(e).__name__, e))
            return ('C02:exception', 'thread %d raised %s: %s' % (tid, type(e).__name__, e))
    if obs['final'] is None:
        return ('C02:final-collect', 'the final collect failed: %s' % obs['final_err'])
    r = ctor_oracle(ops, obs) or target_info_oracle(ops, obs['flags'], obs)
    if r:
        return r
    dyn = any(f[0] in ('rem', 'clr') for f in ops)
    r = sums_oracle(ops, dyn, obs['final']['vals'], 'C02:lost-update', '')
    if r:
        return r
    r = serial_oracle(program, obs['flags'], obs['final']['vals'], 'C02:not-linearizable', '')
    if r:
        return r
    if obs['final'].get('files') is not None:
        r = sums_oracle(ops, dyn, obs['final']['files'], 'C02:lost-update-in-file', 'in the store FILE: ')
        if r:
            return r
        r = serial_oracle(program, obs['flags'], obs['final']['files'], 'C02:not-linearizable-in-file', 'in the store FILE: ')
        if r:
            return r
    # the registry never holds two collectors claiming one name (C06's invariant, under concurrency)
    regy = [e[4]['regy'] for e in obs['log'] if e[4] is not None and 'regy' in e[4]]
    if len(regy) >= 2 and not any(f[0] in ('unreg', 'unregy') for f in ops) and regy.count('ok') != 1:
        return ('C02:two-collectors-one-name', '%d of %d register() calls of collectors claiming the same name succeeded' % (
            regy.count('ok'), len(regy)))
    if obs['final']['dup_families']:
        return ('C02:two-collectors-one-name', 'the final collect exposes families twice: %r' % (obs['final']['dup_families'],))
    # what collect() handed out is a VALUE: it does not change afterwards, and every label set a scraper reads from it is one
    # some info() call installed (or the one of the set-up phase) — never empty, never a mixture
    legal_info = [{'v': x, 'w': x} for x in ['0'] + [f[1] for f in ops if f[0] == 'info']]
    for e in obs['log']:
        if e[4] is not None and 'render' in e[4]:
            r = e[4]['render']
            for labels in r['rendered'] + [lab for (fn, ss) in r['after'] if fn == 'inf' for (_n, lab, _v) in ss]:
                clean = {k: v.strip('"') for k, v in labels.items()}
                if clean not in legal_info:
                    return ('C02:phantom-value', 'a scraper reading the collected Info family saw the label set %r, which no info() '
                            'call installed' % (clean,))
            if r['after'] != r['snap']:
                return ('C02:snapshot-changed', 'what collect() returned changed while the scraper was rendering it: %r -> %r' % (
                    [x for x in r['snap'] if x not in r['after']][:1], [x for x in r['after'] if x not in r['snap']][:1]))
    if obs.get('snapshot_changes'):
        t, i, was, now = obs['snapshot_changes'][0]
        return ('C02:snapshot-changed', 'the families thread %d collected (call %d) changed after collect() had returned: %r -> %r' % (
            t, i, was, now))
    if obs['final']['children_mismatch']:
        return ('C02:stale-collect', 'after the threads joined: ' + '; '.join(obs['final']['children_mismatch']))
    for i, n_exposed, err in obs['final']['registered_y']:
        if n_exposed != 1 or err is not None:
            return ('C02:registry-maps-inconsistent', 'collector y%d is registered after the join, its family is exposed %d time(s), '
                    'unregister() -> %s' % (i, n_exposed, err or 'ok'))
    # a collect that no longer shows the only holder of a name, followed in the same thread by a register() of another
    # collector claiming that name, must succeed: the unregister that removed the holder had released the name
    if sum(1 for f in ops if f[0] == 'regy') == 1 and not any(f[0] == 'reg' and f[1] == '9' for f in ops):
        for e in obs['log']:
            if e[4] is not None and e[4].get('regy') == 'duplicate':
                before = [c for c in obs['log'] if c[0] == e[0] and c[1] < e[1] and c[2] == 'col' and c[4] is not None]
                if before and not any(name == 'x9' for (name, lab) in before[-1][4]):
                    return ('C02:name-held-by-unregistered-collector',
                            'thread %d collected without the collector claiming x9 and then its register() of a collector '
                            'claiming x9 raised "Duplicated timeseries"' % e[0])
    if obs['final']['maps_bad']:
        return ('C02:registry-maps-inconsistent', 'after the threads joined: ' + '; '.join(obs['final']['maps_bad'][:3]))
    return identity_and_collect_oracle(ops, dyn, obs)


ENUM_SIG = 'C02:enum-published-before-states'


def metric_keys(view, name, t):
    """(is a family of metric `name` in the view?, its sorted sample keys, its samples); the value labels of an Info are not part
    of the key (info() changes them)"""
    fams = [f for f in view if f[0] == name or f[0].startswith(name + '_')]
    samples = [(sn, lab, v) for f in fams for (sn, lab, v) in f[2]]
    keys = sorted((sn, tuple(kv for kv in lab if t != 'i' or kv[0] == 'l')) for (sn, lab, v) in samples)
    return bool(fams), keys, samples


def views_of(obs):
    """every collect / restricted collect / exposition of the run as (thread, op, kind, family view | None, parse error)"""
    out = []
    for tid, idx, op, toks, extra, t0, t1 in obs['log']:
        if extra is None:
            continue
        if 'text' in extra:
            try:
                out.append((tid, op, 'text', 'generate_latest()', text_view(extra['text']), None, None))
            except Exception as e:
                out.append((tid, op, 'text', 'generate_latest()', None, '%s: %s' % (type(e).__name__, e), None))
        elif 'fams' in extra:
            out.append((tid, op, 'fams', extra['kind'], extra['fams'], None, extra.get('only')))
    return out


def ctor_oracle(ops, obs):
    """a metric CONSTRUCTED while other threads collect: whatever a concurrent collect / restricted collect / exposition shows of
    it is either nothing or the complete family (the sample keys the quiescent final collect shows; a labelled parent may still be
    without children); its values are ones it held; the final collect (and the store files) show the metric with its update"""
    made = [(('l' if f[0] == 'mkl' else 'n') + f[1], f[1], f[0] == 'mkl', int(f[2])) for f in ops if f[0] in CTOR_OPS]
    if not made:
        return None
    final = obs['final']
    ref = {'fams': final['fams']}
    try:
        ref['text'] = text_view(final['text'])
    except Exception as e:
        return ('C02:half-built-collector', 'the final exposition does not parse back: %s: %s' % (type(e).__name__, e))
    for tid, op, form, kind, view, err, only in views_of(obs):
        if view is None:
            return ('C02:half-built-collector', 'thread %d: the exposition rendered while a metric was being constructed does not '
                    'parse back: %s' % (tid, err))
        for name, t, labelled, a in made:
            present, keys, samples = metric_keys(view, name, t)
            _p, want, _s = metric_keys(ref[form], name, t)
            if not present and not keys:
                continue
            if keys != want and not (labelled and not keys):
                return ('C02:half-built-collector', 'thread %d: %s concurrent with the constructor of %s %s%r showed the family with '
                        'the samples %r; complete (quiescent collect) is %r' % (
                            tid, kind, 'labelled' if labelled else 'unlabelled', type_name(t), name, keys, want))
            for sn, lab, v in samples:
                legal = None
                if sn in (name + '_total', name + '_sum') or (t == 'g' and sn == name):
                    legal = (0, a)
                elif sn == name + '_count':
                    legal = (0, 1)
                if legal is not None and v not in legal:
                    return ('C02:phantom-value', 'thread %d: %s reported %s%r = %r, the series held only %r' % (
                        tid, kind, sn, dict(lab), v, legal))
            if t == 'e':
                ens = sorted(v for (sn, lab, v) in samples if sn == name)
                if ens and ens != [0, 0, 1]:
                    return ('C02:phantom-value', 'thread %d: %s reported enum state samples %r (exactly one state must be set)' % (
                        tid, kind, ens))
    # after the join: the metric is there, with its update, in the collect and in the store files
    for name, t, labelled, a in made:
        lab = (('l', '0'),) if labelled else ()
        if t == 'c':
            want = {(name + '_total', lab): a}
        elif t == 'g':
            want = {(name, lab): a}
        elif t in 'sh':
            want = {(name + '_sum', lab): a, (name + '_count', lab): 1}
        elif t == 'i':
            want = {(name + '_info', tuple(sorted(lab + (('v', str(a)),)))): 1}
        else:
            want = {(name, tuple(sorted(lab + ((name, ENUM_STATES[a % 3]),)))): 1}
        for key, v in want.items():
            if final['vals'].get(key) != v:
                return ('C02:constructed-metric-missing', 'after the threads joined the final collect reports %s%r = %r, expected %r '
                        '(%s %r was constructed with registry=R and updated once)' % (
                            key[0], dict(key[1]), final['vals'].get(key), v, type_name(t), name))
            if final.get('files') is not None and t in 'cgsh' and not (t == 'h' and key[0].endswith('_count')):
                if final['files'].get(key) != v:
                    return ('C02:lost-update-in-file', 'in the store FILE: %s%r = %r, expected %r' % (
                        key[0], dict(key[1]), final['files'].get(key), v))
    return None


def type_name(t):
    return {'c': 'Counter', 'g': 'Gauge', 's': 'Summary', 'h': 'Histogram', 'i': 'Info', 'e': 'Enum'}[t]


def target_info_oracle(ops, flags, obs):
    """the target_info a collect / restricted collect of target_info / exposition yields is one the registry actually held at
    some point: the labels configured in the set-up phase or by a set_target_info of the program; NO target_info only if the
    registry was without one at some point (never configured, or set_target_info(None) / ({}) in the program)"""
    ti_ops = [f for f in ops if f[0] in ('sti', 'stn', 'ste')]
    if 'g' not in flags and not ti_ops:
        return None
    legal = [{'k': x} for x in (['t0'] if 'g' in flags else []) + [f[1] for f in ops if f[0] == 'sti']]
    none_ok = 'g' not in flags or any(f[0] in ('stn', 'ste') for f in ops)
    seen = []
    for tid, op, form, kind, view, err, only in views_of(obs):
        if view is None or only is not None:
            continue
        seen.append((tid, kind, [dict(lab) for fam in view for (sn, lab, v) in fam[2] if sn == 'target_info']))
    for tid, idx, op, toks, extra, t0, t1 in obs['log']:
        if extra is not None and (op == 'col' or op.startswith('rcol')):
            seen.append((tid, 'collect()', [dict(lab) for (sn, lab) in extra if sn == 'target_info']))
    for tid, kind, tis in seen:
        if len(tis) > 1:
            return ('C02:phantom-value', 'thread %d: %s reported %d target_info samples: %r' % (tid, kind, len(tis), tis))
        if not tis and not none_ok:
            return ('C02:phantom-value', 'thread %d: %s reported no target_info although the registry held one all the time (%r)' % (
                tid, kind, legal))
        for labels in tis:
            if labels not in legal:
                return ('C02:phantom-value', 'thread %d: %s reported target_info %r; the registry only ever held %r%s' % (
                    tid, kind, labels, legal, ' or none' if none_ok else ''))
    return None


def serial_finals(threads, obj, init):
    """final values of value object `obj` over ALL serial orders of the threads' inc / set calls on it (program order kept)"""
    seqs = [[(f[0], int(f[2])) for f in (op.split(':') for op in t) if f[0] in ('inc', 'set') and f[1] == obj] for t in threads]
    outs = set()

    def go(pos, v):
        done = True
        for i, sq in enumerate(seqs):
            if pos[i] < len(sq):
                done = False
                kind, a = sq[pos[i]]
                go(pos[:i] + (pos[i] + 1,) + pos[i + 1:], v + a if kind == 'inc' else a)
        if done:
            outs.add(v)
    go(tuple(0 for _ in seqs), init)
    return outs


def serial_oracle(program, flags, vals, sig, where):
    """an increment racing a set / reset: the final value is the one some serial order of the calls gives (linearizability)"""
    threads = [t.split(',') for t in program.split('|')]
    for obj, series in (('0', ('c_total', ())), ('1', ('g', ()))):
        if not any(op.split(':')[0] == 'set' and op.split(':')[1] == obj for t in threads for op in t):
            continue
        legal = serial_finals(threads, obj, 5 if 'v' in flags else 0)
        got = vals.get(series)
        if got not in legal:
            return (sig, where + 'series %s: final value %r, the serial orders of the calls give only %r' % (
                series[0], got, sorted(legal)))
    return None


def sums_oracle(ops, dyn, vals, sig, where):
    """final value of every series = sum of the increments issued (vals: the collected view, or the files read back)"""
    want_c = sum(int(f[2]) for f in ops if f[0] == 'inc' and f[1] == '0')
    if any(f[0] == 'inc' and f[1] == '0' for f in ops) and not any(f[0] == 'set' and f[1] == '0' for f in ops):
        got = vals.get(('c_total', ()))
        if got != want_c:
            return (sig, where + 'counter c: final value %r, sum of the increments issued %r' % (got, want_c))
    if not dyn:
        for k in sorted({f[1] for f in ops if f[0] == 'linc'}):
            want = sum(int(f[2]) for f in ops if f[0] == 'linc' and f[1] == k)
            got = vals.get(('p_total', (('l', k),)))
            if got != want:
                return (sig, where + 'child p{l=%s}: final value %r, sum of the increments issued %r' % (k, got, want))
    for k in sorted({f[1] for f in ops if f[0] == 'linc2'}):
        want = sum(int(f[2]) for f in ops if f[0] == 'linc2' and f[1] == k)
        got = vals.get(('p2_total', (('l', k),)))
        if got != want:
            return (sig, where + 'child p2{l=%s}: final value %r, sum of the increments issued %r' % (k, got, want))
    sobs = [float(f[2]) for f in ops if f[0] == 'obs' and f[1] == 's']
    if sobs:
        if vals.get(('s_count', ())) != len(sobs) or vals.get(('s_sum', ())) != sum(sobs):
            return (sig, where + 'summary: count/sum %r/%r, expected %r/%r' % (
                vals.get(('s_count', ())), vals.get(('s_sum', ())), len(sobs), sum(sobs)))
    hobs = [float(f[2]) for f in ops if f[0] == 'obs' and f[1] == 'h']
    if hobs:
        in_file = bool(where)
        if in_file:          # the file holds each bucket's own count; _count is derived at collection time
            exp = {'1.0': sum(1 for x in hobs if x <= 1), '2.0': sum(1 for x in hobs if 1 < x <= 2),
                   '+Inf': sum(1 for x in hobs if x > 2)}
        else:
            exp = {'1.0': sum(1 for x in hobs if x <= 1), '2.0': sum(1 for x in hobs if x <= 2), '+Inf': len(hobs)}
        for le, n in exp.items():
            if vals.get(('hh_bucket', (('le', le),))) != n:
                return (sig, where + 'histogram bucket le=%s: %r, expected %r' % (le, vals.get(('hh_bucket', (('le', le),))), n))
        if vals.get(('hh_sum', ())) != sum(hobs) or (not in_file and vals.get(('hh_count', ())) != len(hobs)):
            return (sig, where + 'histogram sum/count %r/%r, expected %r/%r' % (
                vals.get(('hh_sum', ())), vals.get(('hh_count', ())), sum(hobs), len(hobs)))
    return None


def identity_and_collect_oracle(ops, dyn, obs):
    # one shared child
    if not dyn:
        seen = {}
        for e in obs['log']:
            for t in e[3]:
                if t.startswith('L'):
                    k, i = t[1:].split('=')
                    if k in seen and seen[k] != i:
                        return ('C02:two-children', 'concurrent labels(%s) calls returned two different children' % k)
                    seen[k] = i
        for k, i in obs['final']['keys'].items():
            if k in seen and str(i) != seen[k]:
                return ('C02:two-children', 'labels(%s) returned a child that is not the one in the table' % k)
    # every value a collect reported is one the series held; a collect that STARTS after another one FINISHED never sees a
    # smaller value of a counter / summary / histogram series (increments are non-negative)
    held = {k: set(v) for k, v in obs['held'].items()}
    cols = []
    for tid, idx, op, toks, extra, t0, t1 in obs['log']:
        if extra is None or not (op == 'col' or op.startswith('rcol')):
            continue
        view = dict(extra)
        b1, b2, binf = (view.get(('hh_bucket', (('le', le),))) for le in ('1.0', '2.0', '+Inf'))
        if None not in (b1, b2, binf):          # collect accumulates the buckets; the series hold the per-bucket counts
            view[('hh_bucket_raw', (('le', '1.0'),))] = b1
            view[('hh_bucket_raw', (('le', '2.0'),))] = b2 - b1
            view[('hh_bucket_raw', (('le', '+Inf'),))] = binf - b2
        for series, v in view.items():
            if series in held and v not in held[series]:
                return ('C02:phantom-value', 'a collect reported %s%r = %r, the series held only %r' % (
                    series[0], dict(series[1]), v, sorted(held[series])))
        cols.append((t0, t1, tid, view))
    mono = [k for k in held if k[0] != 'hh_bucket_raw' and not (dyn and k[0] == 'p_total')]
    mono += [('hh_bucket', (('le', le),)) for le in ('1.0', '2.0', '+Inf')] + [('hh_count', ())]
    for a in cols:
        for b in cols:
            if a is not b and a[1] <= b[0] and a[0] < b[0]:      # b started after a had finished
                for series in mono:
                    va, vb = a[3].get(series), b[3].get(series)
                    if va is not None and vb is not None and vb < va:
                        return ('C02:decrease', 'successive collects saw %s%r go from %r down to %r' % (
                            series[0], dict(series[1]), va, vb))
    # Info / Enum / target info: what is read is something that was written (or the initial state); exactly one state is set
    infos = {f[1] for f in ops if f[0] == 'info'}
    tis = {f[1] for f in ops if f[0] == 'sti'} | {'t0'}
    for tid, idx, op, toks, extra, t0, t1 in obs['log']:
        if extra is None:
            continue
        if 'regy' in extra or 'render' in extra or 'text' in extra:
            continue
        if 'fams' in extra and 'restricted' not in extra:
            continue
        if 'restricted' in extra:
            want, got, bad = extra['restricted']
            if bad or len(got) > 1:
                return ('C02:phantom-value', 'restricted collect of %s returned families %r' % (want, got))
            continue
        if 'gti' in extra:
            g = extra['gti']
            if not (g in (None, {}) or (isinstance(g, dict) and set(g) == {'k'} and g['k'] in tis)):
                return ('C02:phantom-value', 'get_target_info() returned %r, never set' % (g,))
            continue
        for (name, labels), v in extra.items():
            if name == 'inf_info' and not (labels == () or (len(labels) == 1 and labels[0][0] == 'v' and labels[0][1] in infos)):
                return ('C02:phantom-value', 'collect reported info labels %r, never set' % (dict(labels),))
            if name == 'target_info' and not (len(labels) == 1 and labels[0][0] == 'k' and labels[0][1] in tis):
                return ('C02:phantom-value', 'collect reported target_info %r, never set' % (dict(labels),))
        ens = [v for (name, labels), v in extra.items() if name == 'en']
        if ens and sorted(ens) != [0, 0, 1]:
            return ('C02:phantom-value', 'collect reported enum state samples %r (exactly one state must be set)' % (ens,))
    return None


# ------------------------------------------------------------------------------------------------ driver side
class ModelSets:
    """outcome sets of the Lean model, fetched in one driver batch"""

    def __init__(self, ctx):
        self.ctx = ctx
        self.cache = {}

    @staticmethod
    def line(backend, flags, program):
        world = ''.join(ch for ch in flags if ch in 'cpqv') or '-'
        return 'c02 outcomes %s %s %s' % (backend, world, program)

    def prefetch(self, keys):
        keys = [k for k in keys if k not in self.cache]
        if not keys:
            return
        try:
            reps = self.ctx.driver.run([self.line(*k) for k in keys], timeout=600)
        except (OSError, lib.Infra) as e:       # the binary is being rebuilt by somebody else: no comparison this time
            self.ctx.notes.append('model outcome sets unavailable: %s' % e)
            reps = None
        for i, k in enumerate(keys):
            if reps is None:
                self.cache[k] = None
                continue
            r = reps[i]
            if r.startswith('ok '):
                parts = r.split(' ')
                outs = parts[2].split(';') if len(parts) > 2 and parts[2] else []
                self.cache[k] = (int(parts[1]), {canon_model(o) for o in outs}, outs)
            else:
                self.cache[k] = ('err', r)

    def get(self, backend, flags, program):
        key = (backend, flags, program)
        if key not in self.cache:
            self.prefetch([key])
        return self.cache[key]


def case_of(backend, flags, program, res):
    return {'backend': backend, 'world': flags, 'program': program,
            'schedule': [[t, n] for t, n in res.trace], 'steps': res.steps}


def judge(ctx, models, backend, flags, program, use_model, res, obs, stats):
    """oracle + correspondence for one executed schedule; returns True if the oracle failed"""
    case = None
    failed = False
    if res.stalled:
        stats['stalled'] = stats.get('stalled', 0) + 1
        return False
    why = oracle(program, res, obs)
    out = real_outcome(program, res, obs)
    # (the Enum failure class below was a finding of the unchanged tree — F38, repaired in /repo — and is an ordinary failure now)
    if why:
        case = case_of(backend, flags, program, res)
        case['observed'] = out
        ctx.fail(why[0] if why[0] == ENUM_SIG else why[0] + ':' + backend,
                 '%s [%s world=%s program=%s]' % (why[1], backend, flags, program), case)
        failed = True
    if use_model:
        m = models.get(backend, flags, program)
        if m is not None and m[0] != 'err':
            ctx.traces += 1
            if out not in m[1]:
                case = case or case_of(backend, flags, program, res)
                case['observed'] = out
                case['model_outcomes'] = sorted(m[1])[:20]
                ctx.diverge('outcome of the real run is outside the model\'s outcome set [%s world=%s program=%s]: %s'
                            % (backend, flags, program, out), case)
        elif m is not None:
            stats['model_skipped'] = stats.get('model_skipped', 0) + 1
    return failed


class ProgramSearch:
    """resumable search over the schedules of one (back-end, world, program): iterative context bounding, breadth first in the
    number of pre-emptions (so `completed_bound` grows 0, 1, 2, …), then seeded random schedules"""

    def __init__(self, ctx, models, backend, flags, program, bound, use_model, stats):
        self.ctx, self.models, self.stats = ctx, models, stats
        self.backend, self.flags, self.program, self.bound, self.use_model = backend, flags, program, bound, use_model
        self.last = {}
        self.fails = 0
        self.outs = set()
        self.nruns = 0
        self.wall = 0.0
        self.done = False
        self.ex = sched.explore(self._once, len(program.split('|')), bound,
                                point_filter=(relevant_point_deep if program in DEEP else
                                              (relevant_point_ctor_quick if ctx.tier == 'quick' else relevant_point_ctor)
                                              if constructs(program) else
                                              relevant_point_render if 'colr' in program else relevant_point))

    def _once(self, policy):
        res, obs = run_once(self.backend, self.flags, self.program, policy)
        self.last['obs'] = obs
        return res

    def _judge(self, res, obs, sample):
        out = real_outcome(self.program, res, obs)
        self.outs.add(out)
        self.nruns += 1
        self.ctx.case((self.backend, self.flags, self.program, tuple(res.trace)),
                      dict(sample, outcome=out) if sample is not None else None)
        if judge(self.ctx, self.models, self.backend, self.flags, self.program, self.use_model, res, obs, self.stats):
            self.fails += 1

    def advance(self, deadline, until_bound=None):
        """run bounded schedules until the deadline, the end of the search, 3 failures, or `completed_bound >= until_bound`"""
        t0 = time.time()
        while not self.done and self.fails < 3 and time.time() < deadline:
            if until_bound is not None and self.ex.completed_bound >= until_bound:
                break
            try:
                P, res = next(self.ex)
            except StopIteration:
                self.done = True
                break
            self.ctx.count('%s:%d-preemptions' % (self.backend, len(P)))
            self._judge(res, self.last['obs'],
                        {'backend': self.backend, 'world': self.flags, 'program': self.program, 'preemptions': P}
                        if len(P) == self.bound else None)
        self.wall += time.time() - t0

    def randoms(self, n, deadline):
        import random
        t0 = time.time()
        for _ in range(n):
            if self.fails >= 3 or time.time() > deadline:
                break
            pol = sched.RandomPolicy(random.Random(self.ctx.rng.getrandbits(32)),
                                     switch_prob=self.ctx.rng.choice((0.05, 0.15, 0.4)))
            res, obs = run_once(self.backend, self.flags, self.program, pol)
            self.ctx.count('%s:random' % self.backend)
            self._judge(res, obs, None)
        self.wall += time.time() - t0

    def report(self):
        ex = self.ex
        if ex.nondeterministic:
            self.stats['nondeterministic'] = self.stats.get('nondeterministic', 0) + len(ex.nondeterministic)
        m = self.models.get(self.backend, self.flags, self.program) if self.use_model else None
        info = {'backend': self.backend, 'world': self.flags, 'program': self.program, 'bound': self.bound,
                'runs': self.nruns, 'bounded_search_complete': bool(self.done and ex.complete),
                'completed_bound': ex.completed_bound, 'distinct_real_outcomes': len(self.outs), 'wall_s': round(self.wall, 2)}
        if m is not None and m[0] != 'err':
            info['model_states'] = m[0]
            info['model_outcomes'] = len(m[1])
            info['real_outcomes_covering_model'] = '%d/%d' % (len(self.outs & m[1]), len(m[1]))
        elif m is not None:
            info['model'] = m[1]
        return info


def reentrant_register_probe(ctx):
    """NOT part of the statement: register() calls describe()/collect() of the collector while holding the registry lock; a
    collector that touches the registry from there blocks for ever.  Run the real code under the scheduler (so the block is
    observed as a deadlock instead of a hang) and record what happens."""
    with sched.patched_locks():
        from prometheus_client import CollectorRegistry
        from prometheus_client.metrics_core import GaugeMetricFamily
        R = CollectorRegistry(auto_describe=True)
        inner = XCollector(1)

        class Nasty:
            def collect(self):
                R.register(inner)
                return [GaugeMetricFamily('nasty', 'h', value=1)]
        res = ENGINE.run([lambda: R.register(Nasty())], sched.PreemptPolicy([]))
        return {'deadlock': res.deadlock, 'done': res.done, 'exc': [type(e).__name__ if e else None for e in res.exc]}


def run(ctx):
    warnings.filterwarnings('ignore')
    quick = ctx.tier == 'quick'
    widen = bool(ctx.broken)
    # quick: use what is left of ~68 s after extraction / build / audit (between 25 and 50 s of scheduling)
    budget_total = (max(25.0, min(48.0, 68.0 - (time.time() - ctx.t0))) if quick else 420.0) * (1.5 if widen else 1.0)
    ctx.deadline = time.time() + budget_total
    programs = list(QUICK_PROGRAMS) + ([] if quick else list(THOROUGH_PROGRAMS))
    if not quick:
        programs = [(w, p, min(b + 1, 3), m) for (w, p, b, m) in QUICK_PROGRAMS] + list(THOROUGH_PROGRAMS)
    models = ModelSets(ctx)
    # the model's view of the lock protocol of the CURRENT tree (also in the theorems; printed for the evidence)
    rep = ctx.driver.run(['c02 welllocked'])
    if rep is not None and rep[0].startswith('ok '):
        wl = dict(kv.split('=') for kv in rep[0][3:].split(','))
        ctx.extra['well_locked'] = wl
        bad = sorted(k for k, v in wl.items() if v != '1')
        if bad and not any('C02' in b or 'Props' in b for b in ctx.broken):
            ctx.broken.append('WellLocked no longer holds of the extracted skeleton(s): %s' % ', '.join(bad))
    # programs that never touch a value (registry / Info / Enum / target-info operations only) do not depend on the value
    # back-end: they run once
    reg_only = {'reg', 'unreg', 'unregy', 'colr', 'rcol', 'rrcol', 'rcx', 'rct', 'stn', 'ste', 'sti', 'gti', 'regy', 'info', 'state',
                'col', 'colf', 'rcn', 'gen'}

    def backends_of(w, p):
        # constructing an Info / Enum allocates no value either (and the two types are not for the file-backed mode)
        kinds = {op.split(':')[0] for t in p.split('|') for op in t.split(',')
                 if not (op.split(':')[0] in CTOR_OPS and op.split(':')[1] in 'ie')}
        return ('mutex',) if kinds <= reg_only and not (set(w) & set('pqsh2')) else BACKENDS
    jobs = [(b, w, p, bd, m) for (w, p, bd, m) in programs for b in backends_of(w, p)]
    t_model = time.time()
    models.prefetch([(b, w, p) for (b, w, p, bd, m) in jobs if m])
    ctx.extra['model_enumeration_s'] = round(time.time() - t_model, 2)
    ctx.deadline = time.time() + budget_total
    stats = {}
    searches = [ProgramSearch(ctx, models, b, w, p, bd, m, stats) for (b, w, p, bd, m) in jobs]
    nrandom = (3 if quick else 40) * (2 if widen else 1)
    # phase 1: every schedule with <= 1 pre-emption, for every program (an equal slice of 70% of the budget each, unused time
    # rolls over); phase 2: random schedules; phase 3: the rest of the budget goes round-robin to the unfinished searches
    # (first the ones whose bound-1 level is incomplete, then the deeper levels)
    t_start = time.time()
    phase1_end = t_start + 0.7 * budget_total
    for i, sr in enumerate(searches):
        now = time.time()
        slice_end = now + max(0.3, (phase1_end - now) / (len(searches) - i))
        sr.advance(min(slice_end, ctx.deadline), until_bound=min(1, sr.bound))
    for sr in searches:
        sr.randoms(nrandom, t_start + 0.85 * budget_total)
    for level in (1, 2, 3):
        pending = [sr for sr in searches if not sr.done and sr.fails < 3 and sr.ex.completed_bound < min(level, sr.bound)]
        while pending and time.time() < ctx.deadline:
            for sr in list(pending):
                sr.advance(min(ctx.deadline, time.time() + 0.5), until_bound=min(level, sr.bound))
                if sr.done or sr.fails >= 3 or sr.ex.completed_bound >= min(level, sr.bound):
                    pending.remove(sr)
                if time.time() >= ctx.deadline:
                    break
    infos = [sr.report() for sr in searches]
    total_fails = sum(sr.fails for sr in searches)
    ctx.extra['bound1_complete_for_all_programs'] = all(i['completed_bound'] >= min(1, i['bound']) for i in infos)
    ctx.extra['program_reports'] = infos
    ctx.extra['run_stats'] = stats
    try:
        ctx.extra['register_time_reentrancy_probe'] = reentrant_register_probe(ctx)
    except Exception as e:
        ctx.extra['register_time_reentrancy_probe'] = 'probe failed: %s' % e
    ctx.rule = ('real threads on the real code, one bytecode per step; per program and back-end: every schedule with <= bound '
                'pre-emptions at lock operations / bytecodes of the shared-state methods (iterative context bounding, within the '
                'time budget: see program_reports[].bounded_search_complete) + seeded random schedules; a case is non-trivial and '
                'distinct by (back-end, program, executed schedule as run-length-encoded thread ids)')
    ctx.exhaustive = False
    if stats.get('stalled'):
        ctx.notes.append('%d runs hit the step budget / watchdog (not judged)' % stats['stalled'])
    if stats.get('nondeterministic'):
        ctx.notes.append('%d child schedules did not reproduce their parent prefix' % stats['nondeterministic'])


def replay(ctx, case):
    warnings.filterwarnings('ignore')
    c = case.get('case', case)
    backend, flags, program = c['backend'], c['world'], c['program']
    segs = [(int(t), int(n)) for t, n in c['schedule']]
    pol = sched.ReplayPolicy(segs)
    res, obs = run_once(backend, flags, program, pol)
    out = real_outcome(program, res, obs)
    print('replay: backend=%s world=%s program=%s' % (backend, flags, program))
    print('  schedule (thread, steps): %s%s' % (segs, '  [DIVERGED at step %s]' % pol.diverged_at if pol.diverged else ''))
    print('  executed                : %s' % (res.trace,))
    print('  outcome                 : %s' % out)
    why = oracle(program, res, obs)
    if why:
        print('  PROPERTY VIOLATED       : %s (%s)' % (why[1], why[0]))
        return 1
    models = ModelSets(ctx)
    m = models.get(backend, flags, program)
    if m is not None and m[0] != 'err':
        inside = out in m[1]
        print('  model outcome set (%d)   : %s' % (len(m[1]), sorted(m[1])[:12]))
        print('  outcome in model set    : %s' % inside)
        if not inside:
            return 1
    print('  the property oracle holds on this schedule')
    return 0
