"""C08 — multiprocess collection equals the per-mode aggregate over all worker histories.

Real code: 1–4 simulated worker processes (one `MultiProcessValue(lambda: pid)` class each, `values.ValueClass`
re-pointed before every operation — see harness/mpsim.py) perform scripted operations on counters, summaries,
histograms and gauges of all ten multiprocess modes; `mark_process_dead` and pid reuse happen at arbitrary points; the
real `MultiProcessCollector` collects after EVERY step.  Thorough tier (and three cheap cases in the quick tier): real
`os.fork()` workers with `MultiProcessValue()` on the real `os.getpid`.

ORACLE (independent of the Lean model and of the files): a plain-Python aggregate computed only from the per-process
operation log, written from the property text — see `Oracle`.  Cross-process sums are compared exactly: every amount
that can enter a cross-process sum (counter/summary/histogram `_sum`/gauge sum modes) is a multiple of 1/8 below 2^41
(or ±inf/NaN), so the sum is exact and independent of the order of the processes; min/max/mostrecent are checked
declaratively (the reported value is one of the contributions and none is smaller / greater / more recent), so a tie or
a NaN never pins down more than the property does.

FOREIGN FILES: step ['foreign', pid, mi, labelvalues, [[le_text, count_bits], ...], sum_bits] writes or extends
`histogram_<pid>.db` DIRECTLY through the library's own store (`MmapedDict` + `mmap_key`), as an older client version or
another client would leave it: bucket keys whose `le` is spelled non-canonically ('1', '1.00', '1e6', '+inf',
'Infinity', '1.5e+010', ...), bounds the live histograms do not have, two spellings of one bound in one file, label sets
and histograms no live process has.  Such a pid is never a simulated process.  In the oracle it is one more holder whose
buckets are keyed by float(le_text); the exposed `le` must be the canonical rendering of the bound (C13's independent
oracle, `canonical_le`) and one bound must be exposed once (sig C08:le-not-canonical, checked before everything else).

STRING IDENTITIES: `process_identifier` may return anything; besides small ints the pid pool has strings without '_' and
glob metacharacters, in look-alike groups that always occur TOGETHER in a scenario ('w-0b', 'w-0d', 'w-0', 'w-0.'; 'a.db',
'a', 'a.d'; 'bd', 'd', 'b', '.'; ...): the pid label of a gauge series must be the identity string exactly.
FILE AGE: per scenario ('age': now / 3s / 1h / keep) the mtime of every store file is set before EVERY collection point
(also right after mark_process_dead), as harness/props/c12.py does: a file that LOOKS idle must still be re-read.
SPARSE COLLECTIONS / ONE COLLECTOR OBJECT: scenario key 'kept' — the SAME MultiProcessCollector object serves every
collection of the scenario (a server registers its collector once); steps ['hold'] ... ['release'] — no collection
happens between them (random spans; spans in which a worker dies and a new worker with the same pid re-creates its
live-gauge files with other values / fewer / more children; a file growing past its initial size; plain write spans).
The ordinary per-process-log oracle applies at every collection point: nothing the collector kept from an earlier
collection may show.
RACING COLLECTIONS: step ['race', [pid, ...], 'glob' | 'merge', place] — the collection that follows the step RACES with
`mark_process_dead`: the collector lists the directory, then (before it reads anything) the given processes are reaped
and mark_process_dead removes their live-gauge files (the only files that may legitimately vanish under a collector),
then the collector reads what it listed, in the order `place` fixes (vanished files first / last / middle / spread from the
first to the last position / reverse / OS order / seeded shuffle; a listing has no pinned order).  'glob': the real
`collect()` with the `glob` name of prometheus_client.multiprocess hooked for that one listing; 'merge' (and whenever the
hook does not fire): `MultiProcessCollector.merge(explicit list)`.  Oracle: exactly the ordinary one evaluated AFTER the
reaping — the aggregate over the files that still exist: the reaped processes' live gauges are skipped, everything else
(every file listed before or after a vanished one) is complete.  The model gets the surviving files in the order read.
MERGE WITHOUT ACCUMULATION (oracle only, no model): at every collection point of a pool with a histogram (every third point
otherwise) the public `merge(files, accumulate=False)` runs on the same file list: histogram `_bucket{le=b}` = sum over the
processes of the counts written for bound b (not cumulative), no `_count`, `_sum` as usual, every non-histogram family equal to
the accumulating result, canonical `le`, no duplicates (sig C08:merge-no-accumulate).
CORRUPT STORE FILES: a key in a file the library itself wrote that is no longer the canonical JSON of
[str, str, {str: str}, str] is an oracle failure (C08:store-file-corrupt), not an infrastructure error.

MODEL: at every collection point the files (read through the real store reader, in the collector's glob order) go to
driver `c08 merge`; the model M and the spec S outputs are both compared with the real collector's output; every
`mark_process_dead` goes to `c08 dead`.
"""
import hashlib
import math
import os
import time

import lib
import mpsim
from mpsim import feq

INF = math.inf
NAN = math.nan

# bucket layouts with the bound texts written out by hand (what the exposition must show for each bound)
LAYOUTS = {
    'default': [(.005, '0.005'), (.01, '0.01'), (.025, '0.025'), (.05, '0.05'), (.075, '0.075'), (.1, '0.1'),
                (.25, '0.25'), (.5, '0.5'), (.75, '0.75'), (1.0, '1.0'), (2.5, '2.5'), (5.0, '5.0'), (7.5, '7.5'),
                (10.0, '10.0'), (INF, '+Inf')],
    'small': [(1.0, '1.0'), (2.5, '2.5'), (INF, '+Inf')],
    'dec': [(0.1, '0.1'), (1.0, '1.0'), (10.0, '10.0'), (INF, '+Inf')],
    'big': [(1.0, '1.0'), (1e6, '1e+06'), (1e22, '1e+22'), (INF, '+Inf')],
    'neg': [(-1.0, '-1.0'), (0.5, '0.5'), (1024.0, '1024.0'), (INF, '+Inf')],
}
BOUND_TEXT = {}
for _l in LAYOUTS.values():
    for _b, _t in _l:
        BOUND_TEXT[_b] = _t

SUM_POS = [0.0, 1.0, 2.0, 0.5, 0.25, 3.0, 0.125, 7.75, 1024.0, float(2 ** 40), 2.5, 1.0, 1.0]
SUM_ANY = SUM_POS + [-1.0, -0.5, -float(2 ** 40), -0.0, -7.75, -2.5, 1000000.0]
ANY_EXTRA = [0.1, 1 / 3, float(2 ** 53 + 2), 1e300, -1e-300, 5e-324, 123456789.123, -0.1, 1e22]
SPECIAL = [NAN, INF, -INF]
HIST_AMOUNTS = [0.0, 0.125, 0.5, 1.0, 2.0, 2.5, 3.0, 8.0, 0.0625, 1024.0, 1000000.0, 2000000.0, float(2 ** 40), -1.0,
                -0.5, -2.0, 10.0, 0.25, 0.75, 5.0, 7.5]
PID_POOL = [1, 2, 3, 7, 10, 11, 12, 123, 4567]
# identities that are not numbers (no '_' — the file name is split at it —, no glob metacharacters): look-alike groups
ID_GROUPS = [['w-0b', 'w-0d', 'w-0', 'w-0.'], ['a.db', 'a', 'a.d', 'a.b'], ['bd', 'd', 'b', '.'], ['x.d.b', 'x', 'x.d', 'x.b'],
             ['worker.3', 'worker.3d', 'worker.', 'worker']]
AGES = ('now', '3s', '1h', 'keep')


def age_files(d, age, t0):
    """set the mtime of every store file: now / 3 s / 1 h before the start of the scenario / unchanged (as props/c12.py)"""
    if age in (None, 'keep'):
        return
    t = {'now': time.time(), '3s': t0 - 3.0, '1h': t0 - 3600.0}[age]
    for f in mpsim.listing(d):
        try:
            os.utime(f, (t, t))
        except FileNotFoundError:
            pass
FOREIGN_PIDS = [5, 6, 8, 9, 100, 77, 5000, 31337]       # never simulated processes: no live mmap is open on their files
LABEL_VALUES = ['', 'x', 'y', 'é', 'a"b\\c', 'x y']
LABEL_NAMES = [['l'], ['k'], ['l', 'k'], ['k', 'l'], ['a_b']]
# names that sort AFTER 'le': in a histogram bucket key (labels sorted by name) `le` is then NOT the last label
LATE_LABEL_NAMES = [['method'], ['path', 'zone'], ['l', 'zone'], ['lf'], ['zone'], ['méthode'], ['ü', 'k']]
# a USER label literally named `le` (counters, summaries, gauges; reserved on histograms): numeric-looking and other values
LE_LABEL_NAMES = [['le'], ['le', 'k'], ['a', 'le'], ['le', 'zone']]
LE_LABEL_VALUES = ['1', '0.5', '+Inf', '1e3', 'x', '', 'é', '1.0', 'inf']
# non-canonical (and canonical) spellings a foreign store file may carry for a bound
SPELLINGS = {
    1.5e10: ['1.5e+010', '15000000000.0', '1.5e10', '1.5e+10'],
    1e6: ['1000000.0', '1e6', '1e+06', '1E6'],
    1e16: ['1e16', '1e+16', '10000000000000000.0'],
    0.5: ['0.50', '.5', '5e-1', '0.5'],
    1.0: ['1', '1.0', '1.00', '1e0'],
    2.5: ['2.50', '2.5', '25e-1'],
    10.0: ['10', '1e1', '10.0'],
    4.0: ['4', '4.0', '0.4e1'],
    INF: ['+inf', 'inf', 'Infinity', '+Inf', 'INF'],
}
LIVE = 'live'


def modes():
    from prometheus_client.metrics import Gauge
    return sorted(Gauge._MULTIPROC_MODES)


def prefix_of(md):
    return 'gauge_' + md['mode'] if md['kind'] == 'gauge' else md['kind']


def is_mostrecent(md):
    return md['kind'] == 'gauge' and md['mode'] in ('mostrecent', 'livemostrecent')


def canonical_le(b):
    """the canonical exposition text of a bound, from C13's independent oracle (exact decimal expansion of repr)"""
    from props import c13
    if b != b:
        return 'NaN'
    if b == INF:
        return '+Inf'
    if b == -INF:
        return '-Inf'
    r = repr(b)
    if b > 0 and 'e' not in r and r.find('.') > 6:
        return c13.go_expected(b)
    return r


def check_bound_table():
    """the hand-written texts of LAYOUTS must agree with the independent canonical rendering (once per run)"""
    for b, t in BOUND_TEXT.items():
        if canonical_le(b) != t:
            raise lib.Infra('hand-written bound text %r for %r disagrees with the canonical rendering %r' % (t, b, canonical_le(b)))
    for b, texts in SPELLINGS.items():
        for t in texts:
            if lib.bits_of(float(t)) != lib.bits_of(b):
                raise lib.Infra('spelling %r does not denote the bound %r' % (t, b))


def check_le_canonical(canon):
    """on the REAL output: every exposed bucket bound is spelled canonically and exposed once per label set"""
    probs = []
    for name in sorted(canon):
        doc, typ, ss = canon[name]
        if typ != 'histogram':
            continue
        seen = {}
        for (sn, L) in sorted(ss):
            if sn != name + '_bucket':
                continue
            le = dict(L).get('le')
            rest = tuple(kv for kv in L if kv[0] != 'le')
            if le is None:
                continue        # a bucket sample without `le`: the generic series comparison reports it
            try:
                b = float(le)
            except ValueError:
                probs.append(('C08:le-not-canonical', 'family %s label set %r: exposed le=%r is not a number' % (name, dict(rest), le)))
                continue
            if le != canonical_le(b):
                probs.append(('C08:le-not-canonical', 'family %s label set %r: exposed le=%r for bound %r, canonical is %r' % (
                    name, dict(rest), le, b, canonical_le(b))))
            k = (rest, lib.bits_of(b))
            if k in seen:
                probs.append(('C08:le-not-canonical', 'family %s label set %r: bound %r exposed twice as %r and %r: not merged' % (
                    name, dict(rest), b, seen[k], le)))
            seen[k] = le
    return probs


# ================================================================================================== the oracle
class Oracle:
    """What each process holds, from the op log alone, and the aggregate the property demands.

    held[pid][prefix][family] = {'series': {(sample name, labels): [value, set-time]},
                                 'buckets': {labels: {bound: count}}}
    A pid keeps what it holds across death and reuse (dead processes still count, a reused pid continues from what
    the earlier incarnation left) EXCEPT the live gauge modes, which mark_process_dead wipes.
    """

    def __init__(self, pool):
        self.pool = pool
        self.held = {}
        self.filemeta = {}
        self.foreign_texts = {}     # (pid, family, labels) -> {le text: count}  (one store key per spelling)

    def _fam(self, pid, md):
        pre = prefix_of(md)
        per = self.held.setdefault(pid, {})
        if pre not in per:
            per[pre] = {}
            self.filemeta['%s_%s.db' % (pre, pid)] = (md['kind'], md['mode'] if md['kind'] == 'gauge' else '', str(pid))
        return per[pre].setdefault(md['name'], {'series': {}, 'buckets': {}})

    @staticmethod
    def labels_of(md, lvs):
        return tuple(sorted(zip(md['labels'], lvs)))

    def create_child(self, pid, mi, lvs):
        md = self.pool[mi]
        fam = self._fam(pid, md)
        L = self.labels_of(md, lvs)
        n = md['name']
        if md['kind'] == 'counter':
            fam['series'].setdefault((n + '_total', L), [0.0, 0.0])
        elif md['kind'] == 'summary':
            fam['series'].setdefault((n + '_count', L), [0.0, 0.0])
            fam['series'].setdefault((n + '_sum', L), [0.0, 0.0])
        elif md['kind'] == 'histogram':
            fam['series'].setdefault((n + '_sum', L), [0.0, 0.0])
            bs = fam['buckets'].setdefault(L, {})
            for b, _ in LAYOUTS[md['layout']]:
                bs.setdefault(b, 0.0)
        else:
            fam['series'].setdefault((n, L), [0.0, 0.0])

    def update(self, pid, mi, lvs, op, x, t):
        """the child exists already (create_child was called)"""
        if op == 'settime':     # set_to_current_time(): a set of the clock reading, at that time
            op, x = 'set', t
        md = self.pool[mi]
        fam = self._fam(pid, md)
        L = self.labels_of(md, lvs)
        n = md['name']
        if md['kind'] == 'counter':
            if op == 'reset':   # Counter.reset(): THIS worker's contribution is zero again; the others are untouched
                fam['series'][(n + '_total', L)][0] = 0.0
            else:
                fam['series'][(n + '_total', L)][0] += x
        elif md['kind'] == 'summary':
            fam['series'][(n + '_count', L)][0] += 1
            fam['series'][(n + '_sum', L)][0] += x
        elif md['kind'] == 'histogram':
            fam['series'][(n + '_sum', L)][0] += x
            for b in sorted(fam['buckets'][L]):
                if x <= b:          # an observation falls into the smallest bucket whose bound is not below it
                    fam['buckets'][L][b] += 1
                    break
        else:
            cell = fam['series'][(n, L)]
            if op == 'set':
                cell[0] = float(x)
                cell[1] = t if is_mostrecent(md) else 0.0
            elif not is_mostrecent(md):     # inc / dec are refused in the mostrecent modes
                cell[0] += x if op == 'inc' else -x
                cell[1] = 0.0

    def foreign(self, pid, mi, lvs, buckets, total):
        """a store file written by somebody else: per le TEXT the last count written; as a holder its buckets are keyed
        by the bound the text denotes (two spellings of one bound both count), `_sum` as written"""
        md = self.pool[mi]
        fam = self._fam(pid, md)
        L = self.labels_of(md, lvs)
        texts = self.foreign_texts.setdefault((pid, md['name'], L), {})
        for text, count in buckets:
            texts[text] = count
        bs = {}
        for text, count in texts.items():
            b = float(text)
            bs[b] = bs.get(b, 0.0) + count
        fam['buckets'][L] = bs
        fam['series'][(md['name'] + '_sum', L)] = [total, 0.0]

    def dead(self, pid):
        per = self.held.get(pid, {})
        for pre in [p for p in per if p.startswith('gauge_' + LIVE)]:
            del per[pre]
            del self.filemeta['%s_%s.db' % (pre, pid)]
        if pid in self.held and not per:
            del self.held[pid]

    def expected_files(self):
        return set(self.filemeta)

    def expected(self, accumulate=True):
        """{family: (help, type, {(sample name, labels): spec})}; spec = ('eq', v) | ('min', vs) | ('max', vs) | ('oneof', vs)
        accumulate=False: what `merge(files, accumulate=False)` is documented to give (for writing merged data back to store
        files): histogram buckets NOT cumulative — each `_bucket{le=b}` is the sum over the processes of the counts
        written for bound b — and no `_count`; everything else as usual"""
        out = {}
        for md in self.pool:
            pre, name, kind = prefix_of(md), md['name'], md['kind']
            holders = [(pid, self.held[pid][pre][name]) for pid in sorted(self.held, key=str)
                       if pre in self.held[pid] and name in self.held[pid][pre]]
            if not holders:
                continue
            series = {}
            if kind in ('counter', 'summary', 'histogram'):
                tot = {}
                for _, h in holders:
                    for k, (v, _) in h['series'].items():
                        tot[k] = tot.get(k, 0.0) + v
                for k, v in tot.items():
                    series[k] = ('eq', v)
            if kind == 'histogram':
                merged = {}
                for _, h in holders:
                    for L, bs in h['buckets'].items():
                        m = merged.setdefault(L, {})
                        for b, c in bs.items():
                            m[b] = m.get(b, 0.0) + c
                for L, m in merged.items():
                    acc = 0.0
                    cum = {}
                    for b in sorted(m):
                        acc += m[b]
                        cum[b] = acc
                        series[(name + '_bucket', tuple(sorted(L + (('le', canonical_le(b)),))))] = ('eq', acc if accumulate else m[b])
                    if accumulate:
                        series[(name + '_count', L)] = ('eq', cum.get(INF, acc))
            if kind == 'gauge':
                mode = md['mode']
                base = mode[len(LIVE):] if mode.startswith(LIVE) else mode
                if base == 'all':
                    for pid, h in holders:
                        for (sn, L), (v, _) in h['series'].items():
                            series[(sn, tuple(sorted(L + (('pid', str(pid)),))))] = ('eq', v)
                else:
                    groups = {}
                    for _, h in holders:
                        for k, (v, ts) in h['series'].items():
                            groups.setdefault(k, []).append((v, ts))
                    for k, vts in groups.items():
                        vs = [v for v, _ in vts]
                        if base == 'min':
                            series[k] = ('min', vs)
                        elif base == 'max':
                            series[k] = ('max', vs)
                        elif base == 'sum':
                            s = 0.0
                            for v in vs:
                                s += v
                            series[k] = ('eq', s)
                        else:   # mostrecent: a value whose set-time is maximal among the sets
                            sets = [(v, ts) for v, ts in vts if ts > 0]
                            if sets:
                                tmax = max(ts for _, ts in sets)
                                series[k] = ('oneof', [v for v, ts in sets if ts == tmax])
                            else:
                                # never set anywhere: the property text does not say whether such a series is listed
                                # (the library omits it); if it is, it can only show what the processes hold
                                series[k] = ('opt', [v for v, _ in vts])
            out[name] = (md['help'], kind, series, md)
        return out


def spec_ok(spec, r):
    how, arg = spec
    if how == 'eq':
        return feq(arg, r)
    if how in ('oneof', 'opt'):
        return any(feq(v, r) for v in arg)
    if not any(feq(v, r) for v in arg):
        return False
    if how == 'min':
        return not any(v < r for v in arg)
    return not any(v > r for v in arg)


def sig_of(md):
    return {'counter': 'C08:counter-sum', 'summary': 'C08:summary-sum', 'histogram': 'C08:histogram'}.get(
        md['kind'], 'C08:gauge-' + md['mode'])


def check_oracle(real, exp):
    """real: canonical {name: (doc, typ, {key: value})}; -> [(sig, what)]"""
    probs = []
    real = {n: x for n, x in real.items() if x[2]}
    exp = {n: x for n, x in exp.items() if x[2]}
    for n in sorted(set(real) - set(exp)):
        probs.append(('C08:extra-series', 'family %s collected but no process holds it: %r' % (n, sorted(real[n][2])[:4])))
    for n in sorted(set(exp) - set(real)):
        if any(sp[0] != 'opt' for sp in exp[n][2].values()):
            probs.append(('C08:missing-series', 'family %s held by some process is not collected' % n))
    for n in sorted(set(real) & set(exp)):
        doc, typ, rs = real[n]
        edoc, etyp, es, md = exp[n]
        if doc != edoc:
            probs.append(('C08:help', 'family %s: help %r, defined as %r' % (n, doc, edoc)))
        if typ != etyp:
            probs.append(('C08:type', 'family %s: type %r, defined as %r' % (n, typ, etyp)))
        for k in sorted(set(rs) - set(es)):
            probs.append(('C08:extra-series', 'family %s (%s): series %s%r=%r not held by any %sprocess' % (
                n, prefix_of(md), k[0], dict(k[1]), rs[k], 'live ' if md.get('mode', '').startswith(LIVE) else '')))
        for k in sorted(set(es) - set(rs)):
            if es[k][0] == 'opt':
                continue
            probs.append(('C08:missing-series', 'family %s (%s): series %s%r (%s %r) is not collected' % (
                n, prefix_of(md), k[0], dict(k[1]), es[k][0], es[k][1])))
        for k in sorted(set(es) & set(rs)):
            if not spec_ok(es[k], rs[k]):
                probs.append((sig_of(md), 'family %s (%s): series %s%r collected %r, per-process log demands %s %r' % (
                    n, prefix_of(md), k[0], dict(k[1]), rs[k], es[k][0], es[k][1])))
    return probs


# ================================================================================================== the real side
def spell_buckets(layout, variant):
    bs = LAYOUTS[layout]
    if variant == 0:
        return [b for b, _ in bs]
    if variant == 1:    # ints where integral, +Inf left to the constructor
        return [int(b) if b == int(b) and abs(b) < 2 ** 53 else b for b, _ in bs[:-1]]
    return [t for _, t in bs]   # the texts ('1e+06', '+Inf', ...)


class RealProc:
    """one worker process: its value class and the metric objects it created"""

    def __init__(self, cls, pool, use, clock, variant):
        self.cls, self.pool, self.use, self.clock, self.variant = cls, pool, use, clock, variant
        self.metrics = {}

    def metric(self, mi):
        if mi not in self.metrics:
            from prometheus_client import Counter, Gauge, Histogram, Summary
            md = self.pool[mi]
            kw = dict(labelnames=list(md['labels']), registry=None)
            self.use(self.cls)
            if md['kind'] == 'counter':
                m = Counter(md['name'], md['help'], **kw)
            elif md['kind'] == 'summary':
                m = Summary(md['name'], md['help'], **kw)
            elif md['kind'] == 'gauge':
                m = Gauge(md['name'], md['help'], multiprocess_mode=md['mode'], **kw)
            elif md['layout'] == 'default' and self.variant != 2:
                m = Histogram(md['name'], md['help'], **kw)
            else:
                m = Histogram(md['name'], md['help'], buckets=spell_buckets(md['layout'], self.variant), **kw)
            self.metrics[mi] = m
        return self.metrics[mi]

    def child(self, mi, lvs):
        m = self.metric(mi)
        if self.pool[mi]['labels']:
            self.use(self.cls)
            return m.labels(*lvs)
        return m

    def update(self, mi, lvs, op, x, t):
        """-> None | name of the exception class raised"""
        c = self.child(mi, lvs)
        self.use(self.cls)
        self.clock.now = t
        try:
            if op == 'inc':
                c.inc(x)
            elif op == 'dec':
                c.dec(x)
            elif op == 'obs':
                c.observe(x)
            elif op == 'settime':
                c.set_to_current_time()
            elif op == 'reset':
                c.reset()
            else:
                c.set(x)
        except Exception as e:  # noqa
            return type(e).__name__
        return None


def lvs_of(md, lvs):
    return tuple(lvs) if md['labels'] else ()


class Result:
    def __init__(self):
        self.failures = []      # (sig, what, step index)
        self.pending = []       # (request line, real canonical, step index)
        self.dead_pending = []  # (request line, real listing after, step index)
        self.points = []        # (nontrivial key | None, sample | None)
        self.counts = {}

    def count(self, k, n=1):
        self.counts[k] = self.counts.get(k, 0) + n


class World:
    def __init__(self, sim, pool, res, want_sample=False, kept=False):
        self.sim, self.pool, self.res = sim, pool, res
        self.kept = mpsim.KeptCollector(sim.dir) if kept else None     # one collector object for the whole scenario
        self.held = False           # inside a ['hold'] ... ['release'] span: no collection
        self.span_dead, self.span_respawn, self.span_len = set(), False, 0
        self.oracle = Oracle(pool)
        self.procs = {}
        self.incarnation = {}
        self.events = 0
        self.want_sample = want_sample
        self.race = None            # a ['race', ...] step waiting for the collection point that follows it

    def proc(self, pid):
        if pid not in self.procs:
            k = self.incarnation.get(pid, 0)
            self.incarnation[pid] = k + 1
            self.procs[pid] = RealProc(self.sim.new_class(pid), self.pool, self.sim.use, self.sim.clock,
                                       ((pid if isinstance(pid, int) else len(pid)) + k) % 3)
        return self.procs[pid]

    def end(self, pid):
        p = self.procs.pop(pid, None)
        if p is not None:
            self.sim.end_process(p.cls)

    def step(self, i, st):
        res = self.res
        op = st[0]
        res.count('step:' + op)
        if self.held and op not in ('hold', 'release'):
            self.span_len += 1
            if op == 'dead':
                self.span_dead.add(str(st[1]))
        if op == 'dead':
            self.reap(i, st[1])
            return
        if op == 'reuse':
            self.events += 1
            self.end(st[1])
            self.proc(st[1])
            return
        if op == 'race':            # happens INSIDE the collection that follows this step (collect_point)
            self.race = st
            return
        if op == 'hold':
            self.held = True
            self.span_dead, self.span_respawn, self.span_len = set(), False, 0
            return
        if op == 'release':
            if self.held:
                res.count('sparse:spans')
                res.count('sparse:span-of-%s-steps' % ('1-3' if self.span_len <= 3 else ('4-9' if self.span_len <= 9 else '10+')))
                if self.span_dead:
                    res.count('sparse:span-with-mark-process-dead')
                if self.span_respawn:
                    res.count('sparse:span-with-dead-then-same-pid-rewrites-live-gauge-file')
                if self.kept is not None:
                    res.count('sparse:span-under-kept-collector')
            self.held = False
            return
        if op == 'foreign':
            self.foreign(i, st)
            return
        pid, mi = st[1], st[2]
        md = self.pool[mi]
        if self.held and str(pid) in self.span_dead and md['kind'] == 'gauge' and md['mode'].startswith(LIVE):
            self.span_respawn = True
        p = self.proc(pid)
        res.count('kind:' + (md['kind'] if md['kind'] != 'gauge' else 'gauge-' + md['mode']))
        if op == 'settime':
            res.count('settime:' + md.get('mode', ''))
        if op == 'reset':
            res.count('reset:' + ('labelled-child' if md['labels'] else 'unlabelled'))
        try:
            if op == 'create':
                p.metric(mi)
                if not md['labels']:
                    self.oracle.create_child(pid, mi, ())
                return
            lvs = lvs_of(md, st[3])
            p.child(mi, lvs)
            self.oracle.create_child(pid, mi, lvs)
            if op == 'child':
                return
            if op == 'reset' and md['kind'] != 'counter':
                res.count('reset:skipped-not-a-counter')    # (shrunk / malformed lists)
                return
            x = lib.from_bits(st[4]) if len(st) > 4 else 0.0
            t = lib.from_bits(st[5]) if len(st) > 5 else self.sim.clock.now
            raised = p.update(mi, lvs, op, x, t)
            expect = 'RuntimeError' if (is_mostrecent(md) and op in ('inc', 'dec')) else None
            if raised != expect:
                res.failures.append(('C08:raises', '%s %r on %s (%s) in process %s: raised %s, expected %s' % (
                    op, x, md['name'], prefix_of(md), pid, raised, expect), i))
            if raised is None:
                self.oracle.update(pid, mi, lvs, op, x, t)
        except Exception as e:  # noqa  -- creation itself failed
            res.failures.append(('C08:raises', 'step %r raised %s: %s' % (st, type(e).__name__, e), i))

    def foreign(self, i, st):
        """write/extend histogram_<pid>.db directly through the library's own store"""
        from prometheus_client.mmap_dict import MmapedDict, mmap_key
        res = self.res
        pid, mi = st[1], st[2]
        md = self.pool[mi]
        if md['kind'] != 'histogram' or pid in self.procs or pid in self.incarnation:
            res.count('foreign:skipped')        # (shrunk lists) not a histogram / the pid belongs to a simulated process
            return
        lvs = lvs_of(md, st[3])
        buckets = [(t, lib.from_bits(c)) for t, c in st[4]]
        total = lib.from_bits(st[5])
        n = md['name']
        path = os.path.join(self.sim.dir, 'histogram_%s.db' % pid)
        d = MmapedDict(path)
        try:
            for text, count in buckets:
                d.write_value(mmap_key(n, n + '_bucket', tuple(md['labels']) + ('le',), tuple(lvs) + (text,), md['help']), count, 0.0)
            d.write_value(mmap_key(n, n + '_sum', tuple(md['labels']), tuple(lvs), md['help']), total, 0.0)
        finally:
            d.close()
        self.oracle.foreign(pid, mi, lvs, buckets, total)
        self.events += 1
        names = [os.path.basename(p) for p in self.sim.listing()]
        mine = 'histogram_%s.db' % pid
        simulated = set(str(q) for q in self.incarnation)
        live = [k for k, bn in enumerate(names) if bn.startswith('histogram_') and bn[10:-3] in simulated]
        if mine in names and live:
            at = names.index(mine)
            res.count('foreign:listed-before-live' if at < min(live) else ('foreign:listed-after-live' if at > max(live) else 'foreign:listed-between-live'))
        else:
            res.count('foreign:no-live-histogram-file')
        for text, _ in buckets:
            if text != canonical_le(float(text)):
                res.count('foreign:non-canonical-spelling')

    def reap(self, i, pid):
        """the process is gone and the master calls mark_process_dead(pid): real side, oracle, model request"""
        from prometheus_client import multiprocess
        res = self.res
        self.events += 1
        self.end(pid)           # the process is gone: its files are closed
        before = [os.path.basename(p) for p in self.sim.listing()]
        try:
            multiprocess.mark_process_dead(pid, self.sim.dir)
        except Exception as e:  # noqa
            res.failures.append(('C08:mark-dead', 'mark_process_dead(%r) raised %s' % (pid, type(e).__name__), i))
        self.oracle.dead(pid)
        after = set(os.path.basename(p) for p in self.sim.listing())
        if after != self.oracle.expected_files():
            res.failures.append(('C08:mark-dead', 'after mark_process_dead(%r) the directory holds %s, expected %s' % (
                pid, sorted(after), sorted(self.oracle.expected_files())), i))
        res.dead_pending.append((mpsim.dead_request(pid, before), after, i))

    def race_collect(self, i, st):
        """A collection RACING with mark_process_dead: the collector lists the directory; right after the listing the
        processes st[1] are reaped (mark_process_dead removes their live-gauge files — the only files that may
        legitimately vanish under a collector); then the collector reads what it listed, in the order st[3] (the
        vanished files first / last / in the middle / spread / ...).  The property's answer: the aggregate over the
        files that still exist — the reaped processes' live gauges are skipped, EVERYTHING else is complete.
        -> (families, surviving paths in the order they were read); self.race_text describes the race; raises what collect raises"""
        res = self.res
        pids = list(st[1])
        via = st[2] if len(st) > 2 else 'glob'
        place = st[3] if len(st) > 3 else 'keep'
        ids = set(str(q) for q in pids)
        doomed = set(bn for bn, (typ, mode, pid) in self.oracle.filemeta.items() if typ == 'gauge' and mode.startswith(LIVE) and pid in ids)
        done = []

        def between(ls):
            done.append(ls)
            for pid in pids:
                self.reap(i, pid)

        try:
            fams, ls, how = mpsim.collect_racing(self.sim.dir, lambda l: mpsim.race_order(l, doomed, place), between, via, self.kept)
        finally:
            if not done:        # the collector failed before it listed anything: the world moves on all the same
                between([])
            ls = done[0]
            names = [os.path.basename(p) for p in ls]
            gone = [k for k, p in enumerate(ls) if not os.path.exists(p)]
            self.race_text = 'collection racing with mark_process_dead of %r — listed %s; vanished after the listing, before the reads: %s' % (
                pids, names, [names[k] for k in gone] or 'nothing')
        res.count('race:via-' + how)
        res.count('race:place-' + place.split(':')[0])
        res.count('race:reaped-%d' % min(len(pids), 3))
        if not gone:
            res.count('race:nothing-vanished')
        else:
            res.count('race:vanished-%d' % min(len(gone), 3))
            if gone[0] == 0:
                res.count('race:vanished-at-first-position')
            if gone[-1] == len(ls) - 1:
                res.count('race:vanished-at-last-position')
            if any(0 < k < len(ls) - 1 for k in gone):
                res.count('race:vanished-at-inner-position')
            after = names[gone[0] + 1:]
            for k in ('counter', 'summary', 'histogram', 'gauge'):
                if any(bn.startswith(k + '_') and j + gone[0] + 1 not in gone for j, bn in enumerate(after)):
                    res.count('race:%s-file-read-after-a-vanished-file' % k)
        return fams, [p for p in ls if os.path.exists(p)]

    def no_accumulate_point(self, i, canon, paths):
        """the public `MultiProcessCollector.merge(files, accumulate=False)` on the file list of this collection point
        (ORACLE-ONLY stream: the Lean model's merge has no accumulate parameter).  Documented meaning: the merged data in
        the form that can be written back to store files — histogram buckets per bound, not cumulative, no `_count`;
        every non-histogram family exactly as in the accumulating result; same help / type / label sets."""
        from prometheus_client.multiprocess import MultiProcessCollector
        res = self.res
        sig = 'C08:merge-no-accumulate'
        pre = 'merge(files, accumulate=False) on %s: ' % [os.path.basename(p) for p in paths]
        res.count('no-accumulate:points')
        try:
            fams = mpsim.fams_of(MultiProcessCollector.merge(list(paths), accumulate=False))
        except Exception as e:  # noqa
            res.failures.append((sig, pre + 'raised %s: %s' % (type(e).__name__, e), i))
            return
        c2, dups = mpsim.canon_fams(fams)
        probs = [w for _, w in check_le_canonical(c2)] + list(dups)
        probs += ['[%s] %s' % (sg, w) for sg, w in check_oracle(c2, self.oracle.expected(accumulate=False))]
        plain = lambda c: {n: x for n, x in c.items() if x[1] != 'histogram'}
        d = mpsim.diff_canon(plain(canon), plain(c2), 'accumulate=True', 'accumulate=False')
        if d:
            probs.append('non-histogram families must not depend on `accumulate`: ' + d)
        if any(x[1] == 'histogram' and x[2] for x in c2.values()):
            res.count('no-accumulate:points-with-histogram')
            if any(sn.endswith('_bucket') and v != 0 for x in c2.values() if x[1] == 'histogram' for (sn, _), v in x[2].items()):
                res.count('no-accumulate:points-with-non-empty-buckets')
        for w in probs:
            res.failures.append((sig, pre + w, i))

    def collect_point(self, i, want_model=True):
        res = self.res
        res.count('points')
        race, self.race = self.race, None
        self.race_text = None
        paths = None
        try:
            if race is not None:
                real, paths = self.race_collect(i, race)
            else:
                real = self.kept.collect() if self.kept is not None else self.sim.collect()
        except Exception as e:  # noqa
            res.failures.append(('C08:collect-raises', '%scollect() raised %s: %s' % (
                self.race_text + ': ' if self.race_text else '', type(e).__name__, e), i))
            res.points.append((None, None))
            return
        at = len(res.failures)
        canon, dups = mpsim.canon_fams(real)
        for sig, what in check_le_canonical(canon):
            res.failures.append((sig, what, i))
        for d in dups:
            res.failures.append(('C08:duplicate-series', d, i))
        for sig, what in check_oracle(canon, self.oracle.expected()):
            res.failures.append((sig, what, i))
        if self.race_text:
            res.failures[at:] = [(sig, self.race_text + ': ' + what, j) for sig, what, j in res.failures[at:]]
        if paths is None:
            paths = self.sim.listing()
        if i % 3 == 0 or any(md['kind'] == 'histogram' for md in self.pool):
            self.no_accumulate_point(i, canon, paths)
        names = set(os.path.basename(p) for p in self.sim.listing())
        if names != self.oracle.expected_files():
            res.failures.append(('C08:file-set', 'directory holds %s, the op log implies %s' % (
                sorted(names), sorted(self.oracle.expected_files())), i))
        elif want_model:
            files = []
            for p in paths:
                bn = os.path.basename(p)
                typ, mode, pid = self.oracle.filemeta[bn]
                try:
                    entries = mpsim.read_file(p)
                except FileNotFoundError:
                    entries = []
                if isinstance(entries, mpsim.Unreadable):
                    res.failures.append(('C08:store-file-unreadable:' + entries.cls,
                                         'the store reader raised %s on %s: %s' % (entries.cls, bn, entries.msg), i))
                files.append((bn, typ, mode, pid, entries))
            line = mpsim.merge_request(files)
            if line is None:
                for bn, typ, mode, pid, entries in files:
                    for _, j, raw in mpsim.corrupt_keys({bn: entries}):
                        res.failures.append(('C08:store-file-corrupt', 'entry %d of %s (written by the library itself) has the key %r, which is '
                                             'not the canonical JSON text of [name, sample name, {labels}, help]' % (j, bn, raw[:160]), i))
            else:
                res.pending.append((line, canon, i))
        nontrivial = len(self.oracle.held) >= 2 or self.events > 0
        key = hashlib.md5(mpsim.fams_fingerprint(canon).encode('utf-8')).hexdigest() if nontrivial else None
        sample = None
        if self.want_sample and nontrivial and i >= 5:
            sample = {'collected': [[n, t, sorted([k[0], list(map(list, k[1])), repr(v)] for k, v in ss.items())]
                                    for n, (d, t, ss) in sorted(canon.items())]}
            self.want_sample = False
        res.points.append((key, sample))


def le_not_last(md):
    return md['kind'] == 'histogram' and any(n > 'le' for n in md['labels'])


def run_scenario(scen, want_model=True, want_sample=False):
    res = Result()
    for md in scen['pool']:
        if md['kind'] == 'histogram' and md['labels']:
            res.count('histogram-labelled:' + ('le-not-last' if le_not_last(md) else 'le-last'))
        elif md['labels']:
            res.count('non-histogram-labelled:' + ('user-label-named-le' if 'le' in md['labels'] else 'other'))
    res.count('age:' + str(scen.get('age', 'keep')))
    ids = set(q for st in scen['steps'] if len(st) > 1 for q in (st[1] if st[0] == 'race' else [st[1]]))
    if any(isinstance(q, str) for q in ids):
        res.count('identities:strings')
        if any(len(ids & set(g)) >= 2 for g in ID_GROUPS):
            res.count('identities:look-alike-group')
    t0 = time.time()
    with mpsim.Sim() as sim:
        w = World(sim, scen['pool'], res, want_sample, scen.get('kept', False))
        res.count('collector:' + ('one-object-kept-for-the-scenario' if w.kept is not None else 'fresh-object-per-collection'))
        quiet = scen.get('quiet', 0)    # race corpus: its long common set-up is collected once, at its end
        for i, st in enumerate(scen['steps']):
            w.step(i, st)
            if (i + 1 < quiet or w.held) and st[0] != 'race':
                continue
            age_files(sim.dir, scen.get('age'), t0)
            w.collect_point(i, want_model)
    return res


def model_divergences(ctx, res):
    """send the pending requests of one or several results to the driver; -> per result list of (what, step index)"""
    results = res if isinstance(res, list) else [res]
    lines = []
    for r in results:
        lines += [p[0] for p in r.pending] + [p[0] for p in r.dead_pending]
    replies = mpsim.driver_run(ctx, lines)
    out = [[] for _ in results]
    if replies is None:
        return out, 0
    pos = 0
    traces = 0
    for ri, r in enumerate(results):
        for _, canon, i in r.pending:
            rep = mpsim.parse_merge_reply(replies[pos])
            pos += 1
            traces += 1
            if rep[0] == 'err':
                out[ri].append(('model raises %s where the collector returned normally' % rep[1], i))
                continue
            for who, fams in (('model', rep[1]), ('spec', rep[2])):
                c, dups = mpsim.canon_fams(fams)
                if dups:
                    out[ri].append(('%s output has duplicates: %s' % (who, dups[0]), i))
                    continue
                d = mpsim.diff_canon(canon, c, 'real', who)
                if d:
                    out[ri].append((d, i))
        for _, after, i in r.dead_pending:
            rep = mpsim.parse_dead_reply(replies[pos])
            pos += 1
            if rep is None or set(rep) != after or len(set(rep)) != len(rep):
                out[ri].append(('mark_process_dead: model listing %r, real %r' % (rep, sorted(after)), i))
    return out, traces


# ================================================================================================== scenarios
def mdef(kind, name, labels=(), mode='', layout='', help_text=None):
    return {'kind': kind, 'name': name, 'help': help_text if help_text is not None else 'help of ' + name,
            'labels': list(labels), 'mode': mode, 'layout': layout}


def B(x):
    return lib.bits_of(x)


def corpus():
    """hand-written scenarios: every gauge mode with ties / negative / signed zero / children in only some processes /
    death / reuse; counters, summaries, histograms of every layout over three processes"""
    out = []
    for mode in modes():
        pool = [mdef('gauge', 'g', (), mode), mdef('gauge', 'gl', ['l'], mode, help_text='labelled "g"\né')]
        s = [['create', 1, 0], ['create', 2, 0], ['set', 1, 0, [], B(1.0), B(10.0)], ['set', 2, 0, [], B(2.0), B(11.0)],
             ['set', 3, 0, [], B(2.0), B(11.0)],                       # tie in value and in time
             ['set', 1, 0, [], B(-1.0), B(12.0)], ['set', 3, 0, [], B(-1.0), B(12.0)],
             ['set', 2, 0, [], B(-0.0), B(12.0)], ['set', 1, 0, [], B(0.0), B(13.0)],
             ['child', 2, 1, ['x']], ['set', 1, 1, ['x'], B(5.0), B(14.0)], ['set', 3, 1, ['y'], B(-5.0), B(14.0)],
             ['inc', 2, 1, ['x'], B(2.5)], ['dec', 2, 1, [''], B(0.5)],
             ['dead', 1], ['set', 2, 0, [], B(3.0), B(15.0)], ['dead', 3],
             ['reuse', 1], ['create', 1, 0], ['set', 1, 1, ['y'], B(7.0), B(16.0)], ['set', 1, 0, [], B(9.0), B(16.0)],
             ['dead', 2], ['dead', 1], ['reuse', 2], ['set', 2, 1, ['é'], B(NAN), B(17.0)],
             ['set', 3, 1, ['é'], B(1.0), B(17.0)], ['set', 2, 0, [], B(INF), B(18.0)], ['dead', 7]]
        out.append({'pool': pool, 'steps': s})
        # strictly ordered values, extremum held by the first / middle / last pid in listing order
        for perm in ([1.0, 2.0, 3.0], [3.0, 1.0, 2.0], [2.0, 3.0, 1.0], [-2.0, -2.0, -3.0]):
            s = []
            for j, v in enumerate(perm):
                s.append(['set', [10, 11, 12][j], 0, [], B(v), B(20.0 + j)])
            s += [['set', 10, 0, [], B(perm[1]), B(21.0)], ['dead', 11], ['set', 12, 0, [], B(0.5), B(21.0)]]
            out.append({'pool': [mdef('gauge', 'g', (), mode)], 'steps': s})
    pool = [mdef('counter', 'c'), mdef('counter', 'cl', ['l', 'k']), mdef('summary', 's', ['l']), mdef('summary', 's_u')]
    out.append({'pool': pool, 'steps': [
        ['create', 1, 0], ['create', 2, 0], ['inc', 1, 0, [], B(1.0)], ['inc', 2, 0, [], B(2.0)], ['inc', 3, 0, [], B(0.5)],
        ['inc', 1, 1, ['x', ''], B(1.0)], ['inc', 2, 1, ['x', ''], B(2.0)], ['inc', 2, 1, ['', 'x'], B(4.0)],
        ['child', 3, 1, ['é', 'a"b\\c']], ['obs', 1, 2, ['x'], B(2.5)], ['obs', 2, 2, ['x'], B(-0.5)],
        ['obs', 3, 2, ['y'], B(0.0)], ['obs', 1, 3, [], B(7.75)], ['dead', 1], ['inc', 2, 0, [], B(1.0)], ['reuse', 1],
        ['inc', 1, 0, [], B(1024.0)], ['inc', 1, 1, ['x', ''], B(0.125)], ['dead', 2], ['dead', 3], ['reuse', 3],
        ['obs', 3, 2, ['x'], B(1.0)], ['inc', 3, 0, [], B(NAN)]]})
    for layout in sorted(LAYOUTS):
        pool = [mdef('histogram', 'h', (), '', layout), mdef('histogram', 'hl', ['l'], '', layout)]
        s = [['create', 1, 0], ['create', 2, 0]]
        for j, (b, _) in enumerate(LAYOUTS[layout]):
            if b != INF and float(b) * 8 == int(float(b) * 8) and abs(b) < 2 ** 41:
                s.append(['obs', 1 + j % 3, 0, [], B(b)])
                s.append(['obs', 1 + (j + 1) % 3, 1, ['x'], B(b)])
        for j, a in enumerate(HIST_AMOUNTS):
            s.append(['obs', 1 + j % 3, j % 2, ['x', 'y', ''][j % 3:j % 3 + 1], B(a)])
        s += [['dead', 2], ['obs', 1, 0, [], B(INF)], ['reuse', 2], ['obs', 2, 0, [], B(0.5)], ['child', 2, 1, ['é']],
              ['obs', 3, 1, ['x'], B(NAN)]]
        out.append({'pool': pool, 'steps': s})
    out += foreign_corpus()
    out += identity_corpus()
    out += race_corpus()
    out += sparse_corpus()
    for k, sc in enumerate(out):
        sc.setdefault('age', AGES[k % 4])
    return out


def identity_corpus():
    """look-alike string identities together; idle-looking files that change between two collections"""
    out = []
    for g in ID_GROUPS:
        a, b, c = g[0], g[1], g[2]
        for mode in ('all', 'liveall', 'min', 'max', 'sum', 'livesum'):
            pool = [mdef('gauge', 'g', (), mode), mdef('gauge', 'gl', ['l'], mode), mdef('counter', 'c')]
            out.append({'pool': pool, 'steps': [
                ['set', a, 0, [], B(1.0), B(10.0)], ['set', b, 0, [], B(2.0), B(11.0)], ['set', c, 0, [], B(4.0), B(12.0)],
                ['set', b, 1, ['x'], B(-1.0), B(13.0)], ['set', c, 1, ['x'], B(8.0), B(13.0)], ['inc', a, 2, [], B(1.0)], ['inc', b, 2, [], B(2.0)],
                ['dead', b], ['set', g[3], 0, [], B(16.0), B(14.0)], ['reuse', b], ['set', b, 0, [], B(32.0), B(15.0)], ['dead', a], ['dead', c]]})
    # a file that looks idle is still re-read: the same worker keeps updating between collections
    for age in ('1h', '3s', 'now', 'keep'):
        pool = [mdef('counter', 'c'), mdef('gauge', 'g', (), 'all'), mdef('histogram', 'h', (), '', 'small')]
        out.append({'age': age, 'pool': pool, 'steps': [
            ['inc', 1, 0, [], B(1.0)], ['inc', 1, 0, [], B(2.0)], ['inc', 2, 0, [], B(4.0)], ['inc', 1, 0, [], B(8.0)],
            ['set', 1, 1, [], B(1.0), B(10.0)], ['set', 1, 1, [], B(2.0), B(11.0)], ['obs', 2, 2, [], B(1.0)], ['obs', 2, 2, [], B(3.0)],
            ['dead', 1], ['inc', 2, 0, [], B(16.0)], ['reuse', 1], ['inc', 1, 0, [], B(32.0)]]})
    return out


def sparse_corpus():
    """SPARSE collections through ONE collector object: collect; [no collection:] a worker dies, a new worker with the same
    pid re-creates its live-gauge files with other values / fewer / more children in another order; collect — for every
    live mode; spans without a death; a file that grows past its initial size inside a span and is re-created small"""
    out = []
    live = [m for m in modes() if m.startswith(LIVE)]
    S = lambda pid, mi, lvs, v, t: ['set', pid, mi, lvs, B(v), B(t)]
    for a, mode in enumerate(live):
        pool = [mdef('gauge', 'g', (), mode), mdef('gauge', 'gl', ['l'], mode), mdef('counter', 'c'),
                mdef('gauge', 'ga', ['l'], live[(a + 2) % len(live)]), mdef('gauge', 'gn', (), mode[len(LIVE):])]
        setup = [S(1, 0, [], 10.0, 10.0), S(2, 0, [], 20.0, 11.0), S(1, 1, ['x'], 1.0, 12.0), S(1, 1, ['y'], 2.0, 13.0), S(1, 1, ['z'], 3.0, 14.0),
                 S(2, 1, ['y'], -4.0, 15.0), S(1, 3, ['x'], 0.5, 16.0), S(1, 4, [], 6.0, 17.0), ['inc', 1, 2, [], B(1.0)], ['inc', 2, 2, [], B(2.0)]]
        spans = [
            [['dead', 1], S(1, 0, [], 7.0, 20.0)],                                                             # other value
            [['dead', 1], S(1, 1, ['y'], 5.0, 20.0)],                                                          # fewer children
            [['dead', 1], S(1, 1, ['z'], 9.0, 20.0), S(1, 1, ['w'], 8.0, 21.0), S(1, 1, ['x'], 7.0, 22.0), S(1, 1, ['y'], 6.0, 23.0),
             S(1, 0, [], -1.0, 24.0), S(1, 3, ['q'], 2.5, 25.0)],                                              # more children, other order
            [['dead', 1], ['reuse', 1], S(1, 0, [], 3.0, 20.0), ['dead', 1], S(1, 0, [], 4.0, 21.0), ['dead', 2], ['inc', 1, 2, [], B(4.0)]],
            [['dead', 2], ['dead', 1], S(2, 1, ['x'], 1.5, 20.0), S(1, 1, ['x'], 2.5, 20.0), S(2, 0, [], 0.0, 21.0)],
            [S(1, 0, [], 11.0, 20.0), ['inc', 2, 2, [], B(8.0)], S(3, 1, ['y'], 12.0, 21.0), S(1, 4, [], -6.0, 22.0)],   # no death: plain staleness
        ]
        for j, span in enumerate(spans):
            tail = [S(2, 0, [], 21.0, 30.0), ['hold'], ['dead', 1], ['dead', 2], S(2, 0, [], 22.0, 31.0), ['release'], S(1, 0, [], 1.0, 32.0)]
            out.append({'pool': pool, 'kept': j != 5 or a % 2 == 0, 'quiet': len(setup) - 1,
                        'steps': setup + [['hold']] + span + [['release']] + tail})
    # growth past the initial file size inside a span, then re-creation (small again) inside the next span
    for mode in ('liveall', 'livesum', 'all'):
        pool = [mdef('gauge', 'gl', ['l'], mode), mdef('counter', 'cl', ['l'])]
        grow = [S(1, 0, ['v%d' % n], float(n % 7), 20.0) for n in range(1300)] + [['inc', 1, 1, ['v%d' % n], B(1.0)] for n in range(0, 1300, 2)]
        out.append({'pool': pool, 'kept': True, 'steps': [S(1, 0, ['v0'], 1.0, 10.0), S(2, 0, ['v0'], 2.0, 11.0), ['inc', 1, 1, ['v0'], B(1.0)], ['hold']] + grow + [
            ['release'], ['hold'], ['dead', 1], S(1, 0, ['v1'], 5.0, 30.0), ['release'], S(2, 0, ['v1'], 6.0, 31.0)]})
    return out


def race_corpus():
    """collections RACING with mark_process_dead: four workers each hold a counter, a summary, a histogram, a live gauge of
    the mode, a second live gauge of another mode and a non-live gauge; between the collector's listing and its reads a
    subset of the workers (first / middle / last of the listing, two, all) is reaped, so their live-gauge files are gone
    when the collector gets to them — with files of every type listed after (and before) them, in every placement"""
    out = []
    live = [m for m in modes() if m.startswith(LIVE)]
    pids = [10, 11, 12, 123]
    subsets = [[10], [11], [123], [10, 12], [11, 123], [10, 11, 12, 123], [12, 7]]
    places = list(mpsim.RACE_PLACES) + ['shuffle:1', 'shuffle:2']
    k = 0
    for a, mode in enumerate(live):
        pool = [mdef('counter', 'jobs', ['queue']), mdef('summary', 'job_seconds'), mdef('histogram', 'h', (), '', 'small'),
                mdef('gauge', 'inflight', (), mode), mdef('gauge', 'gl', ['l'], live[(a + 1) % len(live)]),
                mdef('gauge', 'g', (), mode[len(LIVE):])]
        setup = []
        for j, pid in enumerate(pids):
            setup += [['inc', pid, 0, ['default'], B(3.0 + j)], ['obs', pid, 1, [], B(0.5 + j)], ['obs', pid, 2, [], B([0.5, 2.0, 8.0, 1.0][j])],
                      ['set', pid, 3, [], B([10.0, 20.0, 40.0, -5.0][j]), B(10.0 + j)], ['set', pid, 4, [['x'], ['y']][j % 2], B(1.0 + j), B(20.0 + j)],
                      ['set', pid, 5, [], B(2.0 - j), B(30.0 + j)]]
        for sub in subsets:
            for via in ('glob', 'merge'):
                place = places[k % len(places)]
                k += 1
                tail = [['race', sub, via, place], ['inc', 11, 0, ['default'], B(1.0)], ['reuse', sub[0]],
                        ['set', sub[0], 3, [], B(7.0), B(50.0)], ['race', [sub[0], 11], via, places[(k + 3) % len(places)]]]
                out.append({'pool': pool, 'steps': setup + tail, 'quiet': len(setup)})
    # the demo shape: three workers, the doomed worker's file met first, everything else after it
    pool = [mdef('counter', 'jobs', ['queue']), mdef('gauge', 'inflight', (), 'livesum'), mdef('summary', 'job_seconds')]
    for place in ('first', 'middle', 'last'):
        for via in ('glob', 'merge'):
            s = []
            for pid, (n, level, obs) in ((101, (3.0, 10.0, 1.5)), (202, (4.0, 20.0, 2.5)), (303, (5.0, 40.0, 0.5))):
                s += [['inc', pid, 0, ['default'], B(n)], ['set', pid, 1, [], B(level), B(10.0)], ['obs', pid, 2, [], B(obs)]]
            out.append({'pool': pool, 'steps': s + [['race', [101], via, place], ['race', [303, 202], via, place]]})
    return out


def F(pid, mi, lvs, pairs, total):
    return ['foreign', pid, mi, list(lvs), [[t, B(c)] for t, c in pairs], B(total)]


def foreign_corpus():
    """foreign / stale store files with non-canonical `le` spellings; histograms whose label names sort after 'le'"""
    pool = [mdef('histogram', 'h', (), '', 'small'), mdef('histogram', 'hz', ['zone'], '', 'big'),
            mdef('histogram', 'hx', ['l'], '', 'dec'), mdef('histogram', 'hd', (), '', 'default'),
            mdef('histogram', 'hm', ['l', 'zone'], '', 'small')]
    S = []
    # the foreign file is the only file
    S.append([F(5, 0, [], [('1', 2.0), ('+inf', 1.0)], 3.0)])
    # several spellings of one bound inside ONE file: distinct keys, all count
    S.append([F(5, 0, [], [('1', 1.0), ('1.0', 2.0), ('1.00', 4.0), ('Infinity', 1.0), ('inf', 2.0)], 7.75),
              ['obs', 1, 0, [], B(1.0)], ['obs', 2, 0, [], B(3.0)]])
    # live first, foreign later; and the other way round (the listing decides which is read first)
    S.append([['obs', 1, 0, [], B(1.0)], F(5, 0, [], [('1', 2.0), ('2.50', 1.0), ('+inf', 0.0)], 4.0),
              ['obs', 2, 0, [], B(2.5)], F(9, 0, [], [('1.00', 1.0), ('INF', 2.0)], 1.0), ['obs', 1, 0, [], B(8.0)]])
    S.append([F(6, 0, [], [('1e0', 1.0), ('Infinity', 0.0)], 0.5), F(100, 0, [], [('1', 1.0), ('inf', 0.0)], 0.5),
              ['obs', 3, 0, [], B(0.5)], ['obs', 1, 0, [], B(2.0)], F(77, 0, [], [('25e-1', 2.0), ('+Inf', 0.0)], 4.0)])
    # the same bound in three spellings over three files, next to two live processes (label name after 'le')
    S.append([['obs', 1, 1, ['a'], B(1.0)], ['obs', 2, 1, ['a'], B(1000000.0)], F(5, 1, ['a'], [('1e6', 1.0), ('+Inf', 0.0)], 2.0),
              F(6, 1, ['a'], [('1000000.0', 2.0), ('inf', 0.0)], 4.0), F(8, 1, ['a'], [('1e+06', 4.0), ('+inf', 1.0)], 8.0),
              ['obs', 1, 1, ['b'], B(2.0)], ['dead', 1], ['obs', 2, 1, ['a'], B(2000000.0)]])
    # a bound only the foreign file has
    S.append([['obs', 1, 0, [], B(1.0)], F(5, 0, [], [('1.5e+010', 1.0), ('+Inf', 0.0)], 1024.0),
              F(9, 0, [], [('15000000000.0', 2.0), ('4', 1.0), ('Infinity', 1.0)], 2.0), ['obs', 2, 0, [], B(2.5)]])
    S.append([F(8, 1, ['a'], [('1e16', 1.0), ('1e+16', 2.0), ('10000000000000000.0', 4.0), ('+inf', 0.0)], 0.0),
              ['obs', 7, 1, ['a'], B(1.0)], F(8, 1, ['a'], [('1e16', 3.0)], 1.0)])
    # a label set / a histogram no live process has
    S.append([['obs', 1, 1, ['a'], B(0.5)], F(5, 1, ['only-foreign'], [('1', 1.0), ('1e6', 2.0), ('inf', 3.0)], 7.75),
              ['obs', 2, 1, ['a'], B(3.0)]])
    S.append([['obs', 1, 0, [], B(0.5)], F(5, 2, ['x'], [('.1', 1.0), ('1', 1.0), ('10', 2.0), ('+inf', 1.0)], 2.5),
              F(6, 2, ['x'], [('0.10', 1.0), ('1e1', 1.0), ('Infinity', 0.0)], 0.5), F(6, 2, ['y'], [('inf', 2.0)], 3.0)])
    # death and reuse of live processes around a foreign file; the foreign file extended (counts overwritten)
    S.append([['obs', 1, 0, [], B(1.0)], F(5, 0, [], [('1', 2.0), ('inf', 1.0)], 3.0), ['dead', 1], ['reuse', 1],
              ['obs', 1, 0, [], B(2.0)], F(5, 0, [], [('1', 4.0), ('1.0', 1.0)], 5.0), ['dead', 5], ['obs', 2, 0, [], B(8.0)]])
    # the default layout next to other spellings of its bounds
    S.append([['obs', 1, 3, [], B(0.5)], F(5, 3, [], [('0.50', 1.0), ('.5', 2.0), ('5e-1', 4.0), ('1', 1.0), ('10', 1.0), ('+inf', 0.0)], 7.75),
              ['obs', 2, 3, [], B(0.25)], ['obs', 1, 3, [], B(7.5)]])
    # many foreign files: the listing mixes them with the live ones
    S.append([['obs', 1, 0, [], B(1.0)], ['obs', 12, 0, [], B(2.0)]] +
             [F(q, 0, [], [(['1', '1.0', '1.00', '1e0'][j % 4], 1.0), (['inf', '+inf', 'Infinity', '+Inf'][j % 4], 1.0)], 1.0)
              for j, q in enumerate(FOREIGN_PIDS)] + [['obs', 123, 0, [], B(3.0)]])
    # labelled histograms whose label names sort after 'le', observed in two and three processes
    S.append([['obs', 1, 1, ['a'], B(1.0)], ['obs', 2, 1, ['a'], B(2.0)], ['obs', 2, 1, ['b'], B(1000000.0)], ['child', 3, 1, ['a']],
              ['obs', 1, 4, ['x', 'a'], B(1.0)], ['obs', 2, 4, ['x', 'a'], B(2.5)], ['obs', 3, 4, ['', 'b'], B(8.0)],
              ['dead', 2], ['obs', 1, 1, ['a'], B(0.5)], F(5, 4, ['x', 'a'], [('1', 1.0), ('inf', 1.0)], 2.0)])
    return [{'pool': pool, 'steps': s} for s in S] + le_label_corpus() + settime_corpus() + reset_corpus()


def reset_corpus():
    """Counter.reset(): that worker's contribution to the series is zero again, later incs count from zero"""
    c, cl = mdef('counter', 'c'), mdef('counter', 'cl', ['l'])
    other = [mdef('summary', 's'), mdef('histogram', 'h', (), '', 'small'), mdef('gauge', 'g', (), 'livesum')]
    I = lambda pid, mi, lvs, x: ['inc', pid, mi, lvs, B(x)]
    R = lambda pid, mi, lvs: ['reset', pid, mi, lvs]
    S = [
        [I(1, 0, [], 3.0), R(1, 0, [])],                                                        # -> 0
        [I(1, 0, [], 3.0), R(1, 0, []), I(1, 0, [], 2.0)],                                      # -> 2
        [I(1, 0, [], 3.0), I(2, 0, [], 4.0), R(1, 0, []), I(2, 0, [], 1.0), I(1, 0, [], 0.5)],  # only the other's part remains
        [['create', 1, 0], R(1, 0, []), ['child', 2, 1, ['x']], R(2, 1, ['x']), R(3, 1, ['y'])],  # never incremented: stays 0, exists
        [I(1, 1, ['x'], 1.0), I(1, 1, ['y'], 2.0), I(2, 1, ['x'], 4.0), R(1, 1, ['x']), I(1, 1, ['x'], 8.0), R(2, 1, ['y'])],   # siblings untouched
        [I(7, 0, [], 5.0), I(2, 0, [], 1.0), ['dead', 7], ['reuse', 7], R(7, 0, []), I(7, 0, [], 1.0)],     # the FILE cell of the reused pid
        [I(1, 0, [], 1.0), I(2, 0, [], 2.0), I(3, 0, [], 4.0), R(2, 0, []), ['dead', 2], R(3, 0, []), ['reuse', 2], I(2, 0, [], 8.0),
         R(1, 0, []), R(1, 0, []), I(1, 0, [], 16.0)],
        [I(1, 0, [], 3.0), ['obs', 1, 2, [], B(1.0)], ['obs', 1, 3, [], B(2.5)], ['set', 1, 4, [], B(7.0), B(10.0)], R(1, 0, []),
         ['obs', 2, 2, [], B(2.0)], I(2, 0, [], 1.0), R(2, 0, []), ['obs', 2, 3, [], B(1.0)], ['dead', 1]],     # neighbours share nothing
        [I(1, 0, [], NAN), I(2, 0, [], INF), R(1, 0, []), I(1, 0, [], 1.0), R(2, 0, []), I(2, 0, [], 2.0)],   # reset clears NaN / inf
    ]
    return [{'pool': [c, cl] + other, 'steps': s} for s in S]


def settime_corpus():
    """Gauge.set_to_current_time(): the value is the (scripted) clock reading, the set-time that same reading"""
    def T(pid, mi, lvs, t):
        return ['settime', pid, mi, lvs, B(t), B(t)]
    out = []
    for mode in ('mostrecent', 'livemostrecent'):
        pool = [mdef('gauge', 'g', (), mode), mdef('gauge', 'gl', ['l'], mode)]
        out.append({'pool': pool, 'steps': [['set', 1, 0, [], B(5.0), B(10.0)], T(2, 0, [], 20.0)]})                  # -> 20.0
        out.append({'pool': pool, 'steps': [T(2, 0, [], 20.0), ['set', 1, 0, [], B(7.0), B(30.0)]]})                  # -> 7.0
        out.append({'pool': pool, 'steps': [T(1, 0, [], 12.0)]})                                                      # only settime ever
        out.append({'pool': pool, 'steps': [T(1, 1, ['x'], 12.0), ['child', 2, 1, ['x']], T(2, 1, ['y'], 12.0), T(3, 1, ['x'], 11.5)]})
        out.append({'pool': pool, 'steps': [['set', 1, 0, [], B(5.0), B(10.0)], T(2, 0, [], 20.0), ['dead', 2], ['set', 3, 0, [], B(1.0), B(15.0)],
                                            ['reuse', 2], T(2, 0, [], 16.0), ['dead', 3], ['dead', 1]]})
        out.append({'pool': pool, 'steps': [T(1, 0, [], 20.0), ['set', 2, 0, [], B(3.0), B(20.0)], ['set', 3, 0, [], B(20.0), B(20.0)],
                                            T(2, 0, [], 21.0), ['set', 1, 0, [], B(-1.0), B(21.0)]]})               # ties in time
    for mode in ('all', 'liveall', 'min', 'livemin', 'max', 'livemax', 'sum', 'livesum'):
        pool = [mdef('gauge', 'g', (), mode), mdef('gauge', 'gl', ['l'], mode)]
        out.append({'pool': pool, 'steps': [T(1, 0, [], 10.0), ['set', 2, 0, [], B(12.5), B(11.0)], T(3, 0, [], 12.0), T(1, 1, ['x'], 12.5),
                                            ['inc', 1, 0, [], B(0.5), B(13.0)], ['dead', 3], T(2, 1, ['x'], 14.0), ['reuse', 3], T(3, 0, [], 14.0)]})
    return out


def le_label_corpus():
    """a USER label named `le` on counters, summaries and gauges (it means nothing special there)"""
    out = []
    out.append({'pool': [mdef('counter', 'c', ['le'])], 'steps': [
        ['inc', 1, 0, ['1'], B(1.0)], ['inc', 2, 0, ['1'], B(2.0)], ['inc', 1, 0, ['0.5'], B(4.0)], ['inc', 2, 0, ['x'], B(8.0)],
        ['dead', 1], ['inc', 3, 0, ['1'], B(0.5)]]})
    out.append({'pool': [mdef('summary', 's', ['le']), mdef('summary', 't', ['a', 'le'])], 'steps': [
        ['obs', 1, 0, ['x'], B(1.0)], ['obs', 2, 0, ['x'], B(2.0)], ['obs', 1, 0, [''], B(4.0)], ['obs', 2, 1, ['u', '1e3'], B(0.5)],
        ['obs', 3, 1, ['u', '1e3'], B(0.25)], ['obs', 3, 1, ['u', 'é'], B(1.0)]]})
    out.append({'pool': [mdef('gauge', 'ga', ['le'], 'all'), mdef('gauge', 'gs', ['le', 'k'], 'livesum'), mdef('gauge', 'gm', ['le'], 'min')],
                'steps': [['set', 1, 0, ['1'], B(3.0), B(10.0)], ['set', 2, 0, ['1'], B(4.0), B(10.0)], ['set', 1, 1, ['+Inf', 'x'], B(1.0), B(11.0)],
                          ['inc', 2, 1, ['+Inf', 'x'], B(2.0), B(11.0)], ['set', 1, 2, ['x'], B(-1.0), B(12.0)], ['set', 2, 2, ['x'], B(-2.0), B(12.0)],
                          ['dead', 2], ['set', 3, 1, ['0.5', 'y'], B(8.0), B(13.0)]]})
    out.append({'pool': [mdef('counter', 'c', ['le']), mdef('histogram', 'h', (), '', 'small'), mdef('histogram', 'hz', ['zone'], '', 'dec')],
                'steps': [['inc', 1, 0, ['+Inf'], B(1.0)], ['obs', 1, 1, [], B(1.0)], ['inc', 2, 0, ['+Inf'], B(2.0)], ['obs', 2, 1, [], B(3.0)],
                          ['inc', 2, 0, ['1.0'], B(4.0)], ['obs', 1, 2, ['a'], B(0.5)], ['inc', 1, 0, ['inf'], B(8.0)],
                          F(5, 1, [], [('1', 1.0), ('inf', 0.0)], 1.0), ['inc', 3, 0, ['+Inf'], B(0.5)]]})
    out.append({'pool': [mdef('counter', 'cz', ['le', 'zone']), mdef('summary', 's', ['le', 'k'])], 'steps': [
        ['inc', 1, 0, ['1', 'a'], B(1.0)], ['inc', 2, 0, ['1', 'a'], B(2.0)], ['inc', 2, 0, ['2', 'a'], B(4.0)],
        ['obs', 1, 1, ['0.5', ''], B(2.5)], ['obs', 2, 1, ['0.5', ''], B(-0.5)], ['reuse', 1], ['inc', 1, 0, ['1', 'a'], B(8.0)]]})
    return out


def gen_foreign_step(rng, pool, cands, mi):
    md = pool[mi]
    k = len(md['labels'])
    lvs = rng.choice(cands[mi]) if rng.random() < 0.6 or not k else [rng.choice(LABEL_VALUES + ['foreign']) for _ in range(k)]
    own = [b for b, _ in LAYOUTS[md['layout']] if b in SPELLINGS and b != INF]
    bounds = []
    for _ in range(rng.randint(0, 3)):
        b = rng.choice(own) if own and rng.random() < 0.55 else rng.choice([1.5e10, 1e16, 4.0, 1e6, 0.5, 1.0, 10.0, 2.5])
        if b not in bounds:
            bounds.append(b)
    bounds.append(INF)
    pairs = []
    for b in bounds:
        for text in rng.sample(SPELLINGS[b], 2 if rng.random() < 0.25 else 1):
            pairs.append([text, B(rng.choice([0.0, 1.0, 1.0, 2.0, 3.0, 5.0, 0.5]))])
    return ['foreign', rng.choice(FOREIGN_PIDS), mi, lvs, pairs, B(rng.choice(SUM_ANY))]


def gen_respawn_span(rng, pool, cands, pids, lg):
    """[writes of p to live gauges] (collected) hold; dead p; the same pid writes live gauges again — other values, other
    children, another order —, other processes act; release (collected)"""
    p = rng.choice(pids)
    t = float(rng.randint(1, 40))

    def W(pid, mi):
        md = pool[mi]
        lvs = rng.choice(cands[mi]) if rng.random() < 0.7 or not md['labels'] else gen_lvs(rng, md)
        return ['set', pid, mi, lvs, B(gen_value(rng, md, 'set')), B(t + rng.randint(0, 5))]
    out = [W(p, rng.choice(lg)) for _ in range(rng.randint(1, 3))] + [['hold']]
    if rng.random() < 0.3:
        out.append(W(rng.choice(pids), rng.choice(lg)))
    out.append(['dead', p])
    if rng.random() < 0.3:
        out.append(['reuse', p])
    for _ in range(rng.randint(1, 4)):
        out.append(W(p if rng.random() < 0.8 else rng.choice(pids), rng.choice(lg)))
    if rng.random() < 0.25:
        out.append(['dead', rng.choice(pids)])
    return out + [['release']]


def gen_race_step(rng, pids):
    place = rng.choice(mpsim.RACE_PLACES + ('shuffle:%d' % rng.randrange(1000),) * 3)
    return ['race', rng.sample(pids, rng.randint(1, min(3, len(pids)))), rng.choice(['glob', 'glob', 'merge']), place]


def gen_metric(rng, i, all_modes):
    r = rng.random()
    labels = rng.choice(LABEL_NAMES) if rng.random() < 0.55 else []
    if labels and rng.random() < (0.45 if 0.30 <= r < 0.47 else 0.2):
        labels = rng.choice(LATE_LABEL_NAMES)
    if labels and not 0.30 <= r < 0.47 and rng.random() < 0.16:
        labels = rng.choice(LE_LABEL_NAMES)         # not on histograms: `le` is reserved there
    suffix = rng.choice(['', '_a', '_b_c'])
    if r < 0.17:
        return mdef('counter', 'c%d%s' % (i, suffix), labels)
    if r < 0.30:
        return mdef('summary', 's%d%s' % (i, suffix), labels)
    if r < 0.47:
        return mdef('histogram', 'h%d%s' % (i, suffix), labels, '', rng.choice(sorted(LAYOUTS)))
    return mdef('gauge', 'g%d%s' % (i, suffix), labels, rng.choice(all_modes))


def gen_lvs(rng, md):
    """label values for one child; a label NAMED `le` mostly gets numeric-looking text"""
    return [rng.choice(LE_LABEL_VALUES if n == 'le' and rng.random() < 0.85 else LABEL_VALUES) for n in md['labels']]


def gen_value(rng, md, op):
    kind = md['kind']
    r = rng.random()
    if kind == 'counter':
        return rng.choice([NAN, INF]) if r < 0.015 else rng.choice(SUM_POS)
    if kind == 'summary':
        return rng.choice(SPECIAL) if r < 0.015 else rng.choice(SUM_ANY)
    if kind == 'histogram':
        if r < 0.02:
            return rng.choice([NAN, INF, -INF])
        if r < 0.45:    # exactly on a bound, when the bound is harmless for the exact _sum
            b = rng.choice(LAYOUTS[md['layout']])[0]
            if b != INF and b * 8 == int(b * 8) and abs(b) < 2 ** 41:
                return b
        return rng.choice(HIST_AMOUNTS)
    if md['mode'] in ('sum', 'livesum'):
        return rng.choice(SPECIAL) if r < 0.02 else rng.choice(SUM_ANY)
    if r < 0.05:
        return rng.choice(SPECIAL)
    return rng.choice(SUM_ANY + SUM_ANY + ANY_EXTRA)


def gen_scenario(rng, all_modes, long=False):
    pids = rng.sample(PID_POOL, rng.choice([1, 2, 2, 3, 3, 3, 4, 4]))
    if rng.random() < 0.2:      # identities that are strings, look-alikes together
        g = rng.choice(ID_GROUPS)
        pids = rng.sample(g, rng.choice([2, 3, 3, 4])) + ([rng.choice(PID_POOL)] if rng.random() < 0.3 else [])
    pool = [gen_metric(rng, i, all_modes) for i in range(rng.randint(1, 5))]
    cands = []
    for md in pool:
        cands.append([gen_lvs(rng, md) for _ in range(rng.randint(1, 3))] if md['labels'] else [[]])
    steps = []
    t = float(rng.randint(1, 5))
    for _ in range(rng.randint(25, 60) if long else rng.randint(6, 26)):
        r = rng.random()
        pid = rng.choice(pids)
        mi = rng.randrange(len(pool))
        md = pool[mi]
        lvs = rng.choice(cands[mi])
        if r < 0.07:
            steps.append(['dead', pid])
        elif r < 0.11:
            steps.append(['reuse', pid])
        elif r < 0.18:
            steps.append(['create', pid, mi])
        elif r < 0.25:
            steps.append(['child', pid, mi, lvs])
        elif md['kind'] == 'counter':
            if rng.random() < 0.06:
                steps.append(['reset', pid, mi, lvs])
            else:
                steps.append(['inc', pid, mi, lvs, B(gen_value(rng, md, 'inc'))])
        elif md['kind'] in ('summary', 'histogram'):
            steps.append(['obs', pid, mi, lvs, B(gen_value(rng, md, 'obs'))])
        else:
            q = rng.random()
            if rng.random() < 0.7:
                t += float(rng.choice([1, 1, 2, 0.5]))     # otherwise the clock stands still: a tie
            op = 'set' if q < 0.58 else ('settime' if q < 0.72 else ('inc' if q < 0.87 else 'dec'))
            steps.append([op, pid, mi, lvs, B(t if op == 'settime' else gen_value(rng, md, op)), B(t)])
    if rng.random() < 0.15:     # foreign / stale histogram store files at random positions
        hs = [j for j, md in enumerate(pool) if md['kind'] == 'histogram']
        if not hs or rng.random() < 0.25:   # a histogram no live process has
            pool.append(mdef('histogram', 'hf', rng.choice(LABEL_NAMES + LATE_LABEL_NAMES) if rng.random() < 0.5 else [], '',
                             rng.choice(sorted(LAYOUTS))))
            k = len(pool[-1]['labels'])
            cands.append([[rng.choice(LABEL_VALUES) for _ in range(k)]] if k else [[]])
            hs.append(len(pool) - 1)
        for _ in range(rng.randint(1, 3)):
            steps.insert(rng.randint(len(steps) // 3, len(steps)), gen_foreign_step(rng, pool, cands, rng.choice(hs)))
    if rng.random() < 0.45:     # collections racing with mark_process_dead (see World.race_collect), at random positions
        for _ in range(rng.choice([1, 1, 2, 3])):
            steps.insert(rng.randint(len(steps) // 3, len(steps)), gen_race_step(rng, pids))
    scen = {'pool': pool, 'steps': steps, 'age': rng.choice(AGES)}
    # SPARSE collections: quiet spans (hold ... release) at random places; one collector object kept for the scenario
    if rng.random() < 0.6:
        scen['kept'] = True
    if rng.random() < 0.45:
        for _ in range(rng.choice([1, 1, 2, 3])):
            a = rng.randint(len(steps) // 4, len(steps))
            steps.insert(min(a + rng.randint(1, 8), len(steps)), ['release'])
            steps.insert(a, ['hold'])
    lg = [j for j, md in enumerate(pool) if md['kind'] == 'gauge' and md['mode'].startswith(LIVE)]
    if lg and rng.random() < 0.5:       # a span in which a worker dies and its pid is re-used on the same live-gauge files
        for _ in range(rng.choice([1, 1, 2])):
            steps[rng.randint(len(steps) // 3, len(steps)):0] = gen_respawn_span(rng, pool, cands, pids, lg)
    return scen


# ================================================================================================== real fork
def gen_fork_scenario(rng, all_modes):
    pool = [gen_metric(rng, i, all_modes) for i in range(rng.randint(2, 5))]
    workers = []
    t = 100.0
    for w in range(rng.randint(2, 4)):
        sc = gen_scenario(rng, all_modes)
        ops = []
        for st in sc['steps']:
            if st[0] in ('dead', 'reuse', 'race', 'hold', 'release'):
                continue
            mi = st[2] % len(pool)
            md = pool[mi]
            st = list(st)
            st[1], st[2] = w, mi
            if st[0] in ('create', 'child'):
                if st[0] == 'child':
                    st[3] = [rng.choice(LABEL_VALUES[:3]) for _ in md['labels']]
                ops.append(st)
                continue
            lvs = [rng.choice(LABEL_VALUES[:3]) for _ in md['labels']]
            if md['kind'] == 'counter':
                ops.append(['reset', w, mi, lvs] if rng.random() < 0.06 else ['inc', w, mi, lvs, B(gen_value(rng, md, 'inc'))])
            elif md['kind'] in ('summary', 'histogram'):
                ops.append(['obs', w, mi, lvs, B(gen_value(rng, md, 'obs'))])
            else:
                if rng.random() < 0.7:
                    t += 1.0
                op = rng.choice(['set', 'set', 'inc', 'dec', 'settime'])
                ops.append([op, w, mi, lvs, B(t if op == 'settime' else gen_value(rng, md, 'set')), B(t)])
        workers.append(ops)
    dead = [w for w in range(len(workers)) if rng.random() < 0.5]
    return {'pool': pool, 'workers': workers, 'dead': dead, 'fork': True, 'age': rng.choice(AGES)}


def oracle_apply(oracle, pid, st):
    op, mi = st[0], st[2]
    md = oracle.pool[mi]
    if op == 'create':
        if not md['labels']:
            oracle.create_child(pid, mi, ())
        return
    lvs = lvs_of(md, st[3])
    oracle.create_child(pid, mi, lvs)
    if op != 'child':
        oracle.update(pid, mi, lvs, op, lib.from_bits(st[4]) if len(st) > 4 else 0.0, lib.from_bits(st[5]) if len(st) > 5 else 0.0)


def run_fork_scenario(scen):
    """real os.fork() workers, each with MultiProcessValue() on the real os.getpid; -> Result"""
    import sys
    from prometheus_client import multiprocess, values
    res = Result()
    pool = scen['pool']
    t0 = time.time()
    with mpsim.Sim() as sim:
        pids = []
        sys.stdout.flush()
        sys.stderr.flush()
        for w, ops in enumerate(scen['workers']):
            pid = os.fork()
            if pid == 0:
                code = 3
                try:
                    values.ValueClass = values.MultiProcessValue()
                    proc = RealProc(values.ValueClass, pool, lambda c: None, sim.clock, w % 3)
                    code = 0
                    for st in ops:
                        md = pool[st[2]]
                        if st[0] == 'create':
                            proc.metric(st[2])
                        elif st[0] == 'child':
                            proc.child(st[2], lvs_of(md, st[3]))
                        else:
                            raised = proc.update(st[2], lvs_of(md, st[3]), st[0], lib.from_bits(st[4]) if len(st) > 4 else 0.0,
                                                 lib.from_bits(st[5]) if len(st) > 5 else 1.0)
                            expect = 'RuntimeError' if (is_mostrecent(md) and st[0] in ('inc', 'dec')) else None
                            if raised != expect:
                                code = 2
                    mpsim.close_class_files(values.ValueClass)
                except BaseException:  # noqa
                    code = 3
                finally:
                    os._exit(code)
            pids.append(pid)
        for w, pid in enumerate(pids):
            _, status = os.waitpid(pid, 0)
            rc = os.waitstatus_to_exitcode(status)
            if rc != 0:
                res.failures.append(('C08:raises', 'forked worker %d exited with %d (2: wrong exception behaviour, 3: crashed)' % (w, rc), 0))
        world = World(sim, pool, res, kept=scen.get('kept', False))
        for w, pid in enumerate(pids):
            for st in scen['workers'][w]:
                oracle_apply(world.oracle, pid, st)
        world.events = 0
        age_files(sim.dir, scen.get('age'), t0)
        world.collect_point(0)
        for j, w in enumerate(scen['dead']):
            world.step(1 + j, ['dead', pids[w]])
            age_files(sim.dir, scen.get('age'), t0)
            world.collect_point(1 + j)
    res.count('fork-scenarios')
    res.count('fork-workers', len(scen['workers']))
    return res


# ================================================================================================== candidate finding
def multiset(fams):
    return sorted((n, d, t, sorted((sn, tuple(sorted(dict(ls).items() if not isinstance(ls, dict) else ls.items())), repr(v + 0.0))
                                   for sn, ls, v in ss)) for n, d, t, ss in fams)


def probe_label_named_pid(ctx):
    """a user label NAMED 'pid' on a multiprocess gauge (kept out of the main stream)"""
    from prometheus_client import Gauge
    sig = 'C08:gauge-label-named-pid'
    found = []
    lines, reals = [], []
    for mode in ('all', 'min'):
        with mpsim.Sim() as sim:
            cls = sim.new_class(5)
            sim.use(cls)
            try:
                g = Gauge('gp', 'h', ['pid'], registry=None, multiprocess_mode=mode)
                sim.use(cls)
                g.labels('a').set(1)
                sim.use(cls)
                g.labels('b').set(2)
            except Exception:  # noqa  -- refused: nothing to probe
                continue
            try:
                real = sim.collect()
            except Exception:  # noqa  -- the collector itself fails here: reported by the main stream, nothing to probe
                continue
            files = [(os.path.basename(p), 'gauge', mode, '5', mpsim.read_file(p)) for p in sim.listing()]
            lines.append(mpsim.merge_request(files))
            reals.append((mode, real))
        samples = [s for f in real for s in f[3]]
        labelsets = [tuple(sorted(s[1].items())) for s in samples]
        if mode == 'all':
            if len(set(labelsets)) < len(labelsets) or not any(('pid', 'a') in ls for ls in labelsets):
                found.append({'sig': sig, 'what': "mode 'all': children pid='a' and pid='b' of one process are collected as %r "
                              "(duplicate series; the user's label value is overwritten by the process id)" % samples,
                              'witness': "Gauge('gp','h',['pid'],multiprocess_mode='all'); labels('a').set(1); labels('b').set(2) in process 5"})
        else:
            if len(samples) != 2 or not all(any(k == 'pid' for k, _ in ls) for ls in labelsets):
                found.append({'sig': sig, 'what': "mode 'min': children pid='a' and pid='b' are collected as %r "
                              "(the user's label is dropped and the two series are merged)" % samples,
                              'witness': "Gauge('gp','h',['pid'],multiprocess_mode='min'); labels('a').set(1); labels('b').set(2) in process 5"})
    replies = mpsim.driver_run(ctx, lines)
    if replies is not None:
        for (mode, real), rep in zip(reals, replies):
            r = mpsim.parse_merge_reply(rep)
            ctx.traces += 1
            if r[0] != 'ok' or multiset(r[1]) != multiset(real):
                ctx.diverge("label named 'pid', mode %s: model %r, real %r" % (mode, r[1] if r[0] == 'ok' else r, real),
                            {'probe': 'label-named-pid', 'mode': mode})
    known = lib.match_known(lib.load_known(), 'C08', sig)
    for f in found:
        if known is not None:
            ctx.fail(sig, f['what'], {'probe': 'label-named-pid'})
        else:
            ctx.extra.setdefault('candidate_findings', []).append(f)
    ctx.count('probe:label-named-pid')


# ================================================================================================== driver of the check
def truncate(scen, i):
    case = dict(scen, steps=scen['steps'][:i + 1])
    case.pop('quiet', None)     # a reported case collects after every step
    return case


def shrink_failure(scen, sig):
    def still(steps):
        r = run_scenario(dict(scen, steps=steps), want_model=False)
        return any(f[0] == sig for f in r.failures)
    steps = lib.shrink_list(scen['steps'], still, max_rounds=40)
    return dict(scen, steps=steps)


def shrink_divergence(ctx, scen):
    def still(steps):
        r = run_scenario(dict(scen, steps=steps))
        d, _ = model_divergences(ctx, r)
        return bool(d[0])
    steps = lib.shrink_list(scen['steps'], still, max_rounds=25)
    return dict(scen, steps=steps)


class Reporter:
    def __init__(self, ctx):
        self.ctx = ctx
        self.shrunk_sigs = set()
        self.shrunk_div = 0

    def failures(self, scen, res):
        ctx = self.ctx
        seen = set()
        for sig, what, i in res.failures:
            if sig in seen:
                continue
            seen.add(sig)
            case = scen
            if not scen.get('fork'):
                case = truncate(scen, i)
                if sig not in self.shrunk_sigs and len(self.shrunk_sigs) < 3:
                    self.shrunk_sigs.add(sig)
                    case = shrink_failure(case, sig)
                    r = run_scenario(case, want_model=False)
                    for f in r.failures:
                        if f[0] == sig:
                            what = f[1]
                            break
            ctx.fail(sig, what, case)

    def divergences(self, scen, divs):
        ctx = self.ctx
        if not divs:
            return
        what, i = divs[0]
        case = scen
        if not scen.get('fork'):
            case = truncate(scen, i)
            if self.shrunk_div < 2:
                self.shrunk_div += 1
                case = shrink_divergence(ctx, case)
                r = run_scenario(case)
                d, _ = model_divergences(ctx, r)
                if d[0]:
                    what = d[0][0][0]
        ctx.diverge(what, case)


def flush(ctx, rep, batch):
    divs, traces = model_divergences(ctx, [r for _, r in batch])
    ctx.traces += traces
    for (scen, res), d in zip(batch, divs):
        for key, sample in res.points:
            ctx.case(key, sample)
        for k, n in res.counts.items():
            ctx.count(k, n)
        rep.failures(scen, res)
        rep.divergences(scen, d)
    del batch[:]


def run(ctx):
    all_modes = modes()
    ctx.rule = ('scenario = metric pool (counters, summaries, histograms of 5 bucket layouts, gauges of the 10 modes, labelled or not) '
                '+ step list over 1-4 simulated processes (create / child / inc / dec / observe / set at a scripted time / '
                'Gauge.set_to_current_time at a scripted time / Counter.reset / mark_process_dead / pid reuse / hold ... release spans without any collection (also: a worker dies and the same pid re-creates its live-gauge files inside the span), ONE collector object kept for the whole scenario in 60% of them / a collection RACING with mark_process_dead of 1-3 '
                'processes (reaped between the collector\'s listing and its reads, vanished live-gauge files first/middle/last/spread/shuffled in the listing, '
                'through collect() with the listing hooked and through merge(explicit list)) / foreign histogram store file with non-canonical le spellings, written through the '
                'library store); label names before and after "le"; int and string identities (look-alike groups together); file mtimes '
                'aged per scenario (now/3s/1h/keep) before every collection; hand-written corpus per mode first, then seeded random scenarios; one case = '
                'one collection point (a collection follows every step outside a hold ... release span); non-trivial when >= 2 processes hold data or a '
                'death/reuse happened; distinct by the canonical collected output')
    ctx.extra['merge_no_accumulate'] = ('oracle-only stream (sig C08:merge-no-accumulate): the real merge(files, accumulate=False) is judged by the '
                                        'per-process-log oracle at every collection point of a pool with a histogram and every third point otherwise; '
                                        'the Lean model of merge has no accumulate parameter, so there is no model comparison for it')
    quick = ctx.tier == 'quick'
    budget = 40.0 if quick else 420.0
    n_random = 380 if quick else 4000
    n_fork = 3 if quick else 150
    if ctx.broken:
        n_random *= 3
        budget *= 1.6
    t0 = time.time()
    rep = Reporter(ctx)
    check_bound_table()
    probe_label_named_pid(ctx)
    batch = []
    samples_wanted = 4
    for scen in corpus():
        batch.append((scen, run_scenario(scen, want_sample=samples_wanted > 0)))
        samples_wanted -= 1
        ctx.count('scenarios:corpus')
        if len(batch) >= 25:
            flush(ctx, rep, batch)
    flush(ctx, rep, batch)
    for k in range(n_fork):
        scen = gen_fork_scenario(ctx.rng, all_modes)
        batch.append((scen, run_fork_scenario(scen)))
    flush(ctx, rep, batch)
    for k in range(n_random):
        if time.time() - t0 > budget:
            ctx.count('scenarios:skipped-for-time', n_random - k)
            break
        scen = gen_scenario(ctx.rng, all_modes, long=(k % 10 == 9))
        batch.append((scen, run_scenario(scen, want_sample=samples_wanted > 0)))
        samples_wanted -= 1
        ctx.count('scenarios:random')
        if len(batch) >= 25:
            flush(ctx, rep, batch)
    flush(ctx, rep, batch)


def replay(ctx, case):
    scen = case.get('case')
    if scen is None and case.get('divergences'):
        scen = case['divergences'][0].get('case')
    if not scen:
        print('REPLAY: the file records no failing input (kind=%s)' % case.get('kind'))
        return 0
    if scen.get('probe'):
        probe_label_named_pid(ctx)
    else:
        res = run_fork_scenario(scen) if scen.get('fork') else run_scenario(scen)
        divs, _ = model_divergences(ctx, res)
        for sig, what, i in res.failures:
            ctx.fail(sig, 'step %d: %s' % (i, what), scen)
        for what, i in divs[0]:
            ctx.diverge('step %d: %s' % (i, what), scen)
    for f in ctx.failures:
        print('REPLAY-FAIL', f['sig'], f['what'])
    for f in ctx.divergences:
        print('REPLAY-DIVERGE', f['what'])
    return 1 if ctx.failures or ctx.divergences else 0
